package main

import (
	"fmt"
	"go/ast"
	"go/constant"
	"go/token"
	"go/types"
	"regexp"
	"sort"
	"strings"

	"golang.org/x/tools/go/packages"
	"golang.org/x/tools/go/ssa"
)

// C08 - configuration survives encode/decode round trips.

func init() {
	register(Property{ID: "C08", Level: "other", Run: runC08,
		Technique: "static analysis: type-graph walk of conf.Conf/conf.Path (go/types), encoder/decoder sibling agreement (method pairs, wire types, constant tables extracted from the switch statements), static call-graph reachability of fixed-precision float formatting from the encoders, struct-tag rules, and a sibling-agreement rule over the callers of (*Conf).Validate for nil-slice normalisation",
		Text:      "Decides structural necessary conditions of the JSON round trip: every type in the configuration graph with MarshalJSON has UnmarshalJSON and both use the same wire type; decoder-only types read the default encoding of their underlying type; for enum-like types the string tables of encoder and decoder agree (decode(encode(k)) = k for every constant the decoder can produce); no encoder reaches a fixed-precision float formatter; json:\"-\" fields are exactly the tabled derived fields filled by Validate; the optional (patch) struct types are derived from Conf/Path skipping exactly the same fields as the returned Global type; omitempty is used only on pointer fields; configurations that contain slices nested below list elements are normalised (nil → empty) before they can be returned, because the decoder rejects null; validation is idempotent over the constants it fills in: for every constant a validation function (reachable from Conf.Validate) stores into a json-visible field, running the same function again on that value - under everything known about the input when the store ran - reaches no error return decided by that value, so the validated document the API returns is accepted when it is written back. Does not decide equality over value domains (time.Duration.String/ParseDuration, net.ParseCIDR, bytefmt.ToBytes), nor the deliberate redaction of credentials in API responses.",
		Note:      "trusted: encoding/json default encodings, time.Duration.String ↔ time.ParseDuration, net.IPNet.String ↔ net.ParseCIDR; reflect-based derivation of optional types is read from the constants its closures compare the json tag with"})
	addMutants(
		Mutant{"C08", "decoder-removed", "internal/conf/rtsp_auth_method.go",
			"// UnmarshalJSON implements json.Unmarshaler.\nfunc (d *RTSPAuthMethod) UnmarshalJSON(b []byte) error {", "func (d *RTSPAuthMethod) unmarshalJSONDisabled(b []byte) error {", "C08.pair"},
		Mutant{"C08", "loglevel-warn-renamed-in-encoder", "internal/conf/log_level.go",
			"		out = \"warn\"\n", "		out = \"warning\"\n", "C08.enum_tables"},
		Mutant{"C08", "transport-encoder-forgets-multicast", "internal/conf/rtsp_transport.go",
			"		case gortsplib.ProtocolUDPMulticast:\n			out = \"multicast\"\n\n		default:", "		default:", "C08.enum_tables"},
		Mutant{"C08", "transports-decoder-swaps-udp-tcp", "internal/conf/rtsp_transports.go",
			"		case \"udp\":\n			(*d)[gortsplib.ProtocolUDP] = struct{}{}", "		case \"udp\":\n			(*d)[gortsplib.ProtocolTCP] = struct{}{}", "C08.enum_tables"},
		Mutant{"C08", "duration-encoded-as-number", "internal/conf/duration.go",
			"	return json.Marshal(d.marshalInternal())", "	return json.Marshal(int64(d))", "C08.wire_type"},
		Mutant{"C08", "duration-encoded-with-3-decimals", "internal/conf/duration.go",
			"		ret += time.Duration(nonDays).String()", "		ret += strconv.FormatFloat(time.Duration(nonDays).Seconds(), 'f', 3, 64) + \"s\"", "C08.lossy_format.Duration"},
		Mutant{"C08", "record-path-hidden", "internal/conf/path.go",
			"RecordPath            string       `json:\"recordPath\"`", "RecordPath            string       `json:\"-\"`", "C08.hidden_fields"},
		Mutant{"C08", "optional-path-skips-name", "internal/conf/optional_path.go",
			"		if j != \"-\" {\n			if !strings.Contains", "		if j != \"-\" && j != \"name\" {\n			if !strings.Contains", "C08.optional_derivation"},
		Mutant{"C08", "delete-after-omitempty", "internal/conf/path.go",
			"RecordDeleteAfter     Duration     `json:\"recordDeleteAfter\"`", "RecordDeleteAfter     Duration     `json:\"recordDeleteAfter,omitempty\"`", "C08.omitempty_pointer_only"},
		Mutant{"C08", "load-does-not-normalise-slices", "internal/conf/conf.go",
			"	setAllNilSlicesToEmptyRecursive(reflect.ValueOf(conf))\n\n	// General (deprecated params)", "	// General (deprecated params)", "C08.nil_slices"},
	)
}

// json:"-" fields: derived values, recomputed by Validate/validate.
var c08HiddenTab = map[string]string{
	"Conf.Paths":                          "built from OptionalPaths by Validate",
	"Path.Regexp":                         "compiled from the key by validate",
	"Path.RPICameraPrimaryName":           "rpiCamera secondary→primary link (validate)",
	"Path.RPICameraSecondaryCodec":        "copied from the secondary stream (validate)",
	"Path.RPICameraSecondaryWidth":        "copied from the secondary stream (validate)",
	"Path.RPICameraSecondaryHeight":       "copied from the secondary stream (validate)",
	"Path.RPICameraSecondaryFPS":          "copied from the secondary stream (validate)",
	"Path.RPICameraSecondaryIDRPeriod":    "copied from the secondary stream (validate)",
	"Path.RPICameraSecondaryBitrate":      "copied from the secondary stream (validate)",
	"Path.RPICameraSecondaryH264Profile":  "copied from the secondary stream (validate)",
	"Path.RPICameraSecondaryH264Level":    "copied from the secondary stream (validate)",
	"Path.RPICameraSecondaryMJPEGQuality": "copied from the secondary stream (validate)",
}

func runC08(c *Ctx) {
	defer dumpObls(c)
	p := c.Main()
	if p == nil {
		return
	}
	c.Explain = "E3 walk of the json-visible type graph of conf.Conf and conf.Path; rules: pair (MarshalJSON ⇔ UnmarshalJSON), wire_type (value given to json.Marshal / quoted by hand vs. variable given to jsonwrapper.Unmarshal), default_decoder (decoder-only types decode into their own underlying type), enum_tables (E7: constant tables extracted from the switch statements of encoder and decoder agree: every encoded constant decodes to itself, every decodable constant not named by the encoder is the one the encoder's default string decodes to), " +
		"lossy_format (E2: static call graph from every MarshalJSON/marshalInternal of package conf, outside the standard library, reaches no strconv.FormatFloat/AppendFloat with fixed precision and no fmt %.Nf verb), hidden_fields (json:\"-\" fields = tabled derived fields, each stored by Validate/validate), optional_derivation (the tag constants skipped by the reflect.StructOf closures of global.go, optional_global.go, optional_path.go), omitempty_pointer_only, nil_slices (callers of (*Conf).Validate that install configurations whose type graph nests a slice below a list element call the nil-slice normaliser first, as conf.Load does), validate_idempotent (constant stores recv.F = k in the validation functions vs. the tests of recv.F against constants in the same function: second-run walk with F = k, the literals dominating the store and one scenario per value of each switch discriminant; only error returns reached through tests with known outcome count). " +
		"NOT decided: value-level equality (Duration text, CIDR text, byte-size text parsing), credential redaction in API responses (deliberate), yaml↔json equivalence."
	c.Assume = []string{
		"encoding/json encodes a nil slice as null and named string/struct types by their underlying kind",
		"time.ParseDuration(d.String()) == d; net.ParseCIDR(n.String()) == n",
		"API responses redact credentials on purpose (C07): passwords are outside the round trip",
	}
	confT := p.NamedType("internal/conf", "Conf")
	pathT := p.NamedType("internal/conf", "Path")
	if confT == nil || pathT == nil {
		c.Undecided("UNRESOLVED ANCHOR type conf.Conf / conf.Path")
		return
	}

	// ---- collect named module types of the graph
	named := map[string]*types.Named{}
	stop := func(t types.Type) bool {
		n, ok := t.(*types.Named)
		if !ok {
			return false
		}
		return hasMethod(n, "MarshalJSON") != nil || hasMethod(n, "UnmarshalJSON") != nil
	}
	nNodes := 0
	var omitBad []confNode
	nOmit := 0
	visit := func(n confNode) {
		nNodes++
		if nt, ok := n.Type.(*types.Named); ok && nt.Obj().Pkg() != nil && strings.HasPrefix(nt.Obj().Pkg().Path(), modPath) {
			named[typeStr(nt)] = nt
		}
		if n.Field != nil {
			_, opts, _ := jsonTag(n.Tag)
			if contains(opts, "omitempty") {
				nOmit++
				if _, isPtr := n.Type.Underlying().(*types.Pointer); !isPtr {
					omitBad = append(omitBad, n)
				}
			}
			for _, o := range opts {
				if o != "omitempty" {
					omitBad = append(omitBad, n)
				}
			}
		}
	}
	walkConfTypes(confT, "Conf", stop, visit)
	walkConfTypes(pathT, "Path", stop, visit)
	c.Floor("C08.graph.nodes", nNodes, 300)
	c.Floor("C08.graph.named_types", len(named), 20)
	c.Floor("C08.omitempty_pointer_only", nOmit, 40)
	c.Check("C08.omitempty_pointer_only", "json options in the configuration graph: only omitempty, only on pointer fields", len(omitBad) == 0, "-", func() string {
		var s []string
		for _, n := range omitBad {
			s = append(s, n.Path+" "+typeStr(n.Type)+" `"+n.Tag+"`")
		}
		return strings.Join(s, "; ")
	}())

	// ---- per type: pair / wire type / tables
	var names []string
	for k := range named {
		names = append(names, k)
	}
	sort.Strings(names)
	nPairs := 0
	for _, k := range names {
		nt := named[k]
		m, u := hasMethod(nt, "MarshalJSON"), hasMethod(nt, "UnmarshalJSON")
		if m == nil && u == nil {
			continue
		}
		pos := p.Pos(nt.Obj().Pos())
		short := strings.TrimPrefix(nt.Obj().Pkg().Path(), modPath+"/")
		if m != nil && u == nil {
			c.Check("C08.pair", k+": has MarshalJSON, so it has UnmarshalJSON", false, pos, "the encoded form cannot be read back")
			continue
		}
		uf := p.Func(short, nt.Obj().Name(), "UnmarshalJSON")
		if uf == nil {
			c.Undecided("UNRESOLVED ANCHOR " + k + ".UnmarshalJSON")
			continue
		}
		c.Analysed(fnName(uf))
		// decoder must be on the pointer receiver
		_, ptrRecv := uf.Signature.Recv().Type().(*types.Pointer)
		c.Check("C08.pair", k+": UnmarshalJSON has a pointer receiver", ptrRecv, pos, "")
		uw, uwDesc := c08DecoderWire(uf)
		if m == nil {
			// decoder-only: reads the default encoding of its own underlying type
			ok := uw != nil && types.Identical(uw.Underlying(), nt.Underlying())
			c.Check("C08.default_decoder", k+": decoder-only type decodes into its own underlying type", ok, pos, "jsonwrapper.Unmarshal target: "+uwDesc+"; underlying "+typeStr(nt.Underlying()))
			continue
		}
		nPairs++
		mf := p.Func(short, nt.Obj().Name(), "MarshalJSON")
		if mf == nil {
			c.Undecided("UNRESOLVED ANCHOR " + k + ".MarshalJSON")
			continue
		}
		c.Analysed(fnName(mf))
		c.Check("C08.pair", k+": MarshalJSON and UnmarshalJSON are declared in the same file", p.Fset.Position(mf.Pos()).Filename == p.Fset.Position(uf.Pos()).Filename, pos, "")
		mw, mwDesc := c08EncoderWire(mf)
		same := mw != nil && uw != nil && types.Identical(mw, uw)
		if !same && mwDesc == "$0.Values" && uwDesc == "$0.Values" {
			same = true // both sides hand the same dynamic value to encoding/json
		}
		c.Check("C08.wire_type", k+": encoder and decoder use the same JSON wire type", same, pos, "encoder emits "+mwDesc+", decoder reads "+uwDesc)

		// constant tables
		mfd, mpk := p.declOfFunc(mf)
		ufd, upk := p.declOfFunc(uf)
		if mfd == nil || ufd == nil {
			continue
		}
		mt, mdef, mok := c08EncoderTable(mpk, mfd)
		ut, uok := c08DecoderTable(upk, ufd)
		if len(mt) == 0 && mdef == "" {
			continue // not an enum-like encoder
		}
		var bad []string
		if !mok {
			bad = append(bad, "encoder switch has a clause without exactly one string constant")
		}
		if !uok || len(ut) == 0 {
			bad = append(bad, "decoder has no string→constant switch")
		}
		keys := map[string]bool{}
		for kk, s := range mt {
			keys[kk] = true
			if got, ok := ut[s]; !ok {
				bad = append(bad, fmt.Sprintf("encoder writes %q for %s but the decoder does not accept it", s, kk))
			} else if got != kk {
				bad = append(bad, fmt.Sprintf("encoder writes %q for %s but the decoder maps it to %s", s, kk, got))
			}
		}
		rest := map[string]bool{}
		for _, kk := range ut {
			if !keys[kk] {
				rest[kk] = true
			}
		}
		for kk := range rest {
			if mdef == "" {
				bad = append(bad, "decodable value "+kk+" is not handled by the encoder")
			} else if ut[mdef] != kk {
				bad = append(bad, fmt.Sprintf("decodable value %s is encoded by the default string %q, which decodes to %s", kk, mdef, ut[mdef]))
			}
		}
		if mdef != "" {
			if _, ok := ut[mdef]; !ok {
				bad = append(bad, fmt.Sprintf("encoder default string %q is not accepted by the decoder", mdef))
			}
		}
		sort.Strings(bad)
		c.Check("C08.enum_tables", k+": encoder and decoder constant tables agree", len(bad) == 0, pos,
			fmt.Sprintf("encoder %v default %q; decoder %v; %s", mt, mdef, ut, strings.Join(bad, "; ")))
	}
	c.Floor("C08.pair", nPairs, 9)

	c08Lossy(c, p)
	c08Hidden(c, p, confT, pathT)
	c08Derivation(c, p)
	c08NilSlices(c, p, confT, pathT)
	// what validation fills in survives validation (prop_r4_c08.go)
	c08ValidateIdempotentR4(c, p)
}

// c08EncoderWire: the type of the value a MarshalJSON hands to json.Marshal on
// every return, or string when the result is a hand-quoted string.
func c08EncoderWire(fn *ssa.Function) (types.Type, string) {
	var t types.Type
	d := ""
	for _, r := range returnsOf(fn) {
		if r.Block().Comment == "recover" {
			continue
		}
		v := retVal(r, 0)
		var rt types.Type
		rd := desc(v)
		switch x := v.(type) {
		case *ssa.Extract:
			if call, ok := x.Tuple.(*ssa.Call); ok && isCallTo(call, "encoding/json.Marshal") && x.Index == 0 {
				a := stripConv(call.Call.Args[0])
				rt = a.Type()
				rd = typeStr(rt)
				if _, f, _, isF := fieldLoad(a); isF && f == "Values" {
					rd = "$0.Values"
				}
			}
		case *ssa.Convert:
			// []byte(`"` + … + `"`)
			if bo, ok := x.X.(*ssa.BinOp); ok && bo.Op == token.ADD {
				if q, ok := constStringB(bo.Y); ok && q == `"` {
					// leftmost operand of the concatenation chain is the opening quote
					left := bo.X
					for {
						in, ok := left.(*ssa.BinOp)
						if !ok || in.Op != token.ADD {
							break
						}
						left = in.X
					}
					if q2, ok := constStringB(left); ok && q2 == `"` && left != bo.X {
						rt = types.Typ[types.String]
						rd = "string (quoted by hand)"
					}
				}
			}
		}
		if rt == nil {
			return nil, "unrecognised encoder result " + rd
		}
		if t != nil && !types.Identical(t, rt) {
			return nil, "different wire types on different returns"
		}
		t, d = rt, rd
	}
	return t, d
}

// c08DecoderWire: the pointee type of the destination of the first
// jsonwrapper.Unmarshal call of an UnmarshalJSON.
func c08DecoderWire(fn *ssa.Function) (types.Type, string) {
	for _, ci := range callsIn(fn, "conf/jsonwrapper.Unmarshal") {
		args := callCommon(ci).Args
		if len(args) != 2 {
			continue
		}
		a := stripConv(args[1])
		if _, f, _, isF := fieldLoad(a); isF && f == "Values" {
			return a.Type(), "$0.Values"
		}
		// (*alias)(d): look through the pointer conversion to the static pointee
		if pt, ok := args[1].(*ssa.MakeInterface); ok {
			if ptr, ok := pt.X.Type().Underlying().(*types.Pointer); ok {
				return ptr.Elem(), typeStr(ptr.Elem())
			}
		}
		if ptr, ok := a.Type().Underlying().(*types.Pointer); ok {
			return ptr.Elem(), typeStr(ptr.Elem())
		}
	}
	return nil, "no jsonwrapper.Unmarshal call"
}

func constKey(v constant.Value) string {
	if v == nil {
		return ""
	}
	return v.ExactString()
}

// stringConstsIn lists the distinct string constants in a statement list
// (without descending into nested switch / if statements).
func stringConstsIn(pk *packages.Package, stmts []ast.Stmt) []string {
	set := map[string]bool{}
	for _, st := range stmts {
		ast.Inspect(st, func(n ast.Node) bool {
			switch x := n.(type) {
			case *ast.SwitchStmt, *ast.IfStmt, *ast.TypeSwitchStmt:
				_ = x
				return false
			case ast.Expr:
				if s, ok := stringConstOfExpr(pk, x); ok {
					set[s] = true
					return false
				}
			}
			return true
		})
	}
	return sortedSet(set)
}

// c08EncoderTable extracts constant→string rows of a MarshalJSON.
func c08EncoderTable(pk *packages.Package, fd *ast.FuncDecl) (map[string]string, string, bool) {
	tab := map[string]string{}
	def := ""
	ok := true
	ast.Inspect(fd.Body, func(n ast.Node) bool {
		switch x := n.(type) {
		case *ast.SwitchStmt:
			if x.Tag == nil {
				return true
			}
			for _, cl := range x.Body.List {
				cc := cl.(*ast.CaseClause)
				strs := stringConstsIn(pk, cc.Body)
				if len(strs) != 1 {
					ok = false
					continue
				}
				if cc.List == nil {
					def = strs[0]
					continue
				}
				for _, e := range cc.List {
					k := constKey(constOfExpr(pk, e))
					if k == "" {
						ok = false
						continue
					}
					tab[k] = strs[0]
				}
			}
		case *ast.IfStmt:
			if be, isB := unparen(x.Cond).(*ast.BinaryExpr); isB && be.Op == token.EQL {
				if id, isID := unparen(be.Y).(*ast.Ident); isID && id.Name == "nil" {
					strs := stringConstsIn(pk, x.Body.List)
					if len(strs) == 1 {
						tab["nil"] = strs[0]
					} else {
						ok = false
					}
				}
			}
		}
		return true
	})
	return tab, def, ok
}

// c08DecoderTable extracts string→constant rows of an UnmarshalJSON.
func c08DecoderTable(pk *packages.Package, fd *ast.FuncDecl) (map[string]string, bool) {
	tab := map[string]string{}
	ok := true
	ast.Inspect(fd.Body, func(n ast.Node) bool {
		sw, isSw := n.(*ast.SwitchStmt)
		if !isSw || sw.Tag == nil {
			return true
		}
		if tv, has := pk.TypesInfo.Types[sw.Tag]; !has || tv.Type == nil {
			return true
		} else if b, isB := tv.Type.Underlying().(*types.Basic); !isB || b.Info()&types.IsString == 0 {
			return true
		}
		for _, cl := range sw.Body.List {
			cc := cl.(*ast.CaseClause)
			if cc.List == nil {
				continue
			}
			// the distinct non-string constants assigned in the clause
			set := map[string]bool{}
			nilAssigned := false
			for _, st := range cc.Body {
				ast.Inspect(st, func(m ast.Node) bool {
					switch y := m.(type) {
					case *ast.AssignStmt:
						for _, r := range y.Rhs {
							if id, isID := unparen(r).(*ast.Ident); isID && id.Name == "nil" {
								nilAssigned = true
							}
						}
					case ast.Expr:
						if v := constOfExpr(pk, y); v != nil && v.Kind() != constant.String && v.Kind() != constant.Bool {
							set[constKey(v)] = true
							return false
						}
					}
					return true
				})
			}
			ks := sortedSet(set)
			var key string
			switch {
			case len(ks) == 1:
				key = ks[0]
			case len(ks) == 0 && nilAssigned:
				key = "nil"
			default:
				ok = false
				continue
			}
			for _, e := range cc.List {
				s, isS := stringConstOfExpr(pk, e)
				if !isS {
					ok = false
					continue
				}
				tab[s] = key
			}
		}
		return true
	})
	return tab, ok
}

// ---------------------------------------------------------------- lossy formatting

var reFixedPrec = regexp.MustCompile(`%[-+# 0]*[0-9]*\.[0-9]+[feEgG]`)

func c08Lossy(c *Ctx, p *Prog) {
	sp := p.SSAPkgs[pkgPath("internal/conf")]
	if sp == nil {
		c.Undecided("UNRESOLVED ANCHOR package internal/conf")
		return
	}
	var roots []*ssa.Function
	for _, f := range p.ModFuncs() {
		if funcPkgPath(f) != pkgPath("internal/conf") || f.Parent() != nil || f.Synthetic != "" {
			continue
		}
		if f.Name() == "MarshalJSON" || f.Name() == "marshalInternal" || f.Name() == "String" {
			roots = append(roots, f)
		}
	}
	c.Floor("C08.lossy_format", len(roots), 10)
	for _, r := range roots {
		var sinks []string
		var pos token.Pos
		reach := staticReach([]*ssa.Function{r})
		for _, f := range reach {
			eachInstr(f, func(i ssa.Instruction) {
				cc := callCommon(i)
				if cc == nil {
					return
				}
				n := calleeName(cc)
				switch {
				case n == "strconv.FormatFloat" && len(cc.Args) == 4, n == "strconv.AppendFloat" && len(cc.Args) == 5:
					pa := cc.Args[len(cc.Args)-2]
					if k, ok := constIntB(pa); !ok || k >= 0 {
						sinks = append(sinks, fmt.Sprintf("%s(prec=%s) in %s", n, desc(pa), fnName(f)))
						pos = i.Pos()
					}
				case strings.HasPrefix(n, "fmt.") && len(cc.Args) > 0:
					for _, a := range cc.Args[:min(2, len(cc.Args))] {
						if s, ok := constStringB(a); ok && reFixedPrec.MatchString(s) {
							sinks = append(sinks, fmt.Sprintf("%s(%q) in %s", n, s, fnName(f)))
							pos = i.Pos()
						}
					}
				}
			})
		}
		if !pos.IsValid() || !strings.HasPrefix(p.Fset.Position(pos).Filename, repoDir) {
			pos = r.Pos()
		}
		c.Analysed(fnName(r))
		owner := "func"
		if r.Signature.Recv() != nil {
			owner = strings.TrimPrefix(strings.TrimPrefix(typeStr(r.Signature.Recv().Type()), "*"), "conf.")
		}
		c.Check("C08.lossy_format."+owner, fnName(r)+": no fixed-precision float formatting reachable", len(sinks) == 0, p.Pos(pos),
			fmt.Sprintf("%d functions reachable outside the standard library; %s", len(reach), strings.Join(sinks, "; ")))
	}
}

// ---------------------------------------------------------------- hidden fields

func c08Hidden(c *Ctx, p *Prog, confT, pathT *types.Named) {
	ix := p.index()
	n := 0
	for _, rt := range []*types.Named{confT, pathT} {
		st := rt.Underlying().(*types.Struct)
		for i := 0; i < st.NumFields(); i++ {
			_, _, hidden := jsonTag(st.Tag(i))
			if !hidden {
				continue
			}
			n++
			k := rt.Obj().Name() + "." + st.Field(i).Name()
			why, tabled := c08HiddenTab[k]
			c.Check("C08.hidden_fields", k+": json:\"-\" field is a tabled derived field", tabled, p.Pos(st.Field(i).Pos()), "a field that is not encoded cannot survive the round trip unless Validate recomputes it; "+why)
			if !tabled {
				continue
			}
			stored := false
			for _, s := range ix.fieldStores["conf."+k] {
				f := fnName(s.Parent())
				if f == "(*internal/conf.Conf).Validate" || f == "(*internal/conf.Path).validate" {
					stored = true
				}
			}
			c.Check("C08.hidden_fields", k+": recomputed by Validate/validate", stored, p.Pos(st.Field(i).Pos()), "")
		}
	}
	c.Floor("C08.hidden_fields", n, 12)
	for k := range c08HiddenTab {
		parts := strings.SplitN(k, ".", 2)
		rt := confT
		if parts[0] == "Path" {
			rt = pathT
		}
		found := false
		st := rt.Underlying().(*types.Struct)
		for i := 0; i < st.NumFields(); i++ {
			if st.Field(i).Name() == parts[1] {
				found = true
			}
		}
		if !found {
			c.Undecided("UNRESOLVED ANCHOR hidden field " + k)
		}
	}
}

// ---------------------------------------------------------------- derivation of optional types

func c08Derivation(c *Ctx, p *Prog) {
	want := map[string][]string{
		"globalValuesType":         {"-", "pathDefaults", "paths"},
		"optionalGlobalValuesType": {"-", "pathDefaults", "paths"},
		"optionalPathValuesType":   {"-"},
	}
	roots := map[string]string{"globalValuesType": "Conf", "optionalGlobalValuesType": "Conf", "optionalPathValuesType": "Path"}
	for _, g := range []string{"globalValuesType", "optionalGlobalValuesType", "optionalPathValuesType"} {
		v := p.globalInit("internal/conf", g)
		call, ok := v.(*ssa.Call)
		var fn *ssa.Function
		if ok {
			fn = call.Call.StaticCallee()
		}
		if fn == nil || fn.Blocks == nil {
			c.Undecided("UNRESOLVED ANCHOR initialiser closure of conf." + g)
			continue
		}
		c.Analysed(fnName(fn))
		// constants the json tag is compared with (skip set)
		skip := map[string]bool{}
		tagCmp := 0
		rootOK := false
		eachInstr(fn, func(i ssa.Instruction) {
			if bo, ok := i.(*ssa.BinOp); ok && (bo.Op == token.EQL || bo.Op == token.NEQ) {
				for _, pr := range [][2]ssa.Value{{bo.X, bo.Y}, {bo.Y, bo.X}} {
					if s, ok := constStringB(pr[1]); ok && strings.Contains(desc(pr[0]), `(reflect.StructTag).Get(`) && strings.Contains(desc(pr[0]), `"json"`) {
						skip[s] = true
						tagCmp++
					}
				}
			}
			if cc := callCommon(i); cc != nil && calleeName(cc) == "reflect.TypeOf" && len(cc.Args) == 1 {
				if typeStr(stripConv(cc.Args[0]).Type()) == "conf."+roots[g] {
					rootOK = true
				}
			}
		})
		got := sortedSet(skip)
		c.Check("C08.optional_derivation", "conf."+g+": derived from conf."+roots[g], rootOK, p.Pos(fn.Pos()), "")
		c.Check("C08.optional_derivation", "conf."+g+": fields skipped by json tag = "+joinS(want[g]), sameStrings(got, sortedCopy(want[g])), p.Pos(fn.Pos()), "got "+joinS(got))
		// the field name and type are carried over (Name: f.Name)
		nameKept := false
		eachInstr(fn, func(i ssa.Instruction) {
			if st, ok := i.(*ssa.Store); ok {
				if fa, ok := st.Addr.(*ssa.FieldAddr); ok && typeStr(fa.X.Type()) == "*reflect.StructField" {
					if fa.X.Type().Underlying().(*types.Pointer).Elem().Underlying().(*types.Struct).Field(fa.Field).Name() == "Name" {
						if _, f, _, ok := fieldLoad(st.Val); ok && f == "Name" {
							nameKept = true
						}
					}
				}
			}
		})
		c.Check("C08.optional_derivation", "conf."+g+": derived fields keep the source field name", nameKept, p.Pos(fn.Pos()), "")
	}
}

// ---------------------------------------------------------------- nil slices

// nestedSlice: the graph below root has a slice-typed field inside a struct
// that is itself an element of a slice/map (an omitted key leaves it nil).
func nestedSlice(root *types.Named, rootName string, skipTop map[string]bool) []string {
	var out []string
	stop := func(t types.Type) bool {
		n, ok := t.(*types.Named)
		if !ok {
			return false
		}
		return hasMethod(n, "UnmarshalJSON") != nil && hasMethod(n, "MarshalJSON") != nil
	}
	walkConfTypes(root, rootName, stop, func(n confNode) {
		if n.Field == nil || n.Depth == 0 {
			return
		}
		for k := range skipTop {
			if strings.HasPrefix(n.Path, rootName+"."+k) {
				return
			}
		}
		if _, isSlice := n.Type.Underlying().(*types.Slice); isSlice {
			if nt, ok := n.Type.(*types.Named); ok && hasMethod(nt, "MarshalJSON") != nil {
				return // encoded by its own method, never as null
			}
			out = append(out, n.Path)
		}
	})
	sort.Strings(out)
	return out
}

func c08NilSlices(c *Ctx, p *Prog, confT, pathT *types.Named) {
	val := c.fn(p, "internal/conf", "Conf", "Validate")
	norm := c.fn(p, "internal/conf", "", "setAllNilSlicesToEmptyRecursive")
	if val == nil || norm == nil {
		return
	}
	// does Validate normalise by itself?
	inside := false
	for _, f := range staticReach([]*ssa.Function{val}) {
		if f == norm {
			inside = true
		}
	}
	globalNested := nestedSlice(confT, "Conf", map[string]bool{"pathDefaults": true, "paths": true})
	pathNested := nestedSlice(pathT, "Path", nil)
	c.Count("nested_slices_global", len(globalNested))
	c.Count("nested_slices_path", len(pathNested))
	ix := p.index()
	sites := ix.callers[val]
	c.Floor("C08.nil_slices", len(sites), 7)
	for _, s := range sites {
		fn := s.Parent()
		c.Analysed(fnName(fn))
		key := fnName(fn) + ": nil slices are normalised before the configuration is validated and installed"
		if inside {
			c.Check("C08.nil_slices."+fn.Name(), key, true, p.Pos(s.Pos()), "Validate normalises")
			continue
		}
		// which decoded value does this caller install?
		kind := ""
		for _, prm := range fn.Params {
			switch typeStr(prm.Type()) {
			case "conf.OptionalGlobal", "*conf.OptionalGlobal":
				kind = "global"
			case "conf.OptionalPath", "*conf.OptionalPath":
				kind = "path"
			}
		}
		if fnName(fn) == "internal/conf.Load" {
			kind = "file"
		}
		var nested []string
		switch kind {
		case "global":
			nested = globalNested
		case "path":
			nested = pathNested
		case "file":
			nested = append(append([]string{}, globalNested...), "Conf.* (absent keys of the file)")
		default:
			c.Check("C08.nil_slices."+fn.Name(), key, true, p.Pos(s.Pos()), "no decoded value is installed by this caller")
			continue
		}
		if len(nested) == 0 {
			c.Check("C08.nil_slices."+fn.Name(), key, true, p.Pos(s.Pos()), "the decoded type has no slice nested below a list element")
			continue
		}
		w := reachAvoiding(entry(fn), func(i ssa.Instruction) bool { return i == s }, func(i ssa.Instruction) bool {
			return calleeFn(i) == norm
		})
		c.Check("C08.nil_slices."+fn.Name(), key, w == nil, p.Pos(s.Pos()),
			"an omitted "+strings.Join(nested, ", ")+" stays nil, is returned as null by the API, and null is rejected by jsonwrapper when written back")
	}
}
