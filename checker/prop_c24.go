package main

import (
	"fmt"
	"go/token"
	"go/types"
	"math/big"
	"os"
	"sort"
	"strings"

	"golang.org/x/tools/go/ssa"
)

// C24 - timestamp scaling is exact.
//
// E7: every scaling helper of the module is the split form
//       (v/d)*m + ((v%d)*m)/d
//     which equals trunc(v*m/d) for m, d > 0 (q*m is an integer of the sign of
//     v, so truncation of the sum is the truncation of the remainder term), and
//     never overflows before the exact result does provided |(d-1)*m| < 2^63.
// E8: at every call site the bound (d-1)*m < 2^63 follows from constants, static
//     types (uint32 time scales) and the stated clock-rate assumption.
// E8/E6: no unsplit a*b/c on 64-bit tick/duration operands whose bounds allow
//     the product to overflow.

func init() {
	register(Property{ID: "C24", Level: "other", Run: runC24,
		Technique: "static analysis: structural matching of SSA expression trees (sibling agreement of the scaling helpers), interval bounds from constants/static types/call-site summaries at every call site, whole-module scan for unsplit multiply-then-divide",
		Text:      "Decides: (1) every function of the module whose result is built from a multiplication and a division of its integer parameters (the scaling helpers and the two MP4 duration converters) computes exactly (v/d)*m + ((v%d)*m)/d on 64-bit signed integers with only value-preserving conversions, which is trunc(v*m/d) whenever (d-1)*m < 2^63 and the result is representable; (2) at every call site of a helper, directly or through a wrapper parameter, the multiplier and divisor are constants, uint32-typed time scales or clock rates, so that (d-1)*m < 2^63; (2b) no subtraction in the module has two truncated scalings as operands (traced through conversions, phis, locals, wrappers and struct fields whose every store is a scaling): a converted elapsed time is the scaling of the tick difference, not the difference of two scalings, which can be one unit off; (3) every other 64-bit multiply-then-divide in the module has a product bounded below 2^63 by constants and static types. Not decided: that divisors are non-zero (crash property), value correctness of the rates passed, float conversions (none exist in the anchored code).",
		Note:      "assumption: clock rates / sample rates returned by format.ClockRate() and stored in int-typed *Rate/TimeScale fields are < 2^31 (the remainder product of two non-constant rates needs it); integer semantics of Go (truncated division)"})
	addMutants(
		Mutant{"C24", "stream-helper-unsplit", "internal/stream/stream_format.go",
			"	secs := v / d\n	dec := v % d\n	return (secs*m + dec*m/d)", "	return v * m / d", "C24.helper"},
		Mutant{"C24", "recorder-helper-drops-remainder", "internal/recorder/format_mpegts.go",
			"func multiplyAndDivide2(v, m, d time.Duration) time.Duration {\n	secs := v / d\n	dec := v % d\n	return (secs*m + dec*m/d)", "func multiplyAndDivide2(v, m, d time.Duration) time.Duration {\n	secs := v / d\n	return (secs * m)", "C24.helper"},
		Mutant{"C24", "ntp-helper-wrong-divisor", "internal/ntpestimator/estimator.go",
			"	secs := v / d\n	dec := v % d\n	return (secs*m + dec*m/d)", "	secs := v / d\n	dec := v % d\n	return (secs*m + dec*m/m)", "C24.helper"},
		Mutant{"C24", "playback-helper-narrowed", "internal/playback/segment_fmp4.go",
			"	return int64(secs)*timeScale64 + int64(dec)*timeScale64/int64(time.Second)", "	return int64(secs)*timeScale64 + int64(int32(dec))*timeScale64/int64(time.Second)", "C24.helper"},
		Mutant{"C24", "mp4togo-remainder-by-wrong-scale", "internal/playback/segment_fmp4.go",
			"	return time.Duration(secs)*time.Second + time.Duration(dec)*time.Second/time.Duration(timeScale64)", "	return time.Duration(secs)*time.Second + time.Duration(dec)*time.Second/time.Duration(timeScale)*1", "C24.helper"},
		Mutant{"C24", "site-unbounded-multiplier", "internal/stream/offline_sub_stream_track.go",
			"ptsFormat := multiplyAndDivide(pts, int64(t.format.ClockRate()), int64(track.TimeScale))", "ptsFormat := multiplyAndDivide(pts, pts, int64(track.TimeScale))", "C24.site"},
		Mutant{"C24", "new-unsplit-conversion", "internal/recorder/format_mpegts.go",
			"	return multiplyAndDivide2(time.Duration(t), time.Second, time.Duration(clockRate))", "	return time.Duration(t) * time.Second / time.Duration(clockRate)", "C24.unsplit"},
		Mutant{"C24", "unsplit-in-hls", "internal/protocols/hls/to_stream.go",
			"	secs := v / d\n	dec := v % d\n	return (secs*m + dec*m/d)", "	secs := v / d\n	dec := v % d\n	return (secs*m + dec*m/d) + 0*(v*m/d)", "C24."},
	)
}

var two63 = new(big.Int).Lsh(big.NewInt(1), 63)
var rateBound = new(big.Int).Sub(new(big.Int).Lsh(big.NewInt(1), 31), big.NewInt(1))

type c24Helper struct {
	fn      *ssa.Function
	v, m, d ssa.Value // stripped operands of the split form
	ok      bool
	why     string
}

func runC24(c *Ctx) {
	p := c.Main()
	if p == nil {
		return
	}
	c.Explain = "C24.helper.form: every candidate scaling function (integer parameters, integer result computed with both * and /) is exactly the split form on 64-bit signed integers; C24.helper.present: the helpers named by the property exist in the anchored packages. " +
		"C24.site.no_overflow: per call site (d-1)*m < 2^63 from interval bounds (constants, static types, ClockRate()/rate fields under the stated assumption, parameters summarised over all callers, captured variables over all stores). " +
		"C24.difference.scaled_once: per helper call site, its truncated result is never one operand of a subtraction whose other operand is also a truncated scaling (origin tracing through fields by who-may-store); scalings by an integral constant ratio are exempt. " +
		"C24.unsplit: every other 64-bit (a*b)/c in the module has a*b bounded below 2^63. NOT decided: non-zero divisors, semantic choice of rates, float conversions."
	c.Assume = []string{"clock/sample rates (format.ClockRate(), int-typed ClockRate/SampleRate/TimeScale fields) are < 2^31",
		"Go integer division truncates toward zero; m, d > 0"}
	debug := os.Getenv("C24_DEBUG") != ""

	// ---- (1) helpers
	helpers := map[*ssa.Function]*c24Helper{}
	var order []*ssa.Function
	for _, fn := range p.ModFuncs() {
		if fn.Parent() != nil || fn.Synthetic != "" || !c24Candidate(fn) {
			continue
		}
		h := c24Match(p, fn)
		helpers[fn] = h
		order = append(order, fn)
		c.Analysed(fnName(fn))
		c.Check("C24.helper.form", fnName(fn)+": result is (v/d)*m + ((v%d)*m)/d on 64-bit signed integers", h.ok, p.Pos(fn.Pos()), h.why)
	}
	c.Floor("C24.helper.form", len(order), 12)
	// anchors named by the property
	for _, a := range [][2]string{
		{"internal/stream", "multiplyAndDivide"}, {"internal/stream", "multiplyAndDivide2"},
		{"internal/recorder", "multiplyAndDivide"}, {"internal/recorder", "multiplyAndDivide2"},
		{"internal/ntpestimator", "multiplyAndDivide"}, {"internal/playback", "durationGoToMp4"}, {"internal/playback", "durationMp4ToGo"},
		{"internal/protocols/rtmp", "multiplyAndDivide"}, {"internal/protocols/rtmp", "multiplyAndDivide2"},
		{"internal/protocols/mpegts", "multiplyAndDivide"}, {"internal/protocols/webrtc", "multiplyAndDivide2"}, {"internal/protocols/hls", "multiplyAndDivide"},
	} {
		fn := c.fn(p, a[0], "", a[1])
		if fn != nil {
			c.Check("C24.helper.present", fnName(fn)+": is a recognised scaling helper", helpers[fn] != nil, p.Pos(fn.Pos()),
				"the function no longer has the shape (integer parameters, * and /) the helper rule recognises")
		}
	}

	// ---- (2) call sites
	bd := &c24Bounds{p: p, memo: map[ssa.Value]*c24B{}, busy: map[ssa.Value]bool{}}
	nsites := 0
	for _, fn := range order {
		h := helpers[fn]
		if !h.ok {
			continue
		}
		mP, mIsParam := h.m.(*ssa.Parameter)
		dP, dIsParam := h.d.(*ssa.Parameter)
		if !mIsParam && !dIsParam {
			// both internal (constant / converted parameter): one obligation inside the helper
			nsites++
			c24SiteCheck(c, p, bd, fnName(fn)+" (internal operands)", fn.Pos(), h.m, h.d)
			continue
		}
		sites := p.callerIndex().sites[fn]
		if p.callerIndex().valueUse[fn] {
			c.Check("C24.site.no_overflow", fnName(fn)+": helper is only called directly", false, p.Pos(fn.Pos()), "used as a function value; call sites cannot be enumerated")
		}
		for _, s := range sites {
			cc := callCommon(s)
			var m, d ssa.Value = h.m, h.d
			if mIsParam {
				m = cc.Args[paramIndex(mP)]
			}
			if dIsParam {
				d = cc.Args[paramIndex(dP)]
			}
			nsites++
			c24SiteCheck(c, p, bd, fnName(s.Parent())+" → "+fn.Name(), posOf(s, s.Parent()), m, d)
		}
	}
	c.Floor("C24.site.no_overflow", nsites, 40)

	// ---- (2b) an elapsed time is scaled once (prop_r3_c24.go)
	c24DifferencesR3(c, p, helpers)

	// ---- (3) unsplit multiply-then-divide anywhere else
	nun := 0
	for _, fn := range p.ModFuncs() {
		root := fn
		for root.Parent() != nil {
			root = root.Parent()
		}
		if h := helpers[root]; h != nil && h.ok {
			continue // the remainder term of a verified helper
		}
		eachInstr(fn, func(i ssa.Instruction) {
			q, ok := i.(*ssa.BinOp)
			if !ok || q.Op != token.QUO || !c24Is64(p, q.Type()) {
				return
			}
			mul, ok := c24Lossless(q.X).(*ssa.BinOp)
			if !ok || mul.Op != token.MUL || !c24Is64(p, mul.Type()) {
				return
			}
			nun++
			a, b := bd.bound(mul.X, 0), bd.bound(mul.Y, 0)
			ok2 := a.max != nil && b.max != nil && new(big.Int).Mul(a.max, b.max).Cmp(two63) < 0
			detail := fmt.Sprintf("a=%s (%s), b=%s (%s)", desc(mul.X), a, desc(mul.Y), b)
			if debug {
				fmt.Printf("C24 unsplit %s %s: %v %s\n", p.Pos(posOf(q, fn)), fnName(fn), ok2, detail)
			}
			c.Check("C24.unsplit", fnName(fn)+": ("+c24Short(mul.X)+" * "+c24Short(mul.Y)+") / "+c24Short(q.Y)+" cannot overflow before the division", ok2, p.Pos(posOf(q, fn)), detail)
		})
	}
	c.Count("unsplit_sites", nun)
}

func c24Short(v ssa.Value) string {
	s := desc(v)
	if len(s) > 60 {
		s = s[:57] + "..."
	}
	return s
}

func c24SiteCheck(c *Ctx, p *Prog, bd *c24Bounds, where string, pos token.Pos, m, d ssa.Value) {
	bm, bdv := bd.bound(m, 0), bd.bound(d, 0)
	ok := bm.max != nil && bdv.max != nil
	if ok {
		dm1 := new(big.Int).Sub(bdv.max, big.NewInt(1))
		if dm1.Sign() < 0 {
			dm1 = big.NewInt(0)
		}
		ok = new(big.Int).Mul(dm1, bm.max).Cmp(two63) < 0
	}
	detail := fmt.Sprintf("m=%s (%s), d=%s (%s); need (d-1)*m < 2^63", desc(m), bm, desc(d), bdv)
	if os.Getenv("C24_DEBUG") != "" {
		fmt.Printf("C24 site %s %s: %v %s\n", p.Pos(pos), where, ok, detail)
	}
	c.Check("C24.site.no_overflow", where+": m="+c24Class(bm)+", d="+c24Class(bdv), ok, p.Pos(pos), detail)
}

func c24Class(b *c24B) string {
	if b.max == nil {
		return "unbounded"
	}
	k := b.kind
	switch {
	case strings.HasPrefix(k, "const"), strings.HasPrefix(k, "zero"):
		return "constant"
	case strings.HasPrefix(k, "rate"):
		return "clock rate"
	case strings.HasPrefix(k, "parameter"):
		return "wrapper parameter"
	case strings.HasPrefix(k, "captured"), strings.HasPrefix(k, "local"):
		return "local variable"
	case strings.HasPrefix(k, "uint"), strings.HasPrefix(k, "int"):
		return k + "-typed"
	}
	return "derived"
}

// c24KnownBounds: library facts confirmed by reading the pinned dependency
// (closed table, one entry per named construct).
var c24KnownBounds = map[string]int64{
	// mediacommon v2 mpeg1audio/frame_header.go: samplesPerFrame = {{384,1152,1152},{384,1152,576}}
	"(github.com/bluenviron/mediacommon/v2/pkg/codecs/mpeg1audio.FrameHeader).SampleCount": 1152,
}

func c24Is64(p *Prog, t types.Type) bool {
	b, ok := t.Underlying().(*types.Basic)
	if !ok || b.Info()&types.IsInteger == 0 {
		return false
	}
	return p.Sizes.Sizeof(t) == 8
}

func c24IsInt(t types.Type) bool {
	b, ok := t.Underlying().(*types.Basic)
	return ok && b.Info()&types.IsInteger != 0
}

// c24Candidate: plain function, all parameters and the single result integers,
// straight-line body, and the result tree contains both a MUL and a QUO/REM.
func c24Candidate(fn *ssa.Function) bool {
	sig := fn.Signature
	if sig.Recv() != nil || sig.Results().Len() != 1 || sig.Params().Len() < 2 || !c24IsInt(sig.Results().At(0).Type()) {
		return false
	}
	for i := 0; i < sig.Params().Len(); i++ {
		if !c24IsInt(sig.Params().At(i).Type()) {
			return false
		}
	}
	if len(fn.Blocks) != 1 {
		return false
	}
	rets := returnsOf(fn)
	if len(rets) != 1 {
		return false
	}
	mul, quo := false, false
	seen := map[ssa.Value]bool{}
	var walk func(v ssa.Value)
	walk = func(v ssa.Value) {
		if seen[v] {
			return
		}
		seen[v] = true
		switch x := v.(type) {
		case *ssa.BinOp:
			if x.Op == token.MUL {
				mul = true
			}
			if x.Op == token.QUO || x.Op == token.REM {
				quo = true
			}
			walk(x.X)
			walk(x.Y)
		case *ssa.Convert:
			walk(x.X)
		case *ssa.ChangeType:
			walk(x.X)
		case *ssa.UnOp:
			walk(x.X)
		}
	}
	walk(rets[0].Results[0])
	return mul && quo
}

// c24Lossless strips conversions that preserve the integer value.
func c24Lossless(v ssa.Value) ssa.Value {
	for {
		switch x := v.(type) {
		case *ssa.ChangeType:
			v = x.X
			continue
		case *ssa.Convert:
			sb, ok1 := x.X.Type().Underlying().(*types.Basic)
			tb, ok2 := x.Type().Underlying().(*types.Basic)
			if ok1 && ok2 && sb.Info()&types.IsInteger != 0 && tb.Info()&types.IsInteger != 0 {
				ss, ts := c24Bits(sb), c24Bits(tb)
				su, tu := sb.Info()&types.IsUnsigned != 0, tb.Info()&types.IsUnsigned != 0
				if (su == tu && ts >= ss) || (su && !tu && ts > ss) {
					v = x.X
					continue
				}
			}
		}
		return v
	}
}

func c24Bits(b *types.Basic) int {
	switch b.Kind() {
	case types.Int8, types.Uint8:
		return 8
	case types.Int16, types.Uint16:
		return 16
	case types.Int32, types.Uint32:
		return 32
	}
	return 64
}

func c24Same(a, b ssa.Value) bool {
	a, b = c24Lossless(a), c24Lossless(b)
	if a == b {
		return true
	}
	ca, ok1 := a.(*ssa.Const)
	cb, ok2 := b.(*ssa.Const)
	if ok1 && ok2 && ca.Value != nil && cb.Value != nil {
		return ca.Value.ExactString() == cb.Value.ExactString()
	}
	return false
}

func c24Bin(v ssa.Value, op token.Token) (*ssa.BinOp, bool) {
	b, ok := c24Lossless(v).(*ssa.BinOp)
	return b, ok && b.Op == op
}

// c24Match matches the split form and returns its operands.
func c24Match(p *Prog, fn *ssa.Function) *c24Helper {
	h := &c24Helper{fn: fn}
	ret := returnsOf(fn)[0].Results[0]
	if !c24Is64(p, ret.Type()) {
		h.why = "result type is not a 64-bit integer: " + typeStr(ret.Type())
		return h
	}
	if b, ok := ret.Type().Underlying().(*types.Basic); ok && b.Info()&types.IsUnsigned != 0 {
		h.why = "unsigned arithmetic"
		return h
	}
	var bad string
	eachInstr(fn, func(i ssa.Instruction) {
		switch i.(type) {
		case *ssa.BinOp, *ssa.Convert, *ssa.ChangeType, *ssa.Return, *ssa.DebugRef:
		default:
			bad = fmt.Sprintf("%T", i)
		}
	})
	if bad != "" {
		h.why = "body is not pure integer arithmetic: " + bad
		return h
	}
	add, ok := c24Bin(ret, token.ADD)
	if !ok {
		h.why = "result is not a sum: " + desc(ret)
		return h
	}
	try := func(whole, rem ssa.Value) string {
		wm, ok := c24Bin(whole, token.MUL)
		if !ok {
			return "whole-part term is not a product"
		}
		rq, ok := c24Bin(rem, token.QUO)
		if !ok {
			return "remainder term is not a quotient"
		}
		rm, ok := c24Bin(rq.X, token.MUL)
		if !ok {
			return "remainder term numerator is not a product"
		}
		for _, wsw := range []bool{false, true} {
			q, m := wm.X, wm.Y
			if wsw {
				q, m = m, q
			}
			qq, ok := c24Bin(q, token.QUO)
			if !ok {
				continue
			}
			for _, rsw := range []bool{false, true} {
				r, m2 := rm.X, rm.Y
				if rsw {
					r, m2 = m2, r
				}
				rr, ok := c24Bin(r, token.REM)
				if !ok {
					continue
				}
				if !c24Same(qq.X, rr.X) {
					return "v differs between v/d and v%d"
				}
				if !c24Same(qq.Y, rr.Y) || !c24Same(qq.Y, rq.Y) {
					return "the three divisors differ: " + desc(qq.Y) + ", " + desc(rr.Y) + ", " + desc(rq.Y)
				}
				if !c24Same(m, m2) {
					return "the two multipliers differ: " + desc(m) + ", " + desc(m2)
				}
				h.v, h.m, h.d = c24Lossless(qq.X), c24Lossless(m), c24Lossless(qq.Y)
				// every intermediate is 64-bit
				for _, x := range []ssa.Value{wm, rq, rm, qq, rr} {
					if !c24Is64(p, x.Type()) {
						return "intermediate narrower than 64 bits: " + typeStr(x.Type())
					}
				}
				if _, isP := h.v.(*ssa.Parameter); !isP {
					return "v is not a parameter: " + desc(h.v)
				}
				for _, x := range []ssa.Value{h.m, h.d} {
					switch x.(type) {
					case *ssa.Parameter, *ssa.Const:
					default:
						return "m/d is neither a parameter nor a constant: " + desc(x)
					}
				}
				return ""
			}
		}
		return "terms do not have the shape (v/d)*m and ((v%d)*m)/d"
	}
	w1 := try(add.X, add.Y)
	if w1 == "" {
		h.ok = true
		h.why = "v=" + desc(h.v) + " m=" + desc(h.m) + " d=" + desc(h.d)
		return h
	}
	w2 := try(add.Y, add.X)
	if w2 == "" {
		h.ok = true
		h.why = "v=" + desc(h.v) + " m=" + desc(h.m) + " d=" + desc(h.d)
		return h
	}
	h.why = w1 + "; result = " + desc(ret)
	return h
}

// ---- interval bounds (E8)

type c24B struct {
	max  *big.Int // nil = unbounded
	kind string
}

func (b *c24B) String() string {
	if b.max == nil {
		return "unbounded: " + b.kind
	}
	return b.kind + " ≤ " + b.max.String()
}

type c24Bounds struct {
	p    *Prog
	memo map[ssa.Value]*c24B
	busy map[ssa.Value]bool
}

func c24TypeMax(t types.Type) *big.Int {
	b, ok := t.Underlying().(*types.Basic)
	if !ok || b.Info()&types.IsInteger == 0 {
		return nil
	}
	bits := c24Bits(b)
	if bits == 64 {
		return nil
	}
	if b.Info()&types.IsUnsigned == 0 {
		bits--
	}
	return new(big.Int).Sub(new(big.Int).Lsh(big.NewInt(1), uint(bits)), big.NewInt(1))
}

var c24RateNames = map[string]bool{"ClockRate": true, "SampleRate": true, "TimeScale": true, "timeScale": true, "Timescale": true, "clockRate": true}

func maxB(a, b *c24B) *c24B {
	if a == nil {
		return b
	}
	if a.max == nil {
		return a
	}
	if b.max == nil {
		return b
	}
	if b.max.Cmp(a.max) > 0 {
		return b
	}
	return a
}

func (bd *c24Bounds) bound(v ssa.Value, depth int) *c24B {
	if r, ok := bd.memo[v]; ok {
		return r
	}
	if bd.busy[v] || depth > 8 {
		return &c24B{big.NewInt(0), "cycle"}
	}
	bd.busy[v] = true
	r := bd.bound1(v, depth)
	delete(bd.busy, v)
	// the static type always bounds the value
	if tm := c24TypeMax(v.Type()); tm != nil && (r.max == nil || tm.Cmp(r.max) < 0) {
		r = &c24B{tm, typeStr(v.Type())}
	}
	bd.memo[v] = r
	return r
}

func (bd *c24Bounds) bound1(v ssa.Value, depth int) *c24B {
	switch x := v.(type) {
	case *ssa.Const:
		if x.Value == nil {
			return &c24B{big.NewInt(0), "zero"}
		}
		if n, ok := new(big.Int).SetString(x.Value.ExactString(), 10); ok {
			return &c24B{n.Abs(n), "const"}
		}
		return &c24B{nil, "non-integer constant"}
	case *ssa.ChangeType:
		return bd.bound(x.X, depth+1)
	case *ssa.Convert:
		return bd.bound(x.X, depth+1)
	case *ssa.Phi:
		var r *c24B
		for _, e := range x.Edges {
			r = maxB(r, bd.bound(e, depth+1))
		}
		return r
	case *ssa.Call:
		if x.Call.IsInvoke() {
			if c24RateNames[x.Call.Method.Name()] {
				return &c24B{rateBound, "rate:" + x.Call.Method.Name() + "()"}
			}
			return &c24B{nil, "interface call " + x.Call.Method.Name()}
		}
		if k, ok := c24KnownBounds[calleeName(&x.Call)]; ok {
			return &c24B{big.NewInt(k), "known table bound of " + x.Call.StaticCallee().Name()}
		}
		if f := x.Call.StaticCallee(); f != nil {
			if c24RateNames[f.Name()] && f.Signature.Recv() != nil {
				return &c24B{rateBound, "rate:" + f.Name() + "()"}
			}
			// a callee all of whose returns are integer constants
			if f.Blocks != nil && f.Signature.Results().Len() == 1 {
				var r *c24B
				for _, ret := range returnsOf(f) {
					r = maxB(r, bd.bound(ret.Results[0], depth+1))
				}
				if r != nil && r.max != nil {
					return &c24B{r.max, "callee " + f.Name() + " returns bounded values"}
				}
			}
		}
		return &c24B{nil, "call " + calleeName(&x.Call)}
	case *ssa.Field:
		st := x.X.Type().Underlying().(*types.Struct)
		if tm := c24TypeMax(st.Field(x.Field).Type()); tm != nil {
			return &c24B{tm, typeStr(st.Field(x.Field).Type())}
		}
		if c24RateNames[st.Field(x.Field).Name()] {
			return &c24B{rateBound, "rate field " + st.Field(x.Field).Name()}
		}
		return &c24B{nil, "field " + st.Field(x.Field).Name()}
	case *ssa.UnOp:
		if x.Op != token.MUL {
			return &c24B{nil, "unary " + x.Op.String()}
		}
		switch a := x.X.(type) {
		case *ssa.FieldAddr:
			st := a.X.Type().Underlying().(*types.Pointer).Elem().Underlying().(*types.Struct)
			if tm := c24TypeMax(st.Field(a.Field).Type()); tm != nil {
				return &c24B{tm, typeStr(st.Field(a.Field).Type())}
			}
			if c24RateNames[st.Field(a.Field).Name()] {
				return &c24B{rateBound, "rate field " + st.Field(a.Field).Name()}
			}
			return &c24B{nil, "field " + st.Field(a.Field).Name()}
		case *ssa.Alloc:
			return bd.allocBound(a, depth)
		case *ssa.FreeVar:
			return bd.freeVarBound(a, depth)
		}
		return &c24B{nil, "load"}
	case *ssa.FreeVar:
		return bd.freeVarBound(x, depth)
	case *ssa.Parameter:
		fn := x.Parent()
		ci := bd.p.callerIndex()
		if fn.Parent() != nil || ci.valueUse[fn] || len(ci.sites[fn]) == 0 || !inModule(fn) {
			return &c24B{nil, "parameter " + x.Name() + " of " + fn.Name() + " (callers unknown)"}
		}
		idx := paramIndex(x)
		var r *c24B
		for _, s := range ci.sites[fn] {
			cc := callCommon(s)
			if idx >= len(cc.Args) {
				return &c24B{nil, "variadic"}
			}
			r = maxB(r, bd.bound(cc.Args[idx], depth+1))
		}
		if r.max != nil {
			return &c24B{r.max, "parameter " + x.Name() + " over " + fmt.Sprint(len(ci.sites[fn])) + " call sites (" + r.kind + ")"}
		}
		return &c24B{nil, "parameter " + x.Name() + ": " + r.kind}
	case *ssa.BinOp:
		a, b := bd.bound(x.X, depth+1), bd.bound(x.Y, depth+1)
		if a.max == nil || b.max == nil {
			return &c24B{nil, "arithmetic on unbounded operand"}
		}
		switch x.Op {
		case token.ADD, token.SUB:
			return &c24B{new(big.Int).Add(a.max, b.max), "sum"}
		case token.MUL:
			return &c24B{new(big.Int).Mul(a.max, b.max), "product"}
		case token.QUO, token.REM, token.AND:
			return &c24B{a.max, "quotient"}
		}
		return &c24B{nil, "operator " + x.Op.String()}
	case *ssa.Extract:
		return &c24B{nil, "tuple result"}
	}
	return &c24B{nil, fmt.Sprintf("%T", v)}
}

func (bd *c24Bounds) allocBound(a *ssa.Alloc, depth int) *c24B {
	var r *c24B
	n := 0
	var visit func(refs []ssa.Instruction) bool
	visit = func(refs []ssa.Instruction) bool {
		for _, ref := range refs {
			switch y := ref.(type) {
			case *ssa.Store:
				if y.Addr == ssa.Value(a) {
					n++
					r = maxB(r, bd.bound(y.Val, depth+1))
				}
			case *ssa.UnOp, *ssa.DebugRef:
			case *ssa.MakeClosure:
				// captured by reference: stores inside the closure count too
				fn := y.Fn.(*ssa.Function)
				for k, b := range y.Bindings {
					if b == ssa.Value(a) && k < len(fn.FreeVars) {
						for _, fr := range *fn.FreeVars[k].Referrers() {
							if st, ok := fr.(*ssa.Store); ok && st.Addr == ssa.Value(fn.FreeVars[k]) {
								n++
								r = maxB(r, bd.bound(st.Val, depth+1))
							}
						}
					}
				}
			default:
				return false
			}
		}
		return true
	}
	if !visit(*a.Referrers()) {
		return &c24B{nil, "local whose address escapes"}
	}
	if n == 0 || r == nil {
		return &c24B{big.NewInt(0), "zero value"}
	}
	if r.max == nil {
		return r
	}
	return &c24B{r.max, "local (" + r.kind + ")"}
}

func (bd *c24Bounds) freeVarBound(fv *ssa.FreeVar, depth int) *c24B {
	fn := fv.Parent()
	idx := -1
	for k, f := range fn.FreeVars {
		if f == fv {
			idx = k
		}
	}
	par := fn.Parent()
	if idx < 0 || par == nil {
		return &c24B{nil, "free variable"}
	}
	// stores to the captured variable inside this closure
	var r *c24B
	for _, fr := range *fv.Referrers() {
		if st, ok := fr.(*ssa.Store); ok && st.Addr == ssa.Value(fv) {
			r = maxB(r, bd.bound(st.Val, depth+1))
		}
	}
	found := false
	eachInstr(par, func(i ssa.Instruction) {
		mc, ok := i.(*ssa.MakeClosure)
		if !ok || mc.Fn != ssa.Value(fn) || idx >= len(mc.Bindings) {
			return
		}
		found = true
		b := mc.Bindings[idx]
		if _, isPtr := b.Type().Underlying().(*types.Pointer); isPtr {
			switch a := b.(type) {
			case *ssa.Alloc:
				r = maxB(r, bd.allocBound(a, depth+1))
			case *ssa.FreeVar:
				r = maxB(r, bd.freeVarBound(a, depth+1))
			default:
				r = maxB(r, &c24B{nil, "captured address"})
			}
		} else {
			r = maxB(r, bd.bound(b, depth+1))
		}
	})
	if !found || r == nil {
		return &c24B{nil, "free variable " + fv.Name()}
	}
	if r.max == nil {
		return r
	}
	return &c24B{r.max, "captured " + fv.Name() + " (" + r.kind + ")"}
}

var _ = sort.Strings
var _ = strings.TrimSpace
