package main

import (
	"strings"

	"golang.org/x/tools/go/ssa"
)

// C36 (round 3): per-item aggregates.
//
// Some samples are not a field of the item but an aggregate computed from one
// of its collections: paths_readers{name, state, readerType} = number of
// readers of that type of THAT path, counted into a map. The sample is faithful
// only if, when it is read, the accumulator holds contributions of the labelled
// item alone:
//
//   C36.faithful.aggregate_scope
//     (a) every insertion into the accumulator takes its key from the labelled
//         item (an element of one of its collections);
//     (b) there is no control-flow path  insertion -> [next item obtained] ->
//         sample read  that avoids every reset of the accumulator (its make(),
//         or clear() of it): counts never survive from one item to the next;
//     (c) the accumulator is only inserted into, read, ranged over, measured,
//         cleared or passed to metrics.sortedKeys - nothing else can fill it.
//
// (b) is a path condition, not a position: the map may be allocated per item,
// or allocated once and cleared at the top or at the bottom of the iteration.

func init() {
	addMutants(
		// the seeded defect: accumulator hoisted out of the per-path loop, never cleared
		Mutant{"C36", "readers-by-type-shared-by-all-paths", "internal/metrics/metrics.go",
			`			out.WriteString("# Paths\n")
			for _, i := range data.Items {
				if pathFilter == "" || pathFilter == i.Name {
					var state string
					if i.Ready {
						state = "ready"
					} else {
						state = "notReady"
					}

					ta := tags(map[string]string{
						"name":  i.Name,
						"state": state,
					})

					metric(&out, "paths", ta, 1)

					if len(i.Readers) != 0 {
						readersByType := make(map[string]int)
`,
			`			out.WriteString("# Paths\n")
			readersByType := make(map[string]int)
			for _, i := range data.Items {
				if pathFilter == "" || pathFilter == i.Name {
					var state string
					if i.Ready {
						state = "ready"
					} else {
						state = "notReady"
					}

					ta := tags(map[string]string{
						"name":  i.Name,
						"state": state,
					})

					metric(&out, "paths", ta, 1)

					if len(i.Readers) != 0 {
`,
			"C36.faithful.aggregate_scope"},
		// same class: the accumulator is filled from the whole listing instead of the labelled path
		Mutant{"C36", "readers-counted-over-first-path", "internal/metrics/metrics.go",
			"						for _, r := range i.Readers {\n							readersByType[string(r.Type)]++",
			"						for _, r := range data.Items[0].Readers {\n							readersByType[string(r.Type)]++",
			"C36.faithful.aggregate_scope"},
	)
}

// c36DeepRootIs follows v through field selections, loads, element accesses and
// single-assignment locals; reports whether it reaches one of the targets.
func c36DeepRootIs(v ssa.Value, targets map[ssa.Value]bool) bool {
	for depth := 0; depth < 12; depth++ {
		r, _ := itemRoot(v)
		if targets[r] {
			return true
		}
		switch x := r.(type) {
		case *ssa.Alloc:
			sv := singleStore(x)
			if sv == nil {
				return false
			}
			v = sv
		case *ssa.IndexAddr:
			v = x.X
		case *ssa.Index:
			v = x.X
		case *ssa.Slice:
			v = x.X
		default:
			return false
		}
	}
	return false
}

func isClearOfR3c36(i ssa.Instruction, m ssa.Value) bool {
	cl, ok := i.(*ssa.Call)
	if !ok {
		return false
	}
	bi, ok := cl.Call.Value.(*ssa.Builtin)
	return ok && bi.Name() == "clear" && len(cl.Call.Args) == 1 && cl.Call.Args[0] == m
}

// c36AggregateScope checks the accumulator read by a map-count sample.
// roots: the item roots of the label values of the sample.
func (c *Ctx) c36AggregateScope(p *Prog, fn *ssa.Function, fname, key string, mc *ssa.Call, lk *ssa.Lookup, roots map[ssa.Value]bool) {
	rule := "C36.faithful.aggregate_scope"
	what := fname + ": " + key + " "
	mm, ok := lk.X.(*ssa.MakeMap)
	if !c.Check(rule, what+"accumulator read for the sample is a map made in this function", ok, p.Pos(mc.Pos()), "got "+desc(lk.X)) {
		return
	}
	items := map[ssa.Value]bool{}
	for r := range roots {
		if a, isA := r.(*ssa.Alloc); isA {
			items[a] = true
		}
	}
	// (c) uses of the accumulator
	var fills []*ssa.MapUpdate
	otherUse := ""
	for _, r := range *mm.Referrers() {
		switch x := r.(type) {
		case *ssa.MapUpdate:
			if x.Map == ssa.Value(mm) {
				fills = append(fills, x)
			} else {
				otherUse = "stored into another map"
			}
		case *ssa.Lookup, *ssa.Range, *ssa.DebugRef:
		case *ssa.Call:
			n := calleeName(&x.Call)
			if !(n == "len" || n == "clear" || strings.HasPrefix(n, "metrics.sortedKeys")) {
				otherUse = "passed to " + n
			}
		default:
			otherUse = r.String()
		}
	}
	c.Check(rule, what+"accumulator is only inserted into, read, cleared, measured or passed to sortedKeys", otherUse == "", p.Pos(mm.Pos()), otherUse)
	if !c.Check(rule, what+"accumulator is filled in this function", len(fills) > 0, p.Pos(mm.Pos()), "") {
		return
	}
	// (a) keys come from the labelled item
	used := map[ssa.Value]bool{}
	okA := len(items) > 0
	detail := ""
	for _, mu := range fills {
		hit := false
		for it := range items {
			if c36DeepRootIs(mu.Key, map[ssa.Value]bool{it: true}) {
				used[it] = true
				hit = true
			}
		}
		if !hit {
			okA = false
			detail = "key " + c24Short(mu.Key) + " inserted at " + p.Pos(mu.Pos()) + " is not taken from the item that supplies the labels"
		}
	}
	c.Check(rule, what+"every key counted into the accumulator is taken from the labelled item", okA, p.Pos(mc.Pos()), detail)
	if !okA {
		return
	}
	// (b) no reset-free path  fill -> next item -> sample read
	isReset := func(i ssa.Instruction) bool {
		return i == ssa.Instruction(mm) || isClearOfR3c36(i, mm)
	}
	isRead := func(i ssa.Instruction) bool { return i == ssa.Instruction(lk) }
	okB := true
	detail = ""
	for it := range used {
		al := it.(*ssa.Alloc)
		isItem := func(i ssa.Instruction) bool { return i == ssa.Instruction(al) }
		w2 := reachAvoiding(after(al), isRead, isReset)
		if w2 == nil {
			continue
		}
		for _, mu := range fills {
			if w1 := reachAvoiding(after(mu), isItem, isReset); w1 != nil {
				okB = false
				detail = "counts inserted at " + p.Pos(mu.Pos()) + " are still in the map when the next item is obtained (" + w1.String(p) + ") and when its sample is read (" + w2.String(p) + "): the map is neither re-made nor cleared in between"
			}
		}
	}
	c.Check(rule, what+"accumulator is re-made or cleared between the insertions for one item and the sample of the next", okB, p.Pos(mm.Pos()), detail)
}
