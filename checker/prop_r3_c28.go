package main

import (
	"fmt"
	"go/token"
	"go/types"
	"os"
	"strings"

	"golang.org/x/tools/go/ssa"
)

// C28.P9 - a slice / index bound computed from file content is range-checked.
//
// The playback code assembles sizes from bytes it read from a segment file
// (box sizes: buf[0]<<24 | buf[1]<<16 | ..., binary.BigEndian.UintNN, numeric
// fields of go-mp4 / mediacommon boxes). Whoever writes the file - or whatever
// garbage sits in the recording directory - chooses these numbers freely.
// Using such a number (or arithmetic on it) as the bound of a slice expression
// or as an index panics ("slice bounds out of range" / "index out of range")
// for some content unless the code compares it first; inside the bare
// goroutines of parseSegments that terminates the server, in a handler it is
// turned into os.Exit by handlerExitOnPanic.
//
// Rule, for every function in the reachable set of C28: for every slice
// expression x[lo:hi:max] and every index x[i] on a slice, array or string whose
// bound b is FILE-DERIVED (data flow: a byte loaded from a []byte / [N]byte
// buffer, a binary.ByteOrder.UintNN result, an integer field of a go-mp4 /
// mediacommon box, combined by + - * | ^ << >> and conversions, through phis;
// a mask `& const`, `% const` and a call end the flow: they bound or replace
// the value), one of the following holds:
//
//   - by construction: x was allocated by make with a length that is an unsigned
//     sum containing every term of the unsigned sum b (make([]byte, a+b)[a:]),
//   - guarded: every path from the function entry to the expression passes a
//     branch whose condition is a comparison (< <= > >= == !=, either outcome)
//     having as an operand, or as a +/- term of an operand: b itself, a
//     file-derived term of b, len(x)/cap(x), or a file-derived term of the
//     length x was allocated with.
//
// The second clause is deliberately only the NECESSARY part of a bounds check
// (some test relating the bound or the allocation to something): which
// constant it is compared with, and wrap-around of the 32-bit sums, are value
// arithmetic that is not decided here. What it excludes is the defect class
// "a number taken from the file selects a position in a buffer and nobody
// looked at it". A guard may sit in an extracted helper (the walker enters new
// helpers), be written with either polarity / operand order, or test the
// allocation instead of the bound. A bound that is passed in as a parameter or
// comes out of a call (min(...), a validated size returned by a helper) is not
// file-derived for this rule and is not reported.

var c28BoxPkgs = []string{"github.com/abema/go-mp4", "github.com/bluenviron/mediacommon"}

type c28Taint struct {
	memo map[ssa.Value]int // 0 unknown, 1 in progress, 2 no, 3 yes
	nSrc int
	srcs map[string]bool
}

func newC28Taint() *c28Taint { return &c28Taint{memo: map[ssa.Value]int{}, srcs: map[string]bool{}} }

func c28IsByteSeq(t types.Type) bool {
	switch u := t.Underlying().(type) {
	case *types.Slice:
		b, ok := u.Elem().Underlying().(*types.Basic)
		return ok && b.Kind() == types.Uint8
	case *types.Array:
		b, ok := u.Elem().Underlying().(*types.Basic)
		return ok && b.Kind() == types.Uint8
	case *types.Pointer:
		if a, ok := u.Elem().Underlying().(*types.Array); ok {
			b, ok := a.Elem().Underlying().(*types.Basic)
			return ok && b.Kind() == types.Uint8
		}
	}
	return false
}

func c28IsInt(t types.Type) bool {
	b, ok := t.Underlying().(*types.Basic)
	return ok && b.Info()&types.IsInteger != 0
}

func c28BoxStruct(t types.Type) bool {
	if p, ok := t.Underlying().(*types.Pointer); ok {
		t = p.Elem()
	}
	n := namedOf(t)
	if n == nil || n.Obj().Pkg() == nil {
		return false
	}
	for _, pre := range c28BoxPkgs {
		if strings.HasPrefix(n.Obj().Pkg().Path(), pre) {
			return true
		}
	}
	return false
}

// fileDerived: the integer value is computed from file content.
func (t *c28Taint) fileDerived(v ssa.Value) bool {
	v = stripConv(v)
	if v == nil || !c28IsInt(v.Type()) {
		return false
	}
	switch t.memo[v] {
	case 1, 2:
		return false
	case 3:
		return true
	}
	t.memo[v] = 1
	res := false
	switch x := v.(type) {
	case *ssa.UnOp:
		if x.Op == token.MUL {
			switch a := x.X.(type) {
			case *ssa.IndexAddr:
				if c28IsByteSeq(a.X.Type()) {
					res = true
					t.srcs["byte of "+trunc(desc(a.X), 40)] = true
				}
			case *ssa.FieldAddr:
				if c28BoxStruct(a.X.Type()) {
					res = true
					t.srcs["box field "+fieldNameOf(a)] = true
				}
			}
		} else if x.Op == token.SUB || x.Op == token.XOR {
			res = t.fileDerived(x.X)
		}
	case *ssa.Index:
		if c28IsByteSeq(x.X.Type()) {
			res = true
		}
	case *ssa.Field:
		if c28BoxStruct(x.X.Type()) {
			res = true
		}
	case *ssa.Call:
		n := calleeName(&x.Call)
		if strings.Contains(n, "encoding/binary.") && strings.Contains(n, ").Uint") {
			res = true
			t.srcs[n] = true
		}
	case *ssa.BinOp:
		switch x.Op {
		case token.ADD, token.SUB, token.MUL, token.OR, token.XOR, token.SHL:
			res = t.fileDerived(x.X) || t.fileDerived(x.Y)
		case token.SHR, token.QUO:
			res = t.fileDerived(x.X)
		case token.AND, token.REM, token.AND_NOT:
			// a constant mask / modulus bounds the value; otherwise keep the flow
			if _, isC := stripConv(x.Y).(*ssa.Const); !isC {
				if _, isC2 := stripConv(x.X).(*ssa.Const); !isC2 {
					res = t.fileDerived(x.X) || (x.Op == token.AND && t.fileDerived(x.Y))
				}
			}
		}
	case *ssa.Phi:
		for _, e := range x.Edges {
			if t.fileDerived(e) {
				res = true
			}
		}
	}
	if res {
		t.memo[v] = 3
		t.nSrc++
	} else {
		t.memo[v] = 2
	}
	return res
}

// c28Terms: the +/- terms of an integer expression (conversions transparent).
func c28Terms(v ssa.Value, onlyAdd bool) []ssa.Value {
	v = stripConv(v)
	if b, ok := v.(*ssa.BinOp); ok && (b.Op == token.ADD || (!onlyAdd && b.Op == token.SUB)) {
		return append(c28Terms(b.X, onlyAdd), c28Terms(b.Y, onlyAdd)...)
	}
	return []ssa.Value{v}
}

// c28AllocLens: the length expressions x was allocated with (x a MakeSlice, a
// phi / re-slice / local variable holding MakeSlices).
func c28AllocLens(x ssa.Value, depth int) []ssa.Value {
	if depth > 5 {
		return nil
	}
	switch v := stripConv(x).(type) {
	case *ssa.MakeSlice:
		return []ssa.Value{v.Len}
	case *ssa.Slice:
		if v.Low == nil && v.High == nil {
			return c28AllocLens(v.X, depth+1)
		}
	case *ssa.Phi:
		var out []ssa.Value
		for _, e := range v.Edges {
			out = append(out, c28AllocLens(e, depth+1)...)
		}
		return out
	case *ssa.UnOp:
		if v.Op == token.MUL {
			if a, ok := v.X.(*ssa.Alloc); ok {
				var out []ssa.Value
				for _, r := range *a.Referrers() {
					if st, ok := r.(*ssa.Store); ok && st.Addr == ssa.Value(a) {
						out = append(out, c28AllocLens(st.Val, depth+1)...)
					}
				}
				return out
			}
		}
	}
	return nil
}

func c28IsLenOf(v ssa.Value, xd string) bool {
	cl, ok := stripConv(v).(*ssa.Call)
	if !ok {
		return false
	}
	b, ok := cl.Call.Value.(*ssa.Builtin)
	if !ok || (b.Name() != "len" && b.Name() != "cap") || len(cl.Call.Args) != 1 {
		return false
	}
	return desc(cl.Call.Args[0]) == xd
}

// c28BoundSites enumerates the slice / index expressions of f: operand, bound,
// role.
type c28Bound struct {
	at   ssa.Instruction
	x    ssa.Value
	b    ssa.Value
	role string
}

func c28BoundsOf(f *ssa.Function) []c28Bound {
	var out []c28Bound
	eachInstr(f, func(i ssa.Instruction) {
		switch x := i.(type) {
		case *ssa.Slice:
			for _, br := range []struct {
				v ssa.Value
				r string
			}{{x.Low, "low bound"}, {x.High, "high bound"}, {x.Max, "max bound"}} {
				if br.v != nil {
					out = append(out, c28Bound{i, x.X, br.v, br.r})
				}
			}
		case *ssa.IndexAddr:
			out = append(out, c28Bound{i, x.X, x.Index, "index"})
		case *ssa.Index:
			out = append(out, c28Bound{i, x.X, x.Index, "index"})
		}
	})
	return out
}

// c28ConstCap: x is an array, a pointer to an array, or a slice of one - its
// capacity is a compile-time constant.
func c28ConstCap(x ssa.Value) bool {
	for d := 0; d < 6; d++ {
		t := x.Type().Underlying()
		if pt, ok := t.(*types.Pointer); ok {
			t = pt.Elem().Underlying()
		}
		if _, ok := t.(*types.Array); ok {
			return true
		}
		sl, ok := x.(*ssa.Slice)
		if !ok {
			return false
		}
		x = sl.X
	}
	return false
}

func c28FileBounds(c *Ctx, p *Prog, set []*ssa.Function) (nConstCap int) {
	debug := os.Getenv("C28_DEBUG_SLICES") != ""
	tt := newC28Taint()
	nSites, nNonConst, nTainted := 0, 0, 0
	ord := map[string]int{}
	for _, f := range set {
		ff := f
		var conds []*ssa.If
		condsDone := false
		for _, bs := range c28BoundsOf(f) {
			nSites++
			sb := stripConv(bs.b)
			if _, isC := sb.(*ssa.Const); isC {
				continue
			}
			nNonConst++
			if !tt.fileDerived(sb) {
				continue
			}
			nTainted++
			xd := desc(bs.x)
			bd := desc(sb)
			k := topName(ff) + "|" + bs.role
			ord[k]++
			key := fmt.Sprintf("%s: file-derived %s #%d of a slice/index expression is range-checked before use", fnName(ff), bs.role, ord[k])

			// accepted terms
			accept := map[string]bool{bd: true}
			for _, t := range c28Terms(sb, false) {
				if tt.fileDerived(t) {
					accept[desc(t)] = true
				}
			}
			lens := c28AllocLens(bs.x, 0)
			byConstruction := false
			for _, l := range lens {
				lt := c28Terms(l, true)
				for _, t := range lt {
					if tt.fileDerived(t) {
						accept[desc(t)] = true
					}
				}
				// every + term of the bound is a + term of the (unsigned) allocation length
				if bt, ok := stripConv(l).Type().Underlying().(*types.Basic); ok && bt.Info()&types.IsUnsigned != 0 && len(lens) == 1 {
					have := map[string]int{}
					for _, t := range lt {
						have[desc(t)]++
					}
					all := true
					for _, t := range c28Terms(sb, true) {
						d := desc(t)
						if have[d] == 0 {
							all = false
							break
						}
						have[d]--
					}
					if all {
						byConstruction = true
					}
				}
			}
			if byConstruction {
				c.Check("C28.P9."+topName(ff), key, true, p.Pos(posOf(bs.at, ff)), "within the allocation by construction: every term of the bound is a term of the make length")
				continue
			}
			// qualifying conditions of f
			if !condsDone {
				condsDone = true
				eachInstr(ff, func(i ssa.Instruction) {
					if ifi, ok := i.(*ssa.If); ok {
						conds = append(conds, ifi)
					}
				})
			}
			atoms := map[string]bool{}
			upperPos, upperNeg := map[string]bool{}, map[string]bool{}
			for _, ifi := range conds {
				cmp, ok := ifi.Cond.(*ssa.BinOp)
				if !ok {
					continue
				}
				switch cmp.Op {
				case token.LSS, token.GTR, token.LEQ, token.GEQ, token.EQL, token.NEQ:
				default:
					continue
				}
				q := false
				for _, side := range []ssa.Value{cmp.X, cmp.Y} {
					for _, t := range c28Terms(side, false) {
						if accept[desc(t)] || c28IsLenOf(t, xd) {
							q = true
						}
					}
					if accept[desc(stripConv(side))] {
						q = true
					}
				}
				if q {
					atoms[litOf(ifi.Cond, true).Atom] = true
				}
				// direction (used for operands of constant capacity only): litOf writes
				// every inequality as (L < R); the bound is limited from above by the
				// positive literal when it is (a + term of) L, by the negative one when
				// it is (a + term of) R, and by the positive literal of an equality
				inSide := func(side ssa.Value) bool {
					if accept[desc(stripConv(side))] {
						return true
					}
					for _, t := range c28Terms(side, true) {
						if accept[desc(t)] {
							return true
						}
					}
					return false
				}
				atom := litOf(ifi.Cond, true).Atom
				lside, rside := cmp.X, cmp.Y
				if cmp.Op == token.GTR || cmp.Op == token.LEQ {
					lside, rside = cmp.Y, cmp.X
				}
				if cmp.Op == token.EQL || cmp.Op == token.NEQ || strings.Contains(atom, " == ") {
					if inSide(cmp.X) || inSide(cmp.Y) {
						upperPos[atom] = true
					}
				} else {
					if inSide(lside) {
						upperPos[atom] = true
					}
					if inSide(rside) {
						upperNeg[atom] = true
					}
				}
			}
			at := bs.at
			if c28ConstCap(bs.x) {
				nConstCap++
				// x is (a slice of) a fixed-size array: its capacity cannot be tested
				// "instead of the bound", and a lower-bound test (size < 8) says nothing
				// about the upper end - some literal on every path must limit the bound
				// from above
				w := mustPassPred(ff, func(i ssa.Instruction) bool { return i == at }, func(l Lit) bool {
					return l.Pos && upperPos[l.Atom] || !l.Pos && upperNeg[l.Atom]
				})
				detail := "operand of constant capacity: every path passes a comparison that limits the bound from above"
				if w != nil {
					detail = "bound " + trunc(bd, 90) + " selects a position inside the fixed-size array " + trunc(xd, 40) + " and no comparison on the way limits it from above (a lower-bound test does not): a corrupted / foreign file makes this panic (slice bounds out of range), which ends the process from the parseSegments goroutines and through handlerExitOnPanic; path: " + w.String(p)
				}
				c.Check("C28.P9."+topName(ff), key, w == nil, p.Pos(posOf(bs.at, ff)), detail)
				continue
			}
			w := mustPassPred(ff, func(i ssa.Instruction) bool { return i == at }, func(l Lit) bool { return atoms[l.Atom] })
			detail := fmt.Sprintf("guarded by a comparison on the bound / its terms / the operand's length (%d candidate tests)", len(atoms))
			pos := p.Pos(posOf(bs.at, ff))
			if w != nil {
				detail = "bound " + trunc(bd, 90) + ": a position inside " + trunc(xd, 40) + " is selected by a number read from the file and no comparison of it (or of the buffer's length) lies on the way: a corrupted / foreign file makes this panic (slice bounds / index out of range), which ends the process from the parseSegments goroutines and through handlerExitOnPanic; path: " + w.String(p)
			}
			c.Check("C28.P9."+topName(ff), key, w == nil, pos, detail)
		}
	}
	if debug {
		fmt.Printf("P9 sites=%d nonconst=%d tainted=%d sources=%v\n", nSites, nNonConst, nTainted, sortedSet(tt.srcs))
	}
	c.Count("P9_bound_sites", nSites)
	c.Count("P9_nonconstant_bounds", nNonConst)
	c.Count("P9_file_derived_bounds", nTainted)
	// the rule has no instance on the pinned tree (no file-derived bound is used as
	// a position today); what keeps it from being vacuous is that the sites are
	// enumerated and that the flow recognises the repository's size-assembly idiom
	c.Floor("C28.P9.bound_sites", nSites, 60)
	c.Floor("C28.P9.nonconstant_bounds", nNonConst, 15)
	c28TaintSelfCheck(c, p, tt)
	return nConstCap
}

// c28TaintSelfCheck: the two box sizes segmentFMP4ReadHeader assembles from the
// 8-byte header (the values whose misuse the rule is about) are recognised as
// file-derived - otherwise the rule is blind and must not pass silently.
func c28TaintSelfCheck(c *Ctx, p *Prog, tt *c28Taint) {
	rh := c.fn(p, "internal/playback", "", "segmentFMP4ReadHeader")
	if rh == nil {
		return
	}
	n := 0
	eachInstr(rh, func(i ssa.Instruction) {
		ms, ok := i.(*ssa.MakeSlice)
		if ok && tt.fileDerived(ms.Len) {
			n++
		}
		if cc := callCommon(i); cc != nil {
			for _, a := range cc.Args {
				if c28IsInt(a.Type()) && tt.fileDerived(a) {
					n++
				}
			}
		}
	})
	// make(ftypSize+moovSize), Seek(ftypSize), Unmarshal(.., moovSize-8, ..)
	c.Floor("C28.P9.sizes_recognised", n, 2)
}
