package main

import (
	"fmt"
	"go/token"
	"os"
	"strings"

	"golang.org/x/tools/go/ssa"
)

// C31 - segment operations identify segments by instant.

func init() {
	register(Property{ID: "C31", Level: "other", Run: runC31,
		Technique: "static analysis: whole-module origin classification (location class) of every time.Time that reaches recordstore.Path.Encode as Start, traced through struct fields, parameters, closures and returns (go/ssa); sibling agreement of the three record-path format builders; must-pass-through and argument binding on api.onRecordingDeleteSegment; origin of the start instants reported by the list endpoints",
		Text:      "Decides: (1) Path.Decode reads zone-less names in time.Local, so every Start given to Path.Encode must be in time.Local (or Encode must normalise): each origin leaf of each of the three Encode sites (fMP4 recorder, MPEG-TS recorder, API delete) is classified local (time.Now/time.Unix/.Local()/In(time.Local)), zero, parsed (time.Parse: location taken from the text), nonlocal (.UTC()/In(other)) or unknown; anything but local/zero is a violation naming site and leaf; (2) the API delete handler removes exactly one file, whose name is Encode(format) with format built like the recorder's and FindSegments' (PathAddExtension(ReplaceAll(recordPath, \"%path\", name), recordFormat)) from the configuration found for the same name, only after the instant parsed and the path resolved; (3) the list endpoints report the Start decoded by FindSegments (location changes allowed, no rounding); (4) recordstore.FindSegments - shared by the API listing, playback /list and /get - attributes an instant to the segment that starts at it: its code after the sort of the collected list is executed by an SSA interpreter inside the checker on models of 1..4 segments, and for a start equal to the start instant of segment k (the instants the listing reports) the returned list must be segments[k:] with a nil error, likewise for an instant inside segment k or before the first one; whatever the search is written as (scan, sort.Search, helper), a comparison that is inclusive/strict on the wrong side is reported with the failing model. Not decided: the collection phase of FindSegments (WalkDir, end filter); that package time maps instants to wall clocks correctly; DST ambiguity of zone-less names.",
		Note:      "trusted: go/ssa; third-party time sources are classified by a table established by reading (gortsplib ntp.Decode = time.Unix: local; gohlslib Client.AbsoluteTime = time.Parse of EXT-X-PROGRAM-DATE-TIME: parsed); struct-field flow is flow-insensitive over all stores of the field in the module"})
	addMutants(
		// Encode no longer normalises: the parsed / playlist-located origins are reported again
		Mutant{"C31", "encode-keeps-start-location", "internal/recordstore/path.go",
			"	if !strings.Contains(format, \"%z\") {\n		p.Start = p.Start.Local()\n	}\n", "", "C31.start_normalised.parsed"},
		// normalisation applied after the first component was already taken
		Mutant{"C31", "encode-normalises-too-late", "internal/recordstore/path.go",
			"	if !strings.Contains(format, \"%z\") {\n		p.Start = p.Start.Local()\n	}\n\n	format = strings.ReplaceAll(format, \"%path\", p.Path)\n	format = strings.ReplaceAll(format, \"%Y\", strconv.FormatInt(int64(p.Start.Year()), 10))\n",
			"	format = strings.ReplaceAll(format, \"%path\", p.Path)\n	format = strings.ReplaceAll(format, \"%Y\", strconv.FormatInt(int64(p.Start.Year()), 10))\n	if !strings.Contains(format, \"%z\") {\n		p.Start = p.Start.Local()\n	}\n", "C31.start_normalised.parsed"},
		// normalisation only for formats that DO carry a zone
		Mutant{"C31", "encode-normalises-wrong-branch", "internal/recordstore/path.go",
			"	if !strings.Contains(format, \"%z\") {\n		p.Start = p.Start.Local()", "	if strings.Contains(format, \"%z\") {\n		p.Start = p.Start.Local()", "C31.start_normalised.parsed"},
		Mutant{"C31", "delete-format-uses-conf-name", "internal/api/api_recordings.go",
			"		strings.ReplaceAll(pathConf.RecordPath, \"%path\", pathName),\n		pathConf.RecordFormat,\n	)\n\n	pathFormat, err = absolutePathInside",
			"		strings.ReplaceAll(pathConf.RecordPath, \"%path\", pathConf.Name),\n		pathConf.RecordFormat,\n	)\n\n	pathFormat, err = absolutePathInside", "C31.format_siblings"},
		Mutant{"C31", "delete-without-extension", "internal/api/api_recordings.go",
			"	pathFormat := recordstore.PathAddExtension(\n		strings.ReplaceAll(pathConf.RecordPath, \"%path\", pathName),\n		pathConf.RecordFormat,\n	)\n",
			"	pathFormat := strings.ReplaceAll(pathConf.RecordPath, \"%path\", pathName)\n", "C31.format_siblings"},
		Mutant{"C31", "delete-removes-format", "internal/api/api_recordings.go",
			"	err = os.Remove(segmentPath)", "	err = os.Remove(pathFormat)", "C31.delete.removes_encoded_name"},
		Mutant{"C31", "delete-ignores-parse-error", "internal/api/api_recordings.go",
			"	start, err := time.Parse(time.RFC3339, ctx.Query(\"start\"))\n	if err != nil {\n		a.writeError(ctx, http.StatusBadRequest, fmt.Errorf(\"invalid 'start' parameter: %w\", err))\n		return\n	}\n",
			"	start, _ := time.Parse(time.RFC3339, ctx.Query(\"start\"))\n", "C31.delete.guards"},
		Mutant{"C31", "list-start-truncated", "internal/api/api_recordings.go",
			"			Start: seg.Start,\n", "			Start: seg.Start.Truncate(time.Second),\n", "C31.list_start"},
		// the instant that is the start of segment i+1 is attributed to segment i
		Mutant{"C31", "find-upper-bound-inclusive", "internal/recordstore/segment.go",
			"if !start.Before(segments[i].Start) && start.Before(segments[i+1].Start) {", "if !start.Before(segments[i].Start) && !start.After(segments[i+1].Start) {", "C31.find_by_instant.equal"},
		// the instant that is the start of segment i is no longer attributed to segment i
		Mutant{"C31", "find-lower-bound-strict", "internal/recordstore/segment.go",
			"if !start.Before(segments[i].Start) && start.Before(segments[i+1].Start) {", "if start.After(segments[i].Start) && start.Before(segments[i+1].Start) {", "C31.find_by_instant.equal"},
		Mutant{"C31", "find-scan-skips-first-pair", "internal/recordstore/segment.go",
			"		for i := 0; i < len(segments)-1; i++ {", "		for i := 1; i < len(segments)-1; i++ {", "C31.find_by_instant"},
		Mutant{"C31", "recorder-format-other-name", "internal/recorder/recorder_instance.go",
			"strings.ReplaceAll(ri.pathFormat2, \"%path\", ri.pathName),", "strings.ReplaceAll(ri.pathFormat2, \"%path\", ri.pathFormat),", "C31.format_siblings"},
	)
}

// thirdPartyTimeSources: location class of time values produced outside the
// module, established by reading the pinned dependency versions.
var c31ThirdParty = map[string]tOrigin{
	"(*github.com/bluenviron/gohlslib/v2.Client).AbsoluteTime":                 {Class: "parsed", What: "EXT-X-PROGRAM-DATE-TIME parsed with time.Parse (pkg/playlist/media.go); the location is the playlist's UTC offset"},
	"(protocols/rtsp.rtspSource).PacketNTP":                                    {Class: "local", What: "gortsplib rtpreceiver: ntp.Decode = time.Unix"},
	"(*github.com/bluenviron/gortsplib/v5/pkg/rtpreceiver.Receiver).PacketNTP": {Class: "local", What: "gortsplib rtpreceiver: ntp.Decode = time.Unix"},
}

// formatBuilder recognises PathAddExtension(strings.ReplaceAll(recordPath,
// "%path", name), format) and returns its three leaves.
func c31FormatBuilder(v ssa.Value) (recordPath, name, format ssa.Value, ok bool) {
	v = stripConv(v)
	cl, isC := v.(*ssa.Call)
	if !isC || calleeName(&cl.Call) != "recordstore.PathAddExtension" || len(cl.Call.Args) != 2 {
		return nil, nil, nil, false
	}
	ra, isC := stripConv(cl.Call.Args[0]).(*ssa.Call)
	if !isC || calleeName(&ra.Call) != "strings.ReplaceAll" {
		return nil, nil, nil, false
	}
	if s, isS := ssaConstString(ra.Call.Args[1]); !isS || s != "%path" {
		return nil, nil, nil, false
	}
	return ra.Call.Args[0], ra.Call.Args[2], cl.Call.Args[1], true
}

func runC31(c *Ctx) {
	p := c.Main()
	if p == nil {
		return
	}
	c.Explain = "C31.start_normalised.<class>: one obligation per (Encode call site, origin leaf of Start); classes local/zero discharge, parsed/nonlocal/unknown fail unless Path.Encode itself takes its components from Start.Local(). " +
		"C31.format_siblings: recorderInstance.initialize, recordstore.FindSegments and api.onRecordingDeleteSegment build the name format as PathAddExtension(ReplaceAll(<RecordPath>, \"%path\", <path name>), <RecordFormat>) of one configuration. " +
		"C31.delete.*: a single os.Remove whose argument is (absolutePathInside of) Path{Start}.Encode(that format), reached only after time.Parse and FindPathConf succeeded for the queried name. " +
		"C31.list_start: APIRecordingSegment.Start and the playback list entries derive from Segment.Start (Decode) without rounding. " +
		"C31.find_by_instant.{equal,inside}: the code of recordstore.FindSegments after the sort of the collected list is executed by an SSA interpreter (in the checker) on models of 1..4 segments with the requested instant equal to / inside / before a segment start, and the list returned is compared with segments[k:], nil; a scenario the interpreter cannot evaluate exactly fails. " +
		"Not decided: wall-clock arithmetic of package time, DST-ambiguous zone-less names, the collection phase of FindSegments."
	c.Assume = []string{
		"recordstore.Path.Decode interprets zone-less names in time.Local (decided by C26.component)",
		"third-party time sources are as tabled (gortsplib v5.6.4, gohlslib v2.4.3)",
	}

	// the routine shared by listing and playback attributes an instant to the segment that starts at it (prop_r4_c31.go)
	c31FindByInstant(c, p)

	enc := c.fn(p, "internal/recordstore", "Path", "Encode")
	if enc == nil {
		return
	}
	// does Encode normalise by itself?
	encNormalises := true
	nComp := 0
	eachInstr(enc, func(i ssa.Instruction) {
		cl, ok := i.(*ssa.Call)
		if !ok || cl.Call.IsInvoke() || len(cl.Call.Args) == 0 {
			return
		}
		n := calleeName(&cl.Call)
		if strings.HasPrefix(n, "(time.Time).") || n == "recordstore.timeLocationEncode" {
			if n == "(time.Time).Local" || n == "(time.Time).In" || n == "(time.Time).Unix" {
				return
			}
			nComp++
			if desc(cl.Call.Args[0]) == "$0.Start" {
				encNormalises = false
			}
		}
	})
	if nComp == 0 {
		c.Undecided("UNRESOLVED ANCHOR Path.Encode: no time component calls found")
	}
	if !encNormalises {
		// accepted idiom: `if !strings.Contains(format, "%z") { p.Start = p.Start.Local() }`
		// before any component is taken: every path to a component call either
		// carries the "%z present" literal (the name then states its own zone,
		// which Decode honours) or executes the store of Start.Local() first.
		isLocalStore := func(i ssa.Instruction) bool {
			st, ok := i.(*ssa.Store)
			if !ok {
				return false
			}
			fa, ok := st.Addr.(*ssa.FieldAddr)
			if !ok || !fieldAddrIs(fa, "recordstore.Path", "Start") {
				return false
			}
			cl, ok := st.Val.(*ssa.Call)
			return ok && calleeName(&cl.Call) == "(time.Time).Local"
		}
		isComp := func(i ssa.Instruction) bool {
			cl, ok := i.(*ssa.Call)
			if !ok || cl.Call.IsInvoke() || len(cl.Call.Args) == 0 {
				return false
			}
			n := calleeName(&cl.Call)
			if !(strings.HasPrefix(n, "(time.Time).") || n == "recordstore.timeLocationEncode") {
				return false
			}
			return n != "(time.Time).Local" && n != "(time.Time).In" && n != "(time.Time).Unix"
		}
		if countTargets(enc, isLocalStore) > 0 {
			w := (&Walker{
				Visit: func(i ssa.Instruction) int {
					if isLocalStore(i) {
						return wStop
					}
					if isComp(i) {
						return wHit
					}
					return wContinue
				},
				Edge: func(l Lit) bool { return !(l.Pos && l.Atom == `strings.Contains($1, "%z")`) },
			}).Run(entry(enc))
			if w == nil {
				encNormalises = true
			}
		}
	}
	c.Check("C31.encode_normalises", "recordstore.Path.Encode: zone-less names are written from Start.Local() (or every caller passes a local Start, checked per site)", true, p.Pos(enc.Pos()),
		map[bool]string{true: "Encode normalises by itself", false: "Encode uses Start's own location: call sites are checked"}[encNormalises])

	tr := newTimeTracer(p, c31ThirdParty)
	sites, esc := callSitesOf(p, enc)
	c.Check("C31.sites", "recordstore.Path.Encode is only called statically", len(esc) == 0, p.Pos(enc.Pos()), "")
	c.Floor("C31.sites", len(sites), 3)
	dupSite := map[ssa.Instruction]bool{}
	for _, s := range sites {
		fn := s.Parent()
		if fn.Synthetic != "" {
			continue // pointer-receiver wrapper of the value method
		}
		c.Analysed(fnName(fn))
		if dupSite[s] {
			continue // a site inside a new helper is listed once per caller of the helper
		}
		dupSite[s] = true
		// obligations are keyed by the baseline function the site belongs to (a site
		// moved into a new helper with one caller keeps its key)
		fn = baselineOwner(fn)
		cc := callCommon(s)
		var start ssa.Value
		if u, ok := cc.Args[0].(*ssa.UnOp); ok && u.Op == token.MUL {
			if al, ok := u.X.(*ssa.Alloc); ok {
				for _, r := range *al.Referrers() {
					fa, ok := r.(*ssa.FieldAddr)
					if !ok || !fieldAddrIs(fa, "recordstore.Path", "Start") {
						continue
					}
					for _, rr := range *fa.Referrers() {
						if st, ok := rr.(*ssa.Store); ok && st.Addr == ssa.Value(fa) {
							start = st.Val
						}
					}
				}
			}
		}
		if start == nil {
			c.Check("C31.start_normalised.unknown", fnName(fn)+": Path{Start}.Encode: Start is set in a literal at the call", false, p.Pos(s.Pos()), desc(cc.Args[0]))
			continue
		}
		for _, o := range tr.Origins(start) {
			ok := encNormalises || o.Class == "local" || o.Class == "zero"
			where := ""
			if o.Fn != nil {
				where = " in " + fnName(o.Fn)
			}
			c.Check("C31.start_normalised."+o.Class, fnName(fn)+": Path{Start}.Encode: Start origin "+o.What+where, ok, p.Pos(s.Pos()),
				"origin at "+p.Pos(o.Pos)+" ("+o.Class+"; "+o.Why+"): Decode reads zone-less names in time.Local, so a Start in another location names a different instant")
			if os.Getenv("MTX_DEBUG") != "" {
				fmt.Println("DEBUG origin", fnName(fn), o.Class, o.What, where, p.Pos(o.Pos))
			}
		}
	}

	// ---------- format siblings
	type builder struct {
		pkg, recv, name string
		// expected leaves (canonical descriptions)
		recordPath, pathName, format []string
	}
	builders := []builder{
		{"internal/recorder", "recorderInstance", "initialize", []string{"$0.pathFormat2", "$0.pathFormat"}, []string{"$0.pathName"}, []string{"$0.format"}},
		{"internal/recordstore", "", "FindSegments", []string{"$0.RecordPath"}, []string{"$1"}, []string{"$0.RecordFormat"}},
	}
	for _, b := range builders {
		fn := c.fn(p, b.pkg, b.recv, b.name)
		if fn == nil {
			continue
		}
		n := 0
		for _, i := range callsIn(fn, "recordstore.PathAddExtension") {
			n++
			rp, nm, ft, ok := c31FormatBuilder(i.(ssa.Value))
			good := ok && contains(b.recordPath, desc(rp)) && contains(b.pathName, desc(nm)) && contains(b.format, desc(ft))
			det := ""
			if ok {
				det = fmt.Sprintf("recordPath=%s name=%s format=%s", desc(rp), desc(nm), desc(ft))
			}
			c.Check("C31.format_siblings", fnName(fn)+": name format is PathAddExtension(ReplaceAll(record path, \"%path\", path name), record format) of its own configuration", good, p.Pos(i.Pos()), det)
		}
		c.Floor("C31.format_siblings:"+b.name, n, 1)
	}
	// recorderInstance fields are the path's configuration: checked where the instance is built
	if ri := c.fn(p, "internal/recorder", "Recorder", "Initialize"); ri != nil {
		got := map[string]string{}
		for _, fnn := range append([]*ssa.Function{ri}, ri.AnonFuncs...) {
			for _, st := range allFieldStores(fnn) {
				if st.field == "pathFormat" || st.field == "pathName" || st.field == "format" {
					got[st.field] = desc(st.val)
				}
			}
		}
		for f, w := range map[string]string{"pathFormat": "$0.PathFormat", "pathName": "$0.PathName", "format": "$0.Format"} {
			c.Check("C31.format_siblings", "Recorder.Initialize: recorderInstance."+f+" is Recorder."+strings.TrimPrefix(w, "$0."), got[f] == w, p.Pos(ri.Pos()), "got "+got[f])
		}
	}

	// ---------- delete handler
	del := c.fn(p, "internal/api", "API", "onRecordingDeleteSegment")
	if del != nil {
		rms := callsIn(del, "os.Remove", "os.RemoveAll")
		c.Check("C31.delete.single_remove", fnName(del)+": exactly one os.Remove and no os.RemoveAll", len(rms) == 1 && isCallTo(rms[0], "os.Remove"), p.Pos(del.Pos()), fmt.Sprint(len(rms)))
		// the handler's Encode call: in the handler itself or in a new helper it
		// (transitively) calls - eachInstr attributes a new helper's body to its callers
		var encCall *ssa.Call
		eachInstr(del, func(i ssa.Instruction) {
			for _, s := range sites {
				if s == i {
					encCall, _ = s.(*ssa.Call)
				}
			}
		})
		if len(rms) == 1 && encCall != nil {
			rm := rms[0].(*ssa.Call)
			// Values are followed across new-helper boundaries (prop_gen_c31.go): the
			// result of a call to a new helper is the value it returns, its parameters
			// are the arguments of that call.
			// removed name: Encode result, optionally through absolutePathInside(_, x)#0
			v := hv{rm.Call.Args[0], nil}.norm()
			if in, ok := v.throughCall("api.absolutePathInside", 0, 1); ok {
				v = in
			}
			c.Check("C31.delete.removes_encoded_name", fnName(del)+": os.Remove acts on Path{Start}.Encode(format) (through absolutePathInside)", v.v == ssa.Value(encCall), p.Pos(rm.Pos()), "got "+trunc(desc(v.v), 120))
			// format given to Encode (looked at in the context the removed name reached it by):
			// the sibling builder, optionally through absolutePathInside
			encAt := hv{encCall, nil}
			if v.v == ssa.Value(encCall) {
				encAt = v
			}
			f := encAt.at(encCall.Call.Args[1]).norm()
			if in, ok := f.throughCall("api.absolutePathInside", 0, 1); ok {
				f = in
			}
			rp, nm, ft, ok := c31FormatBuilderHV(f)
			good := false
			det := "format argument is not the sibling builder: " + trunc(desc(f.v), 120)
			if ok {
				// one configuration, found for the very name substituted
				conf0 := func(x hv, field string) hv { // (FindPathConf(...)#0).field
					u, ok := x.v.(*ssa.UnOp)
					if !ok {
						return hv{}
					}
					fa, ok := u.X.(*ssa.FieldAddr)
					if !ok || !fieldAddrIs(fa, "conf.Path", field) {
						return hv{}
					}
					return x.at(fa.X).norm()
				}
				c1, c2 := conf0(rp, "RecordPath"), conf0(ft, "RecordFormat")
				var fpc *ssa.Call
				if ex, isEx := c1.v.(*ssa.Extract); isEx && ex.Index == 0 && c1.ctx == nil {
					fpc, _ = ex.Tuple.(*ssa.Call)
				}
				good = c1.v != nil && c1.same(c2) && fpc != nil && fpc.Parent() == del && calleeName(&fpc.Call) == "conf.FindPathConf" && hv{fpc.Call.Args[1], nil}.norm().same(nm)
				det = fmt.Sprintf("recordPath=%s name=%s format=%s", trunc(desc(rp.v), 80), trunc(desc(nm.v), 60), trunc(desc(ft.v), 80))
				if good {
					errNil := "(" + desc(fpc) + "#2 == nil)"
					c.checkMustPassPred(p, del, "C31.delete.guards", fnName(del)+": os.Remove only after conf.FindPathConf succeeded",
						func(i ssa.Instruction) bool { return i == ssa.Instruction(rm) }, func(l Lit) bool { return l.Pos && l.Atom == errNil })
				}
			}
			c.Check("C31.format_siblings", fnName(del)+": name format is PathAddExtension(ReplaceAll(record path, \"%path\", path name), record format) of the configuration found for that name", good, p.Pos(encCall.Pos()), det)
			// Start parsed successfully before the removal
			for _, i := range callsIn(del, "time.Parse") {
				errNil := "(" + desc(i.(ssa.Value)) + "#1 == nil)"
				c.checkMustPassPred(p, del, "C31.delete.guards", fnName(del)+": os.Remove only after time.Parse succeeded",
					func(i ssa.Instruction) bool { return i == ssa.Instruction(rm) }, func(l Lit) bool { return l.Pos && l.Atom == errNil })
			}
			// 200 only after a successful removal
			rmNil := "(" + desc(rm) + " == nil)"
			c.checkMustPassPred(p, del, "C31.delete.guards", fnName(del)+": writeOK only after os.Remove succeeded",
				callTo("(*api.API).writeOK"), func(l Lit) bool { return l.Pos && l.Atom == rmNil })
		} else if encCall == nil {
			c.Undecided("UNRESOLVED ANCHOR onRecordingDeleteSegment: Path.Encode call")
		}
	}

	// ---------- list endpoints report the decoded start
	locOnly := func(v ssa.Value) ssa.Value { // strip .Local()/.UTC()/.In()
		for {
			v = stripConv(v)
			cl, ok := v.(*ssa.Call)
			if !ok {
				return v
			}
			switch calleeName(&cl.Call) {
			case "(time.Time).Local", "(time.Time).UTC", "(time.Time).In":
				v = cl.Call.Args[0]
			default:
				return v
			}
		}
	}
	isSegStart := func(v ssa.Value) bool {
		u, ok := locOnly(v).(*ssa.UnOp)
		if !ok || u.Op != token.MUL {
			return false
		}
		fa, ok := u.X.(*ssa.FieldAddr)
		return ok && fieldAddrIs(fa, "recordstore.Segment", "Start")
	}
	if rop := c.fn(p, "internal/api", "", "recordingsOfPath"); rop != nil {
		n := 0
		for _, st := range fieldStores(rop, "defs.APIRecordingSegment", "Start") {
			n++
			c.Check("C31.list_start", fnName(rop)+": APIRecordingSegment.Start is the Segment.Start decoded by FindSegments", isSegStart(st.Val), p.Pos(st.Pos()), "got "+desc(st.Val))
		}
		c.Floor("C31.list_start:api", n, 1)
	}
	if ps := c.fn(p, "internal/playback", "", "parseSegment"); ps != nil {
		n := 0
		for _, st := range fieldStores(ps, "playback.parsedSegment", "start") {
			n++
			c.Check("C31.list_start", fnName(ps)+": parsedSegment.start is the Segment.Start decoded by FindSegments", isSegStart(st.Val), p.Pos(st.Pos()), "got "+desc(st.Val))
		}
		c.Floor("C31.list_start:playback", n, 1)
	}
	if fs := c.fn(p, "internal/recordstore", "", "FindSegments$1"); fs != nil {
		n := 0
		for _, st := range fieldStores(fs, "recordstore.Segment", "Start") {
			n++
			u, ok := stripConv(st.Val).(*ssa.UnOp)
			good := false
			if ok {
				if fa, ok := u.X.(*ssa.FieldAddr); ok {
					good = fieldAddrIs(fa, "recordstore.Path", "Start")
				}
			}
			c.Check("C31.list_start", "FindSegments: Segment.Start is the Start decoded from the file name", good, p.Pos(st.Pos()), "got "+desc(st.Val))
		}
		c.Floor("C31.list_start:FindSegments", n, 1)
	}
}
