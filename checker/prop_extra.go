package main

// Rules added after independently seeded breakages were missed (DESIGN.md
// section 10): each is a structural necessary condition of its property.

import (
	"strings"

	"golang.org/x/tools/go/ssa"
)

func init() {
	addMutants(
		Mutant{"C37", "log-without-lock", "internal/logger/logger.go",
			"	l.mutex.Lock()\n	defer l.mutex.Unlock()\n\n	t := l.timeNow()", "	t := l.timeNow()", "C37.serialized"},
		Mutant{"C25", "estimate-before-rebase", "internal/stream/sub_stream_format.go",
			"func (ssf *subStreamFormat) writeUnitInner(u *unit.Unit) error {\n	if ssf.streamFormat.alwaysAvailable {",
			"func (ssf *subStreamFormat) writeUnitInner(u *unit.Unit) error {\n	if ssf.streamFormat.replaceNTP {\n		u.NTP = ssf.streamFormat.ntpEstimator.Estimate(u.PTS)\n	}\n\n	if ssf.streamFormat.alwaysAvailable {", "C25.users.final_pts"},
		Mutant{"C26", "length-table-with-zone", "internal/recordstore/path.go",
			"// Decode decodes a Path.\n", "var encodedTokenLengths = map[string]int{\"%Y\": 4, \"%m\": 2, \"%d\": 2, \"%z\": 5}\n\n// Decode decodes a Path.\n", "C26.length_tables"},
		Mutant{"C32", "setup-option-length-signed-guard", "internal/protocols/moq/controlmessage/setup.go",
			"		if uint64(len(buf)) < uint64(l) {\n			return fmt.Errorf(\"not enough bytes for setup option\")", "		if len(buf) < int(l) {\n			return fmt.Errorf(\"not enough bytes for setup option\")", "C32.slice_guard"},
		Mutant{"C07", "clone-shares-scalar-pointers", "internal/conf/conf.go",
			"		newPtr := reflect.New(rv.Elem().Type())\n", "		if rv.Elem().Kind() == reflect.String {\n			return rv\n		}\n		newPtr := reflect.New(rv.Elem().Type())\n", "C07.clone_independent"},
		Mutant{"C09", "env-replaces-whole-path-entry", "internal/conf/optional_path.go",
			"	if p.Values == nil {\n		p.Values = newOptionalPathValues()\n	}\n	return env.Load(prefix, p.Values)", "	p.Values = newOptionalPathValues()\n	return env.Load(prefix, p.Values)", "C09.env_preserves_file_values"},
		Mutant{"C10", "nonce-guard-too-small", "internal/conf/decrypt/decrypt.go",
			"	if len(enc) < 24 {", "	if len(enc) < 16 {", "C10.P4c.Decrypt"},
		Mutant{"C15", "reload-fast-path-on-count", "internal/core/path_manager.go",
			"	// process existing paths\n", "	if len(confsToRecreate) == 0 && len(confsToReload) == 0 && len(newPaths) == len(pm.pathConfs) {\n		pm.pathConfs = newPaths\n		return\n	}\n\n	// process existing paths\n", "C15.reload.all_examined"},
		Mutant{"C35", "parameters-preallocated-from-wire-count", "internal/protocols/moq/parameter/parameter.go",
			"	for range uint64(count) {\n		var typeDelta varint.Varint", "	if count > 0 {\n		*p = make(Parameters, 0, count)\n	}\n\n	for range uint64(count) {\n		var typeDelta varint.Varint", "C35.moq_decode.alloc_bound"},
		Mutant{"C40", "reader-published-before-addreader", "internal/servers/webrtc/session.go",
			"	res.Stream.AddReader(r)\n	defer res.Stream.RemoveReader(r)\n\n	s.mutex.Lock()\n	s.reader = r\n	s.mutex.Unlock()\n", "	s.mutex.Lock()\n	s.reader = r\n	s.mutex.Unlock()\n\n	res.Stream.AddReader(r)\n	defer res.Stream.RemoveReader(r)\n", "C40.publish_after_init"},
		Mutant{"C12", "clone-interface-not-recursed", "internal/conf/conf.go",
			"		newIface.Set(deepClone(rv.Elem()))", "		newIface.Set(rv.Elem())", "C12.clone_independent"},
	)
}

// cloneObligations re-evaluates the clone-independence obligations of C11
// under another property's rule ids: properties whose statement relies on
// "the live configuration is not modified" (C07 redaction, C12 rejected edits)
// depend on Conf.Clone being a deep copy.
func cloneObligations(c *Ctx, prefix string) {
	sub := newCtx(c.Prop, c.Tier, c.Seed)
	sub.progs, sub.overlay, sub.quiet, sub.curCfg = c.progs, c.overlay, true, c.curCfg
	runC11(sub)
	for _, o := range sub.Obls {
		o.Rule = prefix + strings.TrimPrefix(o.Rule, "C11.")
		c.Obls = append(c.Obls, o)
	}
	c.undecided = append(c.undecided, sub.undecided...)
}

// c37Serialized: "every log record is exactly one line" - the destinations
// format into an unsynchronised scratch buffer (d.buf) and write it out, so
// records are whole only if destination.log calls are serialised: they are
// made only by Logger.Log, under the exclusive lock of Logger.mutex (a shared
// RLock lets two records interleave in the same buffer).
func c37Serialized(c *Ctx, p *Prog) {
	n := 0
	for _, fn := range p.ModFuncs() {
		if !strings.HasSuffix(funcPkgPath(fn), "/internal/logger") {
			continue
		}
		eachInstr(fn, func(i ssa.Instruction) {
			cc := callCommon(i)
			if cc == nil {
				return
			}
			isLog := false
			if cc.IsInvoke() && cc.Method.Name() == "log" && strings.HasSuffix(typeStr(cc.Value.Type()), "logger.destination") {
				isLog = true
			}
			if f := cc.StaticCallee(); f != nil && f.Name() == "log" && f.Signature.Recv() != nil && strings.Contains(typeStr(f.Signature.Recv().Type()), "logger.destination") {
				isLog = true
			}
			if !isLog {
				return
			}
			n++
			name := fnName(fn)
			c.Check("C37.serialized", "destination.log called from "+name, name == "(*internal/logger.Logger).Log", p.Pos(posOf(i, fn)), "records are formatted in a per-destination scratch buffer: only Logger.Log, which serialises them, may call log")
			ii := i
			c.MustPrecede(p, fn, "C37.serialized", "destination.log", "Logger.mutex.Lock() (exclusive)", func(j ssa.Instruction) bool { return j == ii },
				func(j ssa.Instruction) bool {
					if !isCallTo(j, "(*sync.Mutex).Lock", "(*sync.RWMutex).Lock") {
						return false
					}
					return desc(callCommon(j).Args[0]) == "$0.mutex"
				})
		})
	}
	c.Floor("C37.serialized", n, 1)
	// the lock is held until Log returns (deferred unlock, no explicit unlock before the calls)
	if lg := c.fn(p, "internal/logger", "Logger", "Log"); lg != nil {
		unlockedEarly := false
		eachInstr(lg, func(i ssa.Instruction) {
			if _, isCall := i.(*ssa.Call); isCall && isCallTo(i, "(*sync.Mutex).Unlock", "(*sync.RWMutex).Unlock") {
				// an explicit (non-deferred) unlock followed by a log call
				w := (&Walker{Visit: func(j ssa.Instruction) int {
					cc := callCommon(j)
					if cc != nil && cc.IsInvoke() && cc.Method.Name() == "log" {
						return wHit
					}
					return wContinue
				}}).Run(after(i))
				if w != nil {
					unlockedEarly = true
				}
			}
		})
		c.Check("C37.serialized", "(*internal/logger.Logger).Log: the lock is not released before the destinations are written", !unlockedEarly, p.Pos(lg.Pos()), "")
	}
}

// c25FinalPTS: "consecutive absolute timestamps differ exactly by the frame
// timestamp difference" is about the timestamps the unit is delivered with:
// wherever the stream layer asks the estimator, the PTS it passes is the
// unit's final PTS - no store to the unit's PTS follows the Estimate call.
func c25FinalPTS(c *Ctx, p *Prog) {
	n := 0
	for _, fn := range p.ModFuncs() {
		if !strings.HasSuffix(funcPkgPath(fn), "/internal/stream") {
			continue
		}
		for _, cl := range callsIn(fn, "(*ntpestimator.Estimator).Estimate") {
			n++
			arg := callCommon(cl).Args[1]
			d := desc(arg)
			if !strings.HasSuffix(d, ".PTS") {
				c.Check("C25.users.final_pts", fnName(fn)+": Estimate is given the unit's PTS", false, p.Pos(cl.Pos()), "argument "+d)
				continue
			}
			base := strings.TrimSuffix(d, ".PTS")
			w := (&Walker{Visit: func(j ssa.Instruction) int {
				if st, ok := j.(*ssa.Store); ok && desc(st.Addr) == base+".PTS" {
					return wHit
				}
				return wContinue
			}}).Run(after(cl))
			c.Check("C25.users.final_pts", fnName(fn)+": the PTS given to Estimate is the one the unit is delivered with (no later store to "+base+".PTS)", w == nil, p.Pos(cl.Pos()),
				"the estimator would anchor absolute time to a timestamp that is rebased afterwards: "+w.String(p))
		}
	}
	c.Floor("C25.users.final_pts", n, 1)
}

// c10LenLowerBound: the minimal length of value d implied by a branch literal
// of the recognised shapes (len(d) < K false, K < len(d), len(d) == K,
// len(d) == 0 false, d == "" false). known=false for other shapes.
func c10LenLowerBound(l Lit, d string) (lb int64, known bool) {
	ld := "len(" + d + ")"
	num := func(s string) (int64, bool) {
		n := int64(0)
		if s == "" {
			return 0, false
		}
		for _, ch := range s {
			if ch < '0' || ch > '9' {
				return 0, false
			}
			n = n*10 + int64(ch-'0')
		}
		return n, true
	}
	a := strings.TrimSuffix(strings.TrimPrefix(l.Atom, "("), ")")
	if i := strings.Index(a, " < "); i >= 0 {
		x, y := a[:i], a[i+3:]
		if x == ld {
			if k, ok := num(y); ok {
				if !l.Pos {
					return k, true // !(len < K)  =>  len >= K
				}
				return 0, true // len < K gives no lower bound
			}
		}
		if y == ld {
			if k, ok := num(x); ok {
				if l.Pos {
					return k + 1, true // K < len
				}
				return 0, true
			}
		}
		return 0, false
	}
	if i := strings.Index(a, " == "); i >= 0 {
		x, y := a[:i], a[i+4:]
		if x == ld {
			if k, ok := num(y); ok {
				if l.Pos {
					return k, true
				}
				if k == 0 {
					return 1, true // len != 0
				}
				return 0, true
			}
		}
		if x == d && y == `""` {
			if !l.Pos {
				return 1, true
			}
			return 0, true
		}
	}
	return 0, false
}
