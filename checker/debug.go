package main

import (
	"fmt"

	"golang.org/x/tools/go/ssa"
)

// dumpSSA prints the blocks of a function with the canonical descriptions the
// rules match on (developer aid while writing rule tables).
func dumpSSA(p *Prog, fn *ssa.Function) {
	fmt.Printf("=== %s  (%s)\n", fnName(fn), p.Pos(fn.Pos()))
	for _, b := range fn.Blocks {
		fmt.Printf(" block %d (%s) preds=%v\n", b.Index, b.Comment, idxs(b.Preds))
		for _, ins := range b.Instrs {
			switch x := ins.(type) {
			case *ssa.If:
				fmt.Printf("    IF %s -> T:%d F:%d   [%s]\n", litOf(x.Cond, true), b.Succs[0].Index, b.Succs[1].Index, p.Pos(x.Cond.Pos()))
			case *ssa.Call:
				fmt.Printf("    CALL %s   [%s]\n", desc(x), p.Pos(x.Pos()))
			case *ssa.Defer:
				fmt.Printf("    DEFER %s\n", calleeName(&x.Call))
			case *ssa.Go:
				fmt.Printf("    GO %s\n", calleeName(&x.Call))
			case *ssa.Store:
				fmt.Printf("    STORE %s <- %s   [%s]\n", desc(x.Addr), desc(x.Val), p.Pos(x.Pos()))
			case *ssa.Return:
				s := ""
				for _, r := range x.Results {
					s += desc(r) + ", "
				}
				fmt.Printf("    RETURN %s  [%s]\n", s, p.Pos(x.Pos()))
			case *ssa.Send:
				fmt.Printf("    SEND %s <- %s\n", desc(x.Chan), desc(x.X))
			case *ssa.Jump:
				fmt.Printf("    JUMP %d\n", b.Succs[0].Index)
			case *ssa.Panic:
				fmt.Printf("    PANIC %s\n", desc(x.X))
			case *ssa.MapUpdate:
				fmt.Printf("    MAPUPDATE %s[%s] = %s\n", desc(x.Map), desc(x.Key), desc(x.Value))
			case *ssa.RunDefers:
				fmt.Printf("    RUNDEFERS\n")
			case *ssa.Select:
				fmt.Printf("    SELECT %d states blocking=%v\n", len(x.States), x.Blocking)
			}
		}
	}
}

func idxs(bs []*ssa.BasicBlock) []int {
	var out []int
	for _, b := range bs {
		out = append(out, b.Index)
	}
	return out
}
