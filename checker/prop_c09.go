package main

import (
	"fmt"
	"go/types"
	"sort"
	"strings"

	"golang.org/x/tools/go/ssa"
)

// C09 - environment overrides are equivalent to file values.

func init() {
	register(Property{ID: "C09", Level: "other", Run: runC09,
		Technique: "static analysis: walk of the static type graph that env.loadEnvInternal meets at run time (conf.Conf, conf.Path behind OptionalPath), sibling agreement between every UnmarshalEnv and the JSON decoder of the same type (go/ssa), must-precede ordering on conf.Load, struct-tag rules",
		Text:      "Decides: every type reachable from conf.Conf through json-visible fields is one the environment loader supports (env.Unmarshaler, exactly string/int/uint/float64/bool, map[string]*T, struct, []string/[]uint/[]float64/[]struct, behind at most one pointer) - anything else makes Load fail or panic; every UnmarshalEnv funnels the value into the JSON decoder of the same receiver (directly, through jsonwrapper.Unmarshal, or - for OptionalPath - by recursing with the same prefix), so file and environment share one parser and one validation; no type whose file decoder is a custom UnmarshalJSON is filled field by field by the environment loader (that would bypass the file-side validation); conf.Load applies file, then RTSP_ variables, then MTX_ variables, then Validate, all on the same object, on every successful path; json tags are of the two forms the key derivation understands and give distinct upper-case keys per struct; a list of structs addressed by MTX_<LIST>_<n>_<FIELD> is built in index order: the items are visited by a counter from 0 in steps of 1, the key of an item is the decimal rendering of that same counter, preloaded positions are merged in place at Index(counter), reflect.Append (which places at Len) is used only past the existing positions, and the visit does not end while variables for the current position exist - so item n lands at position n as in YAML. Does not decide lists whose indexes have gaps (not expressible in YAML), a different but correct construction order (e.g. indexes parsed to integers and sorted numerically would have to be re-justified), nor value-level equivalence: quoting of environment strings into JSON without escaping, 32-bit parsing of int/uint, map keys are lower-cased and cannot contain '_'.",
		Note:      "trusted: reflect semantics of env.loadEnvInternal (its case analysis is mirrored by the walk; the mirror is cross-checked against the type identities and kinds the function tests), encoding/json"})
	addMutants(
		Mutant{"C09", "duration-env-own-parser", "internal/conf/duration.go",
			"	return d.UnmarshalJSON([]byte(`\"` + v + `\"`))\n}", "	tmp, err := time.ParseDuration(v)\n	*d = Duration(tmp)\n	return err\n}", "C09.env_reaches_json"},
		Mutant{"C09", "encryption-env-skips-validation", "internal/conf/encryption.go",
			"func (d *Encryption) UnmarshalEnv(_ string, v string) error {\n	return d.UnmarshalJSON([]byte(`\"` + v + `\"`))", "func (d *Encryption) UnmarshalEnv(_ string, v string) error {\n	*d = Encryption(v)\n	return nil", "C09.env_reaches_json"},
		Mutant{"C09", "ipnetworks-env-decodes-into-copy", "internal/conf/ip_networks.go",
			"	return jsonwrapper.Unmarshal(byts, d)\n}", "	var tmp IPNetworks\n	return jsonwrapper.Unmarshal(byts, &tmp)\n}", "C09.env_reaches_json"},
		Mutant{"C09", "mtx-before-legacy-prefix", "internal/conf/conf.go",
			"	err = env.Load(\"RTSP\", conf) // legacy prefix\n	if err != nil {\n		return nil, \"\", err\n	}\n\n	err = env.Load(\"MTX\", conf)\n",
			"	err = env.Load(\"MTX\", conf)\n	if err != nil {\n		return nil, \"\", err\n	}\n\n	err = env.Load(\"RTSP\", conf) // legacy prefix\n", "C09.load_order"},
		Mutant{"C09", "env-before-file", "internal/conf/conf.go",
			"	fpath, err := conf.loadFromFile(fpath, defaultConfPaths)\n	if err != nil {\n		return nil, \"\", err\n	}\n\n	err = env.Load(\"RTSP\", conf) // legacy prefix\n	if err != nil {\n		return nil, \"\", err\n	}\n",
			"	err := env.Load(\"RTSP\", conf) // legacy prefix\n	if err != nil {\n		return nil, \"\", err\n	}\n\n	fpath, err = conf.loadFromFile(fpath, defaultConfPaths)\n	if err != nil {\n		return nil, \"\", err\n	}\n", "C09.load_order"},
		Mutant{"C09", "env-error-ignored", "internal/conf/conf.go",
			"	err = env.Load(\"MTX\", conf)\n	if err != nil {\n		return nil, \"\", err\n	}\n", "	_ = env.Load(\"MTX\", conf)\n", "C09.load_order"},
		Mutant{"C09", "field-with-unsupported-type", "internal/conf/conf.go",
			"	UDPReadBufferSize   uint            `json:\"udpReadBufferSize\"`", "	UDPReadBufferSize   uint            `json:\"udpReadBufferSize\"`\n	UDPWriteBufferSize  int64           `json:\"udpWriteBufferSize\"`", "C09.env_loadable"},
		Mutant{"C09", "tag-with-foreign-option", "internal/conf/conf.go",
			"	SysLogPrefix        string          `json:\"sysLogPrefix\"`", "	SysLogPrefix        string          `json:\"sysLogPrefix,omitzero\"`", "C09.tags"},
		Mutant{"C09", "list-items-in-key-order-not-index-order", "internal/conf/env/env.go",
			"				for i := 0; ; i++ {\n					itemPrefix := prefix + \"_\" + strconv.FormatInt(int64(i), 10)\n					if !envHasAtLeastAKeyWithPrefix(env, itemPrefix) && (prv.IsZero() || prv.Elem().Len() <= i) {\n						break\n					}\n",
			"				var idxs []string\n				seenIdx := map[string]bool{}\n				for k := range env {\n					if strings.HasPrefix(k, prefix+\"_\") {\n						idx, _, _ := strings.Cut(k[len(prefix)+1:], \"_\")\n						if _, err := strconv.ParseUint(idx, 10, 31); err == nil && !seenIdx[idx] {\n							seenIdx[idx] = true\n							idxs = append(idxs, idx)\n						}\n					}\n				}\n				for j := 1; j < len(idxs); j++ {\n					for k := j; k > 0 && idxs[k] < idxs[k-1]; k-- {\n						idxs[k], idxs[k-1] = idxs[k-1], idxs[k]\n					}\n				}\n				for _, idx := range idxs {\n					i, _ := strconv.Atoi(idx)\n					itemPrefix := prefix + \"_\" + idx\n", "C09.list_index"},
		Mutant{"C09", "list-keys-one-based", "internal/conf/env/env.go",
			"					itemPrefix := prefix + \"_\" + strconv.FormatInt(int64(i), 10)\n", "					itemPrefix := prefix + \"_\" + strconv.FormatInt(int64(i+1), 10)\n", "C09.list_index"},
		Mutant{"C09", "list-stops-at-file-length", "internal/conf/env/env.go",
			"					if !envHasAtLeastAKeyWithPrefix(env, itemPrefix) && (prv.IsZero() || prv.Elem().Len() <= i) {\n						break\n					}\n",
			"					if prv.IsZero() || prv.Elem().Len() <= i {\n						break\n					}\n", "C09.list_index"},
		Mutant{"C09", "map-of-values", "internal/conf/conf.go",
			"	OptionalPaths map[string]*OptionalPath `json:\"paths\"`", "	OptionalPaths map[string]*OptionalPath `json:\"paths\"`\n	Extra         map[string]WebRTCICEServer `json:\"extra\"`", "C09.env_loadable"},
	)
}

func runC09(c *Ctx) {
	defer dumpObls(c)
	p := c.Main()
	if p == nil {
		return
	}
	c09EnvPreserves(c, p)
	c.Explain = "E3: the type graph env.loadEnvInternal walks (Conf; Path behind OptionalPath.UnmarshalEnv → env.Load(prefix, Values), Values being the pointer-ised copy of Path) - rule env_loadable per position; " +
		"E7: env_reaches_json per UnmarshalEnv (every non-empty-value return is the result of (*T).UnmarshalJSON(recv, …) / jsonwrapper.Unmarshal(…, recv) / env.Load(prefix, recv.Values)); json_validation_not_bypassed per struct type that is filled field by field although it has a custom UnmarshalJSON; " +
		"E1: load_order on conf.Load (loadFromFile ≺ env.Load(\"RTSP\") ≺ env.Load(\"MTX\") ≺ Validate on the same *Conf, success return passes the nil test of each); tags (options ⊆ {omitempty}, non-empty names, distinct upper-case keys per struct); loader_mirror (the identities/kinds tested by env.loadEnvInternal are the ones the walk assumes); list_index (go/ssa on the reflect.Append site of env.loadEnvInternal: the appended item was filled by loadEnvInternal(env, $1 + \"_\" + decimal(I), item); I is phi(0, I+1); every Index() on the destination list uses I; Append is reached from the loop head only past !(I < Len(list)) or on a list that does not exist; a nil return is reached from the loop head only past !envHasAtLeastAKeyWithPrefix(env, key(I))). " +
		"NOT decided: value-level equivalence (unescaped quoting of the environment string into JSON, ParseInt(…,32) vs JSON numbers, lower-casing of map keys, keys containing '_')."
	c.Assume = []string{
		"reflect behaves as documented; env.loadEnvInternal's case analysis is the one mirrored by the walk (checked by loader_mirror on its constants)",
		"environment values contain no '\"' or '\\' (they are spliced into a JSON string unescaped)",
	}
	confT := p.NamedType("internal/conf", "Conf")
	pathT := p.NamedType("internal/conf", "Path")
	envIface := p.NamedType("internal/conf/env", "Unmarshaler")
	if confT == nil || pathT == nil || envIface == nil {
		c.Undecided("UNRESOLVED ANCHOR conf.Conf / conf.Path / env.Unmarshaler")
		return
	}
	iface := envIface.Underlying().(*types.Interface)

	w := &envWalk{c: c, p: p, iface: iface, seen: map[string]bool{}, unmarshalers: map[string]*types.Named{}}
	w.visit("Conf", confT, 0)
	// OptionalPath.UnmarshalEnv recurses into the pointer-ised Path
	if w.unmarshalers["conf.OptionalPath"] != nil {
		w.visit("Path", pathT, 0)
	} else {
		c.Check("C09.env_loadable", "conf.OptionalPath implements env.Unmarshaler (paths are loadable from the environment)", false, "-", "")
	}
	c.Floor("C09.env_loadable", w.n, 250)
	c.Floor("C09.tags", w.nTags, 250)

	// ---- UnmarshalEnv ↔ JSON decoder
	var names []string
	for k := range w.unmarshalers {
		names = append(names, k)
	}
	sort.Strings(names)
	c.Floor("C09.env_reaches_json", len(names), 17)
	for _, k := range names {
		nt := w.unmarshalers[k]
		short := strings.TrimPrefix(nt.Obj().Pkg().Path(), modPath+"/")
		fn := p.Func(short, nt.Obj().Name(), "UnmarshalEnv")
		if fn == nil {
			c.Undecided("UNRESOLVED ANCHOR " + k + ".UnmarshalEnv")
			continue
		}
		c.Analysed(fnName(fn))
		c09EnvReachesJSON(c, p, fn, nt, k)
	}

	c09LoadOrder(c, p)
	c09LoaderMirror(c, p)
	// MTX_<LIST>_<n>_<FIELD>: item n lands at position n (prop_r3_c09.go)
	c09ListIndex(c, p)
}

type envWalk struct {
	c            *Ctx
	p            *Prog
	iface        *types.Interface
	seen         map[string]bool
	unmarshalers map[string]*types.Named
	n, nTags     int
}

func isExactBasic(t types.Type, kinds ...types.BasicKind) bool {
	b, ok := t.(*types.Basic) // identity, not kind: a named type is not *types.Basic
	if !ok {
		return false
	}
	for _, k := range kinds {
		if b.Kind() == k {
			return true
		}
	}
	return false
}

// visit mirrors env.loadEnvInternal for a destination of static type t (the
// type of the field or element; one pointer level is looked through).
func (w *envWalk) visit(path string, t types.Type, ptrs int) {
	c := w.c
	t = types.Unalias(t)
	if pt, ok := t.(*types.Pointer); ok {
		if ptrs >= 1 {
			w.n++
			c.Check("C09.env_loadable", path+": at most one pointer level", false, "-", typeStr(t)+": env.loadEnvInternal reports 'unsupported type'")
			return
		}
		w.visit(path, pt.Elem(), ptrs+1)
		return
	}
	w.n++
	key := path + " " + typeStr(t)
	// env.Unmarshaler on *T
	if types.Implements(types.NewPointer(t), w.iface) {
		if nt, ok := t.(*types.Named); ok {
			w.unmarshalers[typeStr(nt)] = nt
		}
		c.Check("C09.env_loadable", key+": loadable from the environment", true, "-", "env.Unmarshaler")
		return
	}
	if isExactBasic(t, types.String, types.Int, types.Uint, types.Float64, types.Bool) {
		c.Check("C09.env_loadable", key+": loadable from the environment", true, "-", "basic")
		return
	}
	switch u := t.Underlying().(type) {
	case *types.Map:
		okKey := isExactBasic(types.Unalias(u.Key()), types.String)
		ep, okElem := types.Unalias(u.Elem()).(*types.Pointer)
		c.Check("C09.env_loadable", key+": loadable from the environment", okKey && okElem, "-", "maps must be map[string]*T (reflect.New(rt.Elem().Elem()) and MapIndex(string) panic otherwise)")
		if okKey && okElem {
			w.visit(path+"{}", ep.Elem(), 1) // the element is allocated and loaded by value
		}
	case *types.Struct:
		nt, isNamed := t.(*types.Named)
		if isNamed {
			if hasMethod(nt, "UnmarshalJSON") != nil && path != "Conf" && path != "Path" {
				c.Check("C09.json_validation_not_bypassed", typeStr(nt)+": has a custom UnmarshalJSON, so it also implements env.Unmarshaler", false, w.p.Pos(nt.Obj().Pos()),
					"at "+path+" the environment loader fills the struct field by field and never runs the checks of UnmarshalJSON that every file value passes through")
			}
			if w.seen[typeStr(nt)] {
				return
			}
			w.seen[typeStr(nt)] = true
		}
		c.Check("C09.env_loadable", key+": loadable from the environment", true, "-", "struct")
		keys := map[string]string{}
		for i := 0; i < u.NumFields(); i++ {
			f := u.Field(i)
			name, opts, hidden := jsonTag(u.Tag(i))
			if hidden {
				continue
			}
			w.nTags++
			fkey := typeStr(t) + "." + f.Name()
			var bad []string
			if !f.Exported() {
				bad = append(bad, "unexported field without json:\"-\" (reflect.Set panics)")
			}
			if name == "" {
				bad = append(bad, "empty json name")
			}
			for _, o := range opts {
				if o != "omitempty" {
					bad = append(bad, "option ,"+o+" is not stripped by the environment key derivation (TrimSuffix \",omitempty\"): the variable can never match")
				}
			}
			if len(opts) > 1 {
				bad = append(bad, "several options")
			}
			up := strings.ToUpper(name)
			if other, dup := keys[up]; dup {
				bad = append(bad, "environment key "+up+" collides with field "+other)
			}
			keys[up] = f.Name()
			c.Check("C09.tags", fkey+": json tag yields a usable environment key", len(bad) == 0, w.p.Pos(f.Pos()), strings.Join(bad, "; "))
			w.visit(path+"."+name, f.Type(), 0)
		}
	case *types.Slice:
		el := types.Unalias(u.Elem())
		switch {
		case isExactBasic(el, types.String, types.Uint, types.Float64):
			c.Check("C09.env_loadable", key+": loadable from the environment", true, "-", "comma-separated list")
		default:
			if _, isStruct := el.Underlying().(*types.Struct); isStruct {
				c.Check("C09.env_loadable", key+": loadable from the environment", true, "-", "indexed list of structs")
				w.visit(path+"[]", el, 1)
			} else {
				c.Check("C09.env_loadable", key+": loadable from the environment", false, "-", "slice element "+typeStr(el)+" is not string/uint/float64/struct: env.loadEnvInternal reports 'unsupported type'")
			}
		}
	default:
		c.Check("C09.env_loadable", key+": loadable from the environment", false, "-", "env.loadEnvInternal reports 'unsupported type' (the identity of string/int/uint/float64/bool is tested, not the kind)")
	}
}

// c09EnvReachesJSON: every return of UnmarshalEnv is the empty-value special
// case or the result of decoding into the same receiver with the JSON decoder.
func c09EnvReachesJSON(c *Ctx, p *Prog, fn *ssa.Function, nt *types.Named, k string) {
	key := k + ".UnmarshalEnv: "
	hasUJ := hasMethod(nt, "UnmarshalJSON") != nil
	n := 0
	for _, r := range returnsOf(fn) {
		if r.Block().Comment == "recover" {
			continue
		}
		n++
		v := retVal(r, 0)
		if isNilConst(v) {
			ok := hasGuard(r, T(`($2 == "")`))
			c.Check("C09.env_reaches_json", key+"a return without decoding is the empty-value case", ok, p.Pos(posOf(r, fn)), guardStr(r))
			continue
		}
		call, isCall := v.(*ssa.Call)
		how := ""
		if isCall {
			args := call.Call.Args
			switch {
			case isCallTo(call, "(*"+k+").UnmarshalJSON") && len(args) == 2 && desc(args[0]) == "$0":
				how = "own UnmarshalJSON"
			case isCallTo(call, "conf/jsonwrapper.Unmarshal") && len(args) == 2 && desc(args[1]) == "$0":
				how = "jsonwrapper.Unmarshal into the receiver"
			case isCallTo(call, "conf/env.Load") && len(args) == 2 && desc(args[0]) == "$1" && desc(args[1]) == "$0.Values":
				how = "recursion into the optional values with the same prefix"
			}
		}
		c.Check("C09.env_reaches_json", key+"the value is decoded by the JSON decoder of the same receiver", how != "", p.Pos(posOf(r, fn)), "return "+desc(v)+" "+how)
		if how == "jsonwrapper.Unmarshal into the receiver" && hasUJ {
			// fine: jsonwrapper dispatches to UnmarshalJSON of the receiver
			continue
		}
		if how == "own UnmarshalJSON" {
			// the bytes are the quoted value or the JSON list of its comma-separated parts
			d := desc(call.Call.Args[1])
			ok := d == `(("\"" + $2) + "\"")` || d == `encoding/json.Marshal(strings.Split($2, ","))#0`
			c.Check("C09.env_reaches_json", key+"the JSON text is the quoted value or the list of its comma-separated items", ok, p.Pos(call.Pos()), d)
		}
	}
	if n == 0 {
		c.Check("C09.env_reaches_json", key+"has a return", false, p.Pos(fn.Pos()), "")
	}
}

func c09LoadOrder(c *Ctx, p *Prog) {
	fn := c.fn(p, "internal/conf", "", "Load")
	if fn == nil {
		return
	}
	isEnv := func(prefix string) target {
		return func(i ssa.Instruction) bool {
			if !isCallTo(i, "conf/env.Load") {
				return false
			}
			s, ok := constStringB(callCommon(i).Args[0])
			return ok && s == prefix
		}
	}
	file := callTo("(*conf.Conf).loadFromFile")
	val := callTo("(*conf.Conf).Validate")
	steps := []struct {
		name string
		t    target
	}{{"loadFromFile", file}, {`env.Load("RTSP")`, isEnv("RTSP")}, {`env.Load("MTX")`, isEnv("MTX")}, {"Validate", val}}
	for i, s := range steps {
		if countTargets(fn, s.t) != 1 {
			c.Check("C09.load_order", "conf.Load: exactly one call of "+s.name, false, p.Pos(fn.Pos()), fmt.Sprintf("%d calls", countTargets(fn, s.t)))
			return
		}
		if i > 0 {
			c.MustPrecede(p, fn, "C09.load_order", s.name, steps[i-1].name, s.t, steps[i-1].t)
		}
	}
	// all on the same object, which is the one returned
	var dests []string
	eachInstr(fn, func(i ssa.Instruction) {
		cc := callCommon(i)
		if cc == nil {
			return
		}
		switch {
		case file(i), val(i):
			dests = append(dests, fmt.Sprintf("%p", stripConv(cc.Args[0])))
		case isCallTo(i, "conf/env.Load"):
			dests = append(dests, fmt.Sprintf("%p", stripConv(cc.Args[1])))
		}
	})
	same := len(dests) == 4
	for _, d := range dests {
		same = same && d == dests[0]
	}
	for _, r := range returnsOf(fn) {
		if retNil(2)(r) {
			same = same && len(dests) > 0 && fmt.Sprintf("%p", stripConv(retVal(r, 0))) == dests[0]
		}
	}
	c.Check("C09.load_order", "conf.Load: file, both environment passes, Validate and the result are the same *Conf", same, p.Pos(fn.Pos()), strings.Join(dests, " "))
	// success only when every step succeeded
	eachInstr(fn, func(i ssa.Instruction) {
		call, ok := i.(*ssa.Call)
		if !ok {
			return
		}
		var errV ssa.Value
		switch {
		case file(i):
			for _, r := range *call.Referrers() {
				if ex, ok := r.(*ssa.Extract); ok && ex.Index == 1 {
					errV = ex
				}
			}
		case isCallTo(i, "conf/env.Load"), val(i):
			errV = call
		default:
			return
		}
		name := calleeName(&call.Call)
		if isCallTo(i, "conf/env.Load") {
			s, _ := constStringB(call.Call.Args[0])
			name += `("` + s + `")`
		}
		ok = errV != nil
		if ok {
			for _, r := range returnsOf(fn) {
				if retNil(2)(r) && !guardIsNil(r, errV) {
					ok = false
				}
			}
		}
		c.Check("C09.load_order", "conf.Load: success only if "+name+" returned no error", ok, p.Pos(call.Pos()), "")
	})
}

// guardIsNil: at the instruction, v (an error value) is known to be nil.
func guardIsNil(at ssa.Instruction, v ssa.Value) bool {
	for _, g := range guardsOf(at) {
		bo, ok := g.Cond.(*ssa.BinOp)
		if !ok {
			continue
		}
		if !((bo.X == v && isNilConst(bo.Y)) || (bo.Y == v && isNilConst(bo.X))) {
			continue
		}
		if (bo.Op.String() == "==") == g.Outcome {
			return true
		}
	}
	return false
}

// c09LoaderMirror cross-checks the constants of env.loadEnvInternal that the
// walk mirrors: the five exact basic types, the slice element types, the
// ",omitempty" suffix and the "-" tag.
func c09LoaderMirror(c *Ctx, p *Prog) {
	fn := c.fn(p, "internal/conf/env", "", "loadEnvInternal")
	if fn == nil {
		return
	}
	typeOfs := map[string]bool{}
	kinds := map[string]bool{}
	strs := map[string]bool{}
	eachInstr(fn, func(i ssa.Instruction) {
		if cc := callCommon(i); cc != nil {
			switch calleeName(cc) {
			case "reflect.TypeOf":
				typeOfs[typeStr(stripConv(cc.Args[0]).Type())] = true
			case "strings.TrimSuffix":
				if s, ok := constStringB(cc.Args[1]); ok {
					strs["trim:"+s] = true
				}
			case "strings.ToUpper":
				strs["upper"] = true
			}
		}
		if bo, ok := i.(*ssa.BinOp); ok {
			for _, pr := range [][2]ssa.Value{{bo.X, bo.Y}, {bo.Y, bo.X}} {
				if k, ok := pr[1].(*ssa.Const); ok && typeStr(k.Type()) == "reflect.Kind" && k.Value != nil {
					kinds[k.Value.ExactString()] = true
				}
				if s, ok := constStringB(pr[1]); ok && strings.Contains(desc(pr[0]), `(reflect.StructTag).Get(`) {
					strs["tag:"+s] = true
				}
			}
		}
	})
	gotT := sortedSet(typeOfs)
	wantT := []string{"bool", "float64", "int", "string", "uint"}
	c.Check("C09.loader_mirror", "env.loadEnvInternal: exact basic types handled = string,int,uint,float64,bool", sameStrings(gotT, wantT), p.Pos(fn.Pos()), joinS(gotT))
	// reflect.Kind constants: Pointer=22, Map=21, Struct=25, Slice=23
	gotK := sortedSet(kinds)
	c.Check("C09.loader_mirror", "env.loadEnvInternal: kinds handled = Map, Pointer, Slice, Struct", sameStrings(gotK, []string{"21", "22", "23", "25"}), p.Pos(fn.Pos()), joinS(gotK))
	gotS := sortedSet(strs)
	c.Check("C09.loader_mirror", "env.loadEnvInternal: key = ToUpper(TrimSuffix(json tag, \",omitempty\")), skipping \"-\"", sameStrings(gotS, []string{"tag:-", "trim:,omitempty", "upper"}), p.Pos(fn.Pos()), joinS(gotS))
}
