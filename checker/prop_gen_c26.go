package main

// C26, generalisation of "the table is a local composite literal".
//
// Path.Decode iterates two constant tables (the regexp metacharacters to
// escape, the placeholders to scan for). The rules read the entries of those
// tables. They used to require the table to be an array literal allocated in
// Decode itself (`for _, x := range []T{...}`); the MEANING is "the elements
// iterated are these constants on every run". That also holds when the table
// is
//
//	a package-level slice variable   var t = []T{...}       (backing array built in the package initialiser)
//	a package-level array variable   var t = [...]T{...}
//	a local variable                 t := []T{...} / [...]T{...}
//
// provided nothing can change it. The premise is checked, not assumed:
//   - every element store into the backing array has a constant index and a
//     constant value, one store per index;
//   - a package variable is assigned exactly once, in the initialiser of its
//     package, and is otherwise only loaded (its address never escapes);
//   - no slice or array value obtained from the variable anywhere in the module is
//     written through (IndexAddr + Store), stored away, or re-sliced other than in full.
//
// A table that fails the premise is "not a constant table" and the rule that
// needed its entries fails as it did when no literal was found.

import (
	"go/token"
	"go/types"

	"golang.org/x/tools/go/ssa"
)

type c26Table struct {
	root   ssa.Value // identity of the table: backing *ssa.Alloc, or array-typed *ssa.Global
	consts map[int64]*ssa.Const
	pos    token.Pos
}

func (t *c26Table) same(u *c26Table) bool { return t != nil && u != nil && t.root == u.root }

// globalUsersOf lists, per module-level variable, every instruction of the
// module that has the variable as an operand. Cached per program.
var globalUsersCache = map[*Prog]map[*ssa.Global][]ssa.Instruction{}

func globalUsersOf(p *Prog, g *ssa.Global) []ssa.Instruction {
	m := globalUsersCache[p]
	if m == nil {
		m = map[*ssa.Global][]ssa.Instruction{}
		for f := range p.AllFuncs() {
			if !inModule(f) || f.Blocks == nil {
				continue
			}
			for _, b := range f.Blocks {
				for _, ins := range b.Instrs {
					for _, op := range ins.Operands(nil) {
						if op == nil || *op == nil {
							continue
						}
						if gg, ok := (*op).(*ssa.Global); ok {
							m[gg] = append(m[gg], ins)
						}
					}
				}
			}
		}
		globalUsersCache = map[*Prog]map[*ssa.Global][]ssa.Instruction{p: m} // keep one program only
	}
	return m[g]
}

func isPkgInit(f *ssa.Function, pkg *ssa.Package) bool {
	return f != nil && f.Pkg == pkg && f.Parent() == nil && f.Name() == "init" && f.Synthetic != ""
}

// readOnlyAggregate: the slice / array-pointer value v is only read:
// indexed for loads, measured, ranged, re-sliced in full, or passed to a call.
func readOnlyAggregate(v ssa.Value, depth int) bool {
	refs := v.Referrers()
	if refs == nil || depth > 4 {
		return refs == nil && depth <= 4
	}
	for _, r := range *refs {
		switch x := r.(type) {
		case *ssa.IndexAddr:
			if x.X != v {
				continue // used as an index: impossible for these types
			}
			for _, rr := range *x.Referrers() {
				if u, ok := rr.(*ssa.UnOp); ok && u.Op == token.MUL {
					continue
				}
				if _, ok := rr.(*ssa.DebugRef); ok {
					continue
				}
				return false // stored through, address passed on
			}
		case *ssa.Index:
		case *ssa.Slice:
			if x.X != v || x.Low != nil || x.High != nil || x.Max != nil || !readOnlyAggregate(x, depth+1) {
				return false
			}
		case *ssa.Range, *ssa.DebugRef:
		case *ssa.Call:
			// len/cap, or an argument of a call outside the module (callees of the
			// standard library that take a slice by value are trusted not to write it);
			// a module function could write through the slice it is handed
			if x.Call.Value == v || x.Call.IsInvoke() {
				return false
			}
			if bi, builtin := x.Call.Value.(*ssa.Builtin); builtin {
				switch {
				case bi.Name() == "len" || bi.Name() == "cap":
				case bi.Name() == "copy" && len(x.Call.Args) == 2 && x.Call.Args[0] != v: // source of a copy
				default:
					return false // copy into it, append to it (may write the spare capacity), clear, ...
				}
			} else {
				callee := x.Call.StaticCallee()
				if callee == nil || inModule(callee) {
					return false
				}
			}
		case *ssa.Phi:
			if !readOnlyAggregate(x, depth+1) {
				return false
			}
		default:
			return false // stored into a variable or field, sent, captured, ...
		}
	}
	return true
}

// backingConsts reads the element stores of a backing array (a local or
// initialiser Alloc, or an array-typed package variable). ok=false when an
// element is stored with a non-constant index or value, or twice.
func backingConsts(arr ssa.Value, users []ssa.Instruction) (map[int64]*ssa.Const, bool) {
	out := map[int64]*ssa.Const{}
	for _, r := range users {
		ia, ok := r.(*ssa.IndexAddr)
		if !ok || ia.X != arr {
			continue
		}
		for _, rr := range *ia.Referrers() {
			st, ok := rr.(*ssa.Store)
			if !ok {
				continue
			}
			if st.Addr != ssa.Value(ia) {
				return nil, false
			}
			idx, okI := constBig(ia.Index)
			cv, okV := st.Val.(*ssa.Const)
			if !okI || !okV {
				return nil, false
			}
			if _, dup := out[idx.Int64()]; dup {
				return nil, false
			}
			out[idx.Int64()] = cv
		}
	}
	return out, true
}

// allocTable: a backing array allocated in a function body.
func allocTable(a *ssa.Alloc) *c26Table {
	if _, isArr := a.Type().Underlying().(*types.Pointer).Elem().Underlying().(*types.Array); !isArr {
		return nil
	}
	var users []ssa.Instruction
	for _, r := range *a.Referrers() {
		users = append(users, r)
		switch x := r.(type) {
		case *ssa.IndexAddr: // element stores are vetted by backingConsts; loads are fine
			for _, rr := range *x.Referrers() {
				switch y := rr.(type) {
				case *ssa.Store:
				case *ssa.UnOp:
					if y.Op != token.MUL {
						return nil
					}
				case *ssa.DebugRef:
				default:
					return nil
				}
			}
		case *ssa.Slice:
			if x.Low != nil || x.High != nil || x.Max != nil {
				return nil
			}
		case *ssa.UnOp: // a load of the whole array is a copy: it cannot change this one
			if x.Op != token.MUL {
				return nil
			}
		case *ssa.DebugRef:
		default:
			return nil // the array escapes or is copied over
		}
	}
	cs, ok := backingConsts(a, users)
	if !ok {
		return nil
	}
	return &c26Table{root: a, consts: cs, pos: a.Pos()}
}

// c26ElemTable: v is (a conversion of) a load of an element of a constant
// table; returns the table, or nil.
func c26ElemTable(p *Prog, v ssa.Value) *c26Table {
	v = stripConv(v)
	if ix, ok := v.(*ssa.Index); ok {
		// element of an array VALUE (range over an array variable copies it first)
		if ld, ok := ix.X.(*ssa.UnOp); ok && ld.Op == token.MUL {
			switch a := ld.X.(type) {
			case *ssa.Global:
				return globalArrayTable(p, a)
			case *ssa.Alloc:
				return c26TableOf(p, a, 0)
			}
		}
		return nil
	}
	u, ok := v.(*ssa.UnOp)
	if !ok || u.Op != token.MUL {
		return nil
	}
	ia, ok := u.X.(*ssa.IndexAddr)
	if !ok {
		return nil
	}
	return c26TableOf(p, ia.X, 0)
}

func c26TableOf(p *Prog, x ssa.Value, depth int) *c26Table {
	if depth > 4 {
		return nil
	}
	switch y := x.(type) {
	case *ssa.Slice:
		if y.Low != nil || y.High != nil || y.Max != nil {
			return nil
		}
		return c26TableOf(p, y.X, depth+1)
	case *ssa.Alloc:
		// local table: slices made of it must not be written through either
		t := allocTable(y)
		if t == nil {
			return nil
		}
		for _, r := range *y.Referrers() {
			if sl, ok := r.(*ssa.Slice); ok && !readOnlyAggregate(sl, 0) {
				// a slice of a literal may be stored to a package variable (that is the
				// initialiser case, handled from the variable's side), nothing else
				return nil
			}
		}
		return t
	case *ssa.Global:
		// array-typed package variable: &g indexed directly
		return globalArrayTable(p, y)
	case *ssa.UnOp:
		if y.Op != token.MUL {
			return nil
		}
		g, ok := y.X.(*ssa.Global)
		if !ok {
			return nil
		}
		return globalSliceTable(p, g)
	}
	return nil
}

// globalSliceTable: `var g = []T{c0, c1, ...}` never reassigned or written through.
func globalSliceTable(p *Prog, g *ssa.Global) *c26Table {
	if g.Pkg == nil || !hasPrefixStr(g.Pkg.Pkg.Path(), modPath) {
		return nil
	}
	if _, isSlice := g.Type().Underlying().(*types.Pointer).Elem().Underlying().(*types.Slice); !isSlice {
		return nil
	}
	var init *ssa.Store
	for _, ins := range globalUsersOf(p, g) {
		switch x := ins.(type) {
		case *ssa.Store:
			if x.Addr != ssa.Value(g) || init != nil || !isPkgInit(x.Parent(), g.Pkg) {
				return nil // assigned outside the initialiser, twice, or its address stored
			}
			init = x
		case *ssa.UnOp:
			if x.Op != token.MUL || !readOnlyAggregate(x, 0) {
				return nil
			}
		case *ssa.DebugRef:
		default:
			return nil // address taken
		}
	}
	if init == nil {
		return nil
	}
	sl, ok := init.Val.(*ssa.Slice)
	if !ok || sl.Low != nil || sl.High != nil || sl.Max != nil {
		return nil
	}
	a, ok := sl.X.(*ssa.Alloc)
	if !ok {
		return nil
	}
	// the literal's slice has one use: the store into the variable
	if refs := sl.Referrers(); refs == nil || len(*refs) != 1 {
		return nil
	}
	t := allocTable(a)
	if t != nil {
		t.pos = g.Pos()
	}
	return t
}

// globalArrayTable: `var g = [...]T{c0, c1, ...}`.
func globalArrayTable(p *Prog, g *ssa.Global) *c26Table {
	if g.Pkg == nil || !hasPrefixStr(g.Pkg.Pkg.Path(), modPath) {
		return nil
	}
	if _, isArr := g.Type().Underlying().(*types.Pointer).Elem().Underlying().(*types.Array); !isArr {
		return nil
	}
	users := globalUsersOf(p, g)
	// the initialiser either stores the elements in place or builds the literal in
	// a temporary and copies it over in one store
	var whole *ssa.Store
	elemStores := 0
	for _, ins := range users {
		switch x := ins.(type) {
		case *ssa.Store:
			if x.Addr != ssa.Value(g) || whole != nil || !isPkgInit(x.Parent(), g.Pkg) {
				return nil
			}
			whole = x
		case *ssa.IndexAddr:
			if x.X != ssa.Value(g) {
				return nil
			}
			for _, rr := range *x.Referrers() {
				switch y := rr.(type) {
				case *ssa.Store:
					elemStores++
					if !isPkgInit(y.Parent(), g.Pkg) {
						return nil
					}
				case *ssa.UnOp:
					if y.Op != token.MUL {
						return nil
					}
				case *ssa.DebugRef:
				default:
					return nil
				}
			}
		case *ssa.Slice:
			if x.Low != nil || x.High != nil || x.Max != nil || !readOnlyAggregate(x, 0) {
				return nil
			}
		case *ssa.UnOp: // a load of the whole array is a copy (range over the array value)
			if x.Op != token.MUL {
				return nil
			}
		case *ssa.DebugRef:
		default:
			return nil
		}
	}
	if whole != nil {
		if elemStores > 0 {
			return nil
		}
		ld, ok := whole.Val.(*ssa.UnOp)
		if !ok || ld.Op != token.MUL {
			return nil
		}
		a, ok := ld.X.(*ssa.Alloc)
		if !ok {
			return nil
		}
		t := allocTable(a)
		if t == nil {
			return nil
		}
		return &c26Table{root: g, consts: t.consts, pos: g.Pos()}
	}
	cs, ok := backingConsts(g, users)
	if !ok {
		return nil
	}
	return &c26Table{root: g, consts: cs, pos: g.Pos()}
}
