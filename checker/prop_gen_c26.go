package main

// C26, generalisation of "the table is a local composite literal".
//
// Path.Decode iterates two constant tables (the regexp metacharacters to
// escape, the placeholders to scan for). The rules read the entries of those
// tables. They used to require the table to be an array literal allocated in
// Decode itself (`for _, x := range []T{...}`); the MEANING is "the elements
// iterated are these constants on every run". That also holds when the table
// is
//
//	a package-level slice variable   var t = []T{...}       (backing array built in the package initialiser)
//	a package-level array variable   var t = [...]T{...}
//	a local variable                 t := []T{...} / [...]T{...}
//
// provided nothing can change it. The premise is checked, not assumed:
//   - every element store into the backing array has a constant index and a
//     constant value, one store per index;
//   - a package variable is assigned exactly once, in the initialiser of its
//     package, and is otherwise only loaded (its address never escapes);
//   - no slice or array value obtained from the variable anywhere in the module is
//     written through (IndexAddr + Store), stored away, or re-sliced other than in full.
//
// A table that fails the premise is "not a constant table" and the rule that
// needed its entries fails as it did when no literal was found.

import (
	"fmt"
	"go/token"
	"go/types"
	"math/big"

	"golang.org/x/tools/go/ssa"
)

type c26Table struct {
	root   ssa.Value // identity of the table: backing *ssa.Alloc, or array-typed *ssa.Global
	consts map[int64]*ssa.Const
	pos    token.Pos
}

func (t *c26Table) same(u *c26Table) bool { return t != nil && u != nil && t.root == u.root }

// globalUsersOf lists, per module-level variable, every instruction of the
// module that has the variable as an operand. Cached per program.
var globalUsersCache = map[*Prog]map[*ssa.Global][]ssa.Instruction{}

func globalUsersOf(p *Prog, g *ssa.Global) []ssa.Instruction {
	m := globalUsersCache[p]
	if m == nil {
		m = map[*ssa.Global][]ssa.Instruction{}
		for f := range p.AllFuncs() {
			if !inModule(f) || f.Blocks == nil {
				continue
			}
			for _, b := range f.Blocks {
				for _, ins := range b.Instrs {
					for _, op := range ins.Operands(nil) {
						if op == nil || *op == nil {
							continue
						}
						if gg, ok := (*op).(*ssa.Global); ok {
							m[gg] = append(m[gg], ins)
						}
					}
				}
			}
		}
		globalUsersCache = map[*Prog]map[*ssa.Global][]ssa.Instruction{p: m} // keep one program only
	}
	return m[g]
}

func isPkgInit(f *ssa.Function, pkg *ssa.Package) bool {
	return f != nil && f.Pkg == pkg && f.Parent() == nil && f.Name() == "init" && f.Synthetic != ""
}

// readOnlyAggregate: the slice / array-pointer value v is only read:
// indexed for loads, measured, ranged, re-sliced in full, or passed to a call.
func readOnlyAggregate(v ssa.Value, depth int) bool {
	refs := v.Referrers()
	if refs == nil || depth > 4 {
		return refs == nil && depth <= 4
	}
	for _, r := range *refs {
		switch x := r.(type) {
		case *ssa.IndexAddr:
			if x.X != v {
				continue // used as an index: impossible for these types
			}
			for _, rr := range *x.Referrers() {
				if u, ok := rr.(*ssa.UnOp); ok && u.Op == token.MUL {
					continue
				}
				if _, ok := rr.(*ssa.DebugRef); ok {
					continue
				}
				return false // stored through, address passed on
			}
		case *ssa.Index:
		case *ssa.Slice:
			if x.X != v || x.Low != nil || x.High != nil || x.Max != nil || !readOnlyAggregate(x, depth+1) {
				return false
			}
		case *ssa.Range, *ssa.DebugRef:
		case *ssa.Call:
			// len/cap, or an argument of a call outside the module (callees of the
			// standard library that take a slice by value are trusted not to write it);
			// a module function could write through the slice it is handed
			if x.Call.Value == v || x.Call.IsInvoke() {
				return false
			}
			if bi, builtin := x.Call.Value.(*ssa.Builtin); builtin {
				switch {
				case bi.Name() == "len" || bi.Name() == "cap":
				case bi.Name() == "copy" && len(x.Call.Args) == 2 && x.Call.Args[0] != v: // source of a copy
				default:
					return false // copy into it, append to it (may write the spare capacity), clear, ...
				}
			} else {
				callee := x.Call.StaticCallee()
				if callee == nil || inModule(callee) {
					return false
				}
			}
		case *ssa.Phi:
			if !readOnlyAggregate(x, depth+1) {
				return false
			}
		default:
			return false // stored into a variable or field, sent, captured, ...
		}
	}
	return true
}

// backingConsts reads the element stores of a backing array (a local or
// initialiser Alloc, or an array-typed package variable). ok=false when an
// element is stored with a non-constant index or value, or twice.
func backingConsts(arr ssa.Value, users []ssa.Instruction) (map[int64]*ssa.Const, bool) {
	out := map[int64]*ssa.Const{}
	for _, r := range users {
		ia, ok := r.(*ssa.IndexAddr)
		if !ok || ia.X != arr {
			continue
		}
		for _, rr := range *ia.Referrers() {
			st, ok := rr.(*ssa.Store)
			if !ok {
				continue
			}
			if st.Addr != ssa.Value(ia) {
				return nil, false
			}
			idx, okI := constBig(ia.Index)
			cv, okV := st.Val.(*ssa.Const)
			if !okI || !okV {
				return nil, false
			}
			if _, dup := out[idx.Int64()]; dup {
				return nil, false
			}
			out[idx.Int64()] = cv
		}
	}
	return out, true
}

// allocTable: a backing array allocated in a function body.
func allocTable(a *ssa.Alloc) *c26Table {
	if _, isArr := a.Type().Underlying().(*types.Pointer).Elem().Underlying().(*types.Array); !isArr {
		return nil
	}
	var users []ssa.Instruction
	for _, r := range *a.Referrers() {
		users = append(users, r)
		switch x := r.(type) {
		case *ssa.IndexAddr: // element stores are vetted by backingConsts; loads are fine
			for _, rr := range *x.Referrers() {
				switch y := rr.(type) {
				case *ssa.Store:
				case *ssa.UnOp:
					if y.Op != token.MUL {
						return nil
					}
				case *ssa.DebugRef:
				default:
					return nil
				}
			}
		case *ssa.Slice:
			if x.Low != nil || x.High != nil || x.Max != nil {
				return nil
			}
		case *ssa.UnOp: // a load of the whole array is a copy: it cannot change this one
			if x.Op != token.MUL {
				return nil
			}
		case *ssa.DebugRef:
		default:
			return nil // the array escapes or is copied over
		}
	}
	cs, ok := backingConsts(a, users)
	if !ok {
		return nil
	}
	return &c26Table{root: a, consts: cs, pos: a.Pos()}
}

// c26ElemTable: v is (a conversion of) a load of an element of a constant
// table; returns the table, or nil.
func c26ElemTable(p *Prog, v ssa.Value) *c26Table {
	v = stripConv(v)
	if ix, ok := v.(*ssa.Index); ok {
		// element of an array VALUE (range over an array variable copies it first)
		if ld, ok := ix.X.(*ssa.UnOp); ok && ld.Op == token.MUL {
			switch a := ld.X.(type) {
			case *ssa.Global:
				return globalArrayTable(p, a)
			case *ssa.Alloc:
				return c26TableOf(p, a, 0)
			}
		}
		return nil
	}
	u, ok := v.(*ssa.UnOp)
	if !ok || u.Op != token.MUL {
		return nil
	}
	ia, ok := u.X.(*ssa.IndexAddr)
	if !ok {
		return nil
	}
	return c26TableOf(p, ia.X, 0)
}

func c26TableOf(p *Prog, x ssa.Value, depth int) *c26Table {
	if depth > 4 {
		return nil
	}
	switch y := x.(type) {
	case *ssa.Slice:
		if y.Low != nil || y.High != nil || y.Max != nil {
			return nil
		}
		return c26TableOf(p, y.X, depth+1)
	case *ssa.Alloc:
		// local table: slices made of it must not be written through either
		t := allocTable(y)
		if t == nil {
			return nil
		}
		for _, r := range *y.Referrers() {
			if sl, ok := r.(*ssa.Slice); ok && !readOnlyAggregate(sl, 0) {
				// a slice of a literal may be stored to a package variable (that is the
				// initialiser case, handled from the variable's side), nothing else
				return nil
			}
		}
		return t
	case *ssa.Global:
		// array-typed package variable: &g indexed directly
		return globalArrayTable(p, y)
	case *ssa.UnOp:
		if y.Op != token.MUL {
			return nil
		}
		g, ok := y.X.(*ssa.Global)
		if !ok {
			return nil
		}
		return globalSliceTable(p, g)
	}
	return nil
}

// globalSliceTable: `var g = []T{c0, c1, ...}` never reassigned or written through.
func globalSliceTable(p *Prog, g *ssa.Global) *c26Table {
	if g.Pkg == nil || !hasPrefixStr(g.Pkg.Pkg.Path(), modPath) {
		return nil
	}
	if _, isSlice := g.Type().Underlying().(*types.Pointer).Elem().Underlying().(*types.Slice); !isSlice {
		return nil
	}
	var init *ssa.Store
	for _, ins := range globalUsersOf(p, g) {
		switch x := ins.(type) {
		case *ssa.Store:
			if x.Addr != ssa.Value(g) || init != nil || !isPkgInit(x.Parent(), g.Pkg) {
				return nil // assigned outside the initialiser, twice, or its address stored
			}
			init = x
		case *ssa.UnOp:
			if x.Op != token.MUL || !readOnlyAggregate(x, 0) {
				return nil
			}
		case *ssa.DebugRef:
		default:
			return nil // address taken
		}
	}
	if init == nil {
		return nil
	}
	sl, ok := init.Val.(*ssa.Slice)
	if !ok || sl.Low != nil || sl.High != nil || sl.Max != nil {
		return nil
	}
	a, ok := sl.X.(*ssa.Alloc)
	if !ok {
		return nil
	}
	// the literal's slice has one use: the store into the variable
	if refs := sl.Referrers(); refs == nil || len(*refs) != 1 {
		return nil
	}
	t := allocTable(a)
	if t != nil {
		t.pos = g.Pos()
	}
	return t
}

// globalArrayTable: `var g = [...]T{c0, c1, ...}`.
func globalArrayTable(p *Prog, g *ssa.Global) *c26Table {
	if g.Pkg == nil || !hasPrefixStr(g.Pkg.Pkg.Path(), modPath) {
		return nil
	}
	if _, isArr := g.Type().Underlying().(*types.Pointer).Elem().Underlying().(*types.Array); !isArr {
		return nil
	}
	users := globalUsersOf(p, g)
	// the initialiser either stores the elements in place or builds the literal in
	// a temporary and copies it over in one store
	var whole *ssa.Store
	elemStores := 0
	for _, ins := range users {
		switch x := ins.(type) {
		case *ssa.Store:
			if x.Addr != ssa.Value(g) || whole != nil || !isPkgInit(x.Parent(), g.Pkg) {
				return nil
			}
			whole = x
		case *ssa.IndexAddr:
			if x.X != ssa.Value(g) {
				return nil
			}
			for _, rr := range *x.Referrers() {
				switch y := rr.(type) {
				case *ssa.Store:
					elemStores++
					if !isPkgInit(y.Parent(), g.Pkg) {
						return nil
					}
				case *ssa.UnOp:
					if y.Op != token.MUL {
						return nil
					}
				case *ssa.DebugRef:
				default:
					return nil
				}
			}
		case *ssa.Slice:
			if x.Low != nil || x.High != nil || x.Max != nil || !readOnlyAggregate(x, 0) {
				return nil
			}
		case *ssa.UnOp: // a load of the whole array is a copy (range over the array value)
			if x.Op != token.MUL {
				return nil
			}
		case *ssa.DebugRef:
		default:
			return nil
		}
	}
	if whole != nil {
		if elemStores > 0 {
			return nil
		}
		ld, ok := whole.Val.(*ssa.UnOp)
		if !ok || ld.Op != token.MUL {
			return nil
		}
		a, ok := ld.X.(*ssa.Alloc)
		if !ok {
			return nil
		}
		t := allocTable(a)
		if t == nil {
			return nil
		}
		return &c26Table{root: g, consts: t.consts, pos: g.Pos()}
	}
	cs, ok := backingConsts(g, users)
	if !ok {
		return nil
	}
	return &c26Table{root: g, consts: cs, pos: g.Pos()}
}

// ---------------------------------------------------------------------------
// C26.component, generalisation of "the conversion of a capture to a number is
// spelled `tmp, _ := strconv.ParseInt(v, 10, N); x = int(tmp)` inside the case".
//
// The rule used to follow a time.Date / time.Unix parameter through the phis of
// Path.Decode to an Extract #0 of a strconv.ParseInt call sitting IN the block
// of `case X` and fed by the loop's value, by SSA identity. Extracting the
// conversion into a helper (decodeInt(v), called once per case) puts the
// ParseInt call in another function, once for all seven cases. The MEANING is:
//
//	on the path of case X, the sink receives  number(v) * scale
//
// where number() is a decimal parse of the captured text that cannot lose
// information for the texts the capture group of X accepts. c26Leaves resolves
// the sources of a sink with the context-sensitive values of prop_gen_c42.go
// (rvalG4 / stepG4: result of a NEW helper -> the value it returns, interpreted
// for that call site; parameter -> the argument of that site; single-store
// locals), so the same helper called from seven cases yields seven distinct
// sources, each entering Decode at its own call site; the case is the one whose
// body dominates that site.
//
// "cannot lose information" used to be implicit in the frozen spelling (and the
// seeded defect that folds the 64-bit parse of %s into a 32-bit helper was only
// reported because the helper was opaque). It is now checked: every container
// the number passes on its way to the sink (the ParseInt/ParseUint bitSize,
// every integer conversion, every product by a constant) must be able to hold
// the largest text of the group, 10^W-1 for a W-digit group, times the scale
// applied inside that container. `int`/`uint` count as 32 bits (the server is
// built for 32-bit ARM), bitSize 0 likewise.

type c26Hold struct {
	outer int64 // product of the constant multipliers applied OUTSIDE this container
	bits  int   // magnitudes below 2^bits are representable
	what  string
}

type c26Leaf struct {
	x     rvalG4
	scale int64
	holds []c26Hold
}

// c26ValueBits: non-negative magnitudes below 2^n fit in the type (0: not an integer type).
func c26ValueBits(t types.Type) int {
	b, ok := t.Underlying().(*types.Basic)
	if !ok {
		return 0
	}
	switch b.Kind() {
	case types.Int8:
		return 7
	case types.Int16:
		return 15
	case types.Int32, types.Int: // int is 32 bits wide on linux/arm
		return 31
	case types.Int64:
		return 63
	case types.Uint8:
		return 8
	case types.Uint16:
		return 16
	case types.Uint32, types.Uint, types.Uintptr:
		return 32
	case types.Uint64:
		return 64
	}
	return 0
}

// c26Leaves: the values a sink argument may stand for, through conversions,
// products by a positive constant, phis, single-store locals and new helpers
// (per call site). Each leaf carries the scale and the containers passed.
func c26Leaves(v ssa.Value) []c26Leaf {
	var out []c26Leaf
	type key struct {
		v     ssa.Value
		env   string
		scale int64
	}
	seen := map[key]bool{}
	var walk func(x rvalG4, scale int64, holds []c26Hold, d int)
	walk = func(x rvalG4, scale int64, holds []c26Hold, d int) {
		hold := func(bits int, what string) {
			holds = append(holds[:len(holds):len(holds)], c26Hold{scale, bits, what})
		}
	peel:
		for n := 0; n < 64; n++ {
			switch y := x.v.(type) {
			case *ssa.Convert:
				hold(c26ValueBits(y.Type()), "conversion to "+y.Type().String())
				x.v = y.X
				continue peel
			case *ssa.ChangeType: // same underlying type: same range
				x.v = y.X
				continue peel
			case *ssa.BinOp:
				if y.Op == token.MUL {
					for _, ops := range [][2]ssa.Value{{y.X, y.Y}, {y.Y, y.X}} {
						if k, ok := constBig(ops[1]); ok && k.IsInt64() && k.Sign() > 0 && k.Int64() <= 1<<40 && scale <= 1<<20 {
							hold(c26ValueBits(y.Type()), "product of type "+y.Type().String())
							scale *= k.Int64()
							x.v = ops[0]
							continue peel
						}
					}
				}
			}
			nx, ok := stepG4(x)
			if !ok {
				break
			}
			x = nx
		}
		k := key{x.v, envKeyG4(x.env), scale}
		if seen[k] || d > 24 {
			return
		}
		seen[k] = true
		switch y := x.v.(type) {
		case *ssa.Phi:
			for _, e := range y.Edges {
				walk(rvalG4{e, x.env}, scale, holds, d+1)
			}
			return
		case *ssa.Call: // a new helper with several returns (stepG4 resolves the single-return one)
			if h := newHelperCallee(y); h != nil && h.Signature.Results().Len() == 1 && x.env.depth() <= 6 {
				for _, r := range helperReturnsG4(h) {
					walk(rvalG4{retVal(r, 0), &envG4{h, y, x.env}}, scale, holds, d+1)
				}
				return
			}
		case *ssa.Extract:
			if c, ok := y.Tuple.(*ssa.Call); ok {
				if h := newHelperCallee(c); h != nil && x.env.depth() <= 6 {
					for _, r := range helperReturnsG4(h) {
						if y.Index < len(r.Results) {
							walk(rvalG4{retVal(r, y.Index), &envG4{h, c, x.env}}, scale, holds, d+1)
						}
					}
					return
				}
			}
		}
		out = append(out, c26Leaf{x, scale, holds})
	}
	walk(rvalG4{v, nil}, 1, nil, 0)
	return out
}

// c26EntryBlock: the block of fn in which the value is computed - its own block,
// or, for a value of a new helper, the block of the call site of fn the
// surrounding helpers are interpreted for.
func c26EntryBlock(fn *ssa.Function, x rvalG4, ins ssa.Instruction) *ssa.BasicBlock {
	for e := x.env; e != nil; e = e.up {
		ins = e.site
	}
	if ins == nil || ins.Parent() != fn {
		return nil
	}
	return ins.Block()
}

// c26Number recognises a decimal parse of a string: strconv.ParseInt(s, 10, N)#0,
// strconv.ParseUint(s, 10, N)#0, strconv.Atoi(s)#0. It returns the parsed string
// (in the leaf's context), the call, and the container the parser imposes.
func c26Number(x rvalG4) (arg rvalG4, call *ssa.Call, h c26Hold, ok bool) {
	ex, isEx := x.v.(*ssa.Extract)
	if !isEx || ex.Index != 0 {
		return
	}
	cl, isC := ex.Tuple.(*ssa.Call)
	if !isC || cl.Call.IsInvoke() {
		return
	}
	name := calleeName(&cl.Call)
	switch name {
	case "strconv.Atoi":
		if len(cl.Call.Args) != 1 {
			return
		}
		return rvalG4{cl.Call.Args[0], x.env}, cl, c26Hold{bits: 31, what: "strconv.Atoi (int)"}, true
	case "strconv.ParseInt", "strconv.ParseUint":
		if len(cl.Call.Args) != 3 {
			return
		}
		base, okB := constBig(peelG4(rvalG4{cl.Call.Args[1], x.env}).v)
		size, okS := constBig(peelG4(rvalG4{cl.Call.Args[2], x.env}).v)
		if !okB || !okS || base.Int64() != 10 || !size.IsInt64() {
			return
		}
		bits := int(size.Int64())
		if bits == 0 {
			bits = 32 // the size of int, 32 on linux/arm
		}
		if bits < 0 || bits > 64 {
			bits = 64
		}
		if name == "strconv.ParseInt" {
			bits--
		}
		return rvalG4{cl.Call.Args[0], x.env}, cl, c26Hold{bits: bits, what: fmt.Sprintf("%s bitSize %d", name, size.Int64())}, true
	}
	return
}

// c26Fits: every container holds (10^width - 1) * (scale applied inside it).
func c26Fits(width int64, total int64, holds []c26Hold) string {
	if width <= 0 || width > 30 {
		return fmt.Sprintf("unknown digit count %d; ", width)
	}
	max := new(big.Int).Exp(big.NewInt(10), big.NewInt(width), nil)
	max.Sub(max, big.NewInt(1))
	bad := ""
	for _, h := range holds {
		if h.outer <= 0 || total%h.outer != 0 {
			bad += "scale of " + h.what + " not resolved; "
			continue
		}
		v := new(big.Int).Mul(max, big.NewInt(total/h.outer))
		if v.BitLen() > h.bits {
			bad += fmt.Sprintf("%s cannot hold %s (a %d-digit field); ", h.what, v.String(), width)
		}
	}
	return bad
}
