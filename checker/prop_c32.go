package main

import (
	"go/token"
	"go/types"
	"sort"
	"strings"

	"golang.org/x/tools/go/ssa"
)

// C32 - MoQ wire codecs round-trip and reject malformed input safely.
// This file: registration, the decode-function set and the safety rules
// (allocation bounds, slice/index guards, loop progress, explicit crash sites).
// prop_c32_varint.go: varint table agreement. prop_c32_wire.go: field order,
// size/write agreement and message type tables.

var c32Pkgs = []string{
	"internal/protocols/moq/varint", "internal/protocols/moq/namespace", "internal/protocols/moq/parameter",
	"internal/protocols/moq/property", "internal/protocols/moq/controlmessage", "internal/protocols/moq/subgroup",
}

const (
	c32VUnmarshal = "(*protocols/moq/varint.Varint).Unmarshal"
	c32VRead      = "(*protocols/moq/varint.Varint).Read"
)

func init() {
	register(Property{ID: "C32", Level: "other", Run: runC32,
		Technique: "static analysis: sanitizer/dominating-guard classification of every allocation length, slice bound and constant index in the decode functions (SSA), loop-progress rule on loop-carried buffers, extraction and cross-checking of the varint prefix/shift/threshold tables from the four varint functions, AST sibling agreement of marshalSize/marshalTo/unmarshal field sequences, message type tables",
		Text:      "Decides for the six MoQ wire packages: (1) in every decode function (Read/read/Unmarshal/unmarshal and their callees) each make() length that comes from a decoded varint passes a comparison with a constant limit on every path, other lengths are bounded by their static type or constants; each slice bound taken from a decoded varint passes the matching len() test of the same buffer, each bound taken from a callee's consumed count is used only after the callee's error was tested; each constant index into a buffer passes a length test; every loop carries a buffer that is advanced by at least one successfully decoded varint per iteration; no panic, single-value type assertion, Must* call, integer division by a decoded value; (2) the prefix masks/values, payload masks, shifts, sizes and thresholds of varint Read, Unmarshal, MarshalSize and MarshalTo agree for sizes 1-9 and cover the value bits exactly; (3) for every message/structure the wire operations of marshalTo, the size terms of marshalSize (and of the payload-length computation) and the read operations of unmarshal are the same field sequence; (4) the message type constants of controlmessage.Read and of each Marshal agree and the 16-bit length is written and read big-endian; (5) delta-encoded type lists (parameters, properties, SETUP options): on every control-flow path to a write of a type delta varint(X - Y), Y is the X of the most recent earlier delta write of the function and 0 when there is none (in MarshalTo and in MarshalSize), and the decode method of the same type dispatches on a loop-carried sum that starts at 0 and grows by a decoded varint per element. Not decided: value-level round trips beyond field order (e.g. absent-field defaults, lengths above 65535), io.Reader behaviour.",
		Note:      "trusted: io.ReadFull, append growth, Go slice semantics; the consumed-count contract of callee Unmarshal functions is decided for varint.Unmarshal and taken by construction (sums/differences of checked counts) elsewhere"})
}

type c32Ctx struct {
	c      *Ctx
	p      *Prog
	decode map[*ssa.Function]bool
	order  []*ssa.Function
}

func c32InPkgs(fn *ssa.Function) bool {
	pp := funcPkgPath(fn)
	for _, s := range c32Pkgs {
		if pp == pkgPath(s) {
			return true
		}
	}
	return false
}

// c32DecodeSet: functions named Read/read/Unmarshal/unmarshal of the six
// packages plus their static callees and closures inside those packages.
func c32DecodeSet(p *Prog) (map[*ssa.Function]bool, []*ssa.Function) {
	set := map[*ssa.Function]bool{}
	var work []*ssa.Function
	for _, fn := range p.ModFuncs() {
		if !c32InPkgs(fn) || fn.Synthetic != "" {
			continue
		}
		switch fn.Name() {
		case "Read", "read", "Unmarshal", "unmarshal":
			if !set[fn] {
				set[fn] = true
				work = append(work, fn)
			}
		}
	}
	for len(work) > 0 {
		fn := work[len(work)-1]
		work = work[:len(work)-1]
		add := func(g *ssa.Function) {
			if g != nil && g.Blocks != nil && c32InPkgs(g) && !set[g] {
				set[g] = true
				work = append(work, g)
			}
		}
		for _, a := range fn.AnonFuncs {
			add(a)
		}
		eachInstr(fn, func(i ssa.Instruction) {
			if cc := callCommon(i); cc != nil {
				add(cc.StaticCallee())
			}
		})
	}
	var order []*ssa.Function
	for f := range set {
		order = append(order, f)
	}
	sort.Slice(order, func(i, j int) bool { return fnName(order[i]) < fnName(order[j]) })
	return set, order
}

func runC32(c *Ctx) {
	p := c.Main()
	if p == nil {
		return
	}
	c.Explain = "C32.alloc_bound / C32.slice_guard / C32.index_guard / C32.loop_progress / C32.no_crash_site over the decode set (functions named Read/read/Unmarshal/unmarshal of the six MoQ packages and their in-package callees); " +
		"C32.varint.*: tables extracted from Read, Unmarshal, MarshalSize, MarshalTo and cross-checked per size; " +
		"C32.wire.*: AST token sequences of marshalTo / marshalSize / payload-size / unmarshal per structure; C32.msgtype.*: type constants and length framing. " +
		"C32.wire.delta_chain: backward walk over the SSA CFG from every varint(X - Y).MarshalTo/MarshalSize: Y (phi edges followed per predecessor) is the X of the last delta write on the path, the constant 0 on paths without one; C32.wire.delta_accumulate: the sibling decoder keeps acc = phi(0, acc + decoded varint) and uses the sum (type accessors such as paramType() are assumed pure). " +
		"NOT decided: value-level round trips beyond field order, behaviour for payloads above 65535 bytes, third-party readers."
	c.Assume = []string{"io.ReadFull fills the buffer or fails", "a callee Unmarshal returns a consumed count <= len(buf) when its error is nil (decided for varint.Unmarshal)"}

	x := &c32Ctx{c: c, p: p}
	x.decode, x.order = c32DecodeSet(p)
	c.Floor("C32.decode_set", len(x.order), 18)
	for _, fn := range x.order {
		c.Analysed(fnName(fn))
	}
	x.noCrashSites()
	x.allocBounds()
	x.sliceGuards()
	x.indexGuards()
	x.loopProgress()
	c32Varint(c, p)
	c32Wire(c, p)
	c32DeltaR3(c, p)
}

// ---------------------------------------------------------------------------
// explicit crash sites (E6 P1-P3, P5)

func (x *c32Ctx) noCrashSites() {
	for _, fn := range x.order {
		n := 0
		eachInstr(fn, func(i ssa.Instruction) {
			switch v := i.(type) {
			case *ssa.Panic:
				n++
				x.c.Check("C32.no_crash_site", fnName(fn)+": explicit panic", false, x.p.Pos(posOf(i, fn)), "")
			case *ssa.TypeAssert:
				if !v.CommaOk {
					n++
					x.c.Check("C32.no_crash_site", fnName(fn)+": single-value type assertion to "+typeStr(v.AssertedType), false, x.p.Pos(posOf(i, fn)), "")
				}
			case *ssa.BinOp:
				if (v.Op == token.QUO || v.Op == token.REM) && c24IsInt(v.Type()) {
					if _, isC := v.Y.(*ssa.Const); !isC {
						n++
						x.c.Check("C32.no_crash_site", fnName(fn)+": integer division by a non-constant", false, x.p.Pos(posOf(i, fn)), desc(v))
					}
				}
			}
			if cc := callCommon(i); cc != nil {
				if f := cc.StaticCallee(); f != nil && strings.HasPrefix(f.Name(), "Must") {
					n++
					x.c.Check("C32.no_crash_site", fnName(fn)+": call of "+f.Name(), false, x.p.Pos(posOf(i, fn)), "")
				}
			}
		})
		if n == 0 {
			x.c.Check("C32.no_crash_site", fnName(fn)+": no panic / unchecked assertion / Must* / non-constant division", true, x.p.Pos(fn.Pos()), "")
		}
	}
}

// ---------------------------------------------------------------------------
// comparisons of a local (decoded) variable

// c32LocalOf returns the Alloc a value is loaded from (through conversions).
func c32LocalOf(v ssa.Value) *ssa.Alloc {
	a, _ := loadOf(v).(*ssa.Alloc)
	return a
}

// c32UpperBoundEdges returns the CFG edges of fn on which `a <= C` (or a < C,
// a == C) is known for a constant C, and the largest such C.
func c32UpperBoundEdges(fn *ssa.Function, a *ssa.Alloc) (map[cfgEdge]bool, uint64) {
	edges := map[cfgEdge]bool{}
	var maxC uint64
	eachInstr(fn, func(i ssa.Instruction) {
		ifi, ok := i.(*ssa.If)
		if !ok {
			return
		}
		cond := ifi.Cond
		neg := false
		for {
			u, ok := cond.(*ssa.UnOp)
			if !ok || u.Op != token.NOT {
				break
			}
			cond = u.X
			neg = !neg
		}
		b, ok := cond.(*ssa.BinOp)
		if !ok {
			return
		}
		var k uint64
		var okC bool
		varLeft := false
		if c32LocalOf(b.X) == a {
			k, okC = constUint64(b.Y)
			varLeft = true
		} else if c32LocalOf(b.Y) == a {
			k, okC = constUint64(b.X)
		}
		if !okC {
			return
		}
		op := b.Op
		if !varLeft { // C op a  ==  a op' C
			switch op {
			case token.LSS:
				op = token.GTR
			case token.LEQ:
				op = token.GEQ
			case token.GTR:
				op = token.LSS
			case token.GEQ:
				op = token.LEQ
			}
		}
		boundedSucc := -1
		switch op {
		case token.GTR, token.GEQ: // a > C : bounded on the false edge
			boundedSucc = 1
		case token.LSS, token.LEQ, token.EQL:
			boundedSucc = 0
		}
		if boundedSucc < 0 {
			return
		}
		if neg {
			boundedSucc = 1 - boundedSucc
		}
		edges[cfgEdge{ifi.Block(), boundedSucc}] = true
		if k > maxC {
			maxC = k
		}
	})
	return edges, maxC
}

// c32StaticBound bounds a value by constants and static types only.
func c32StaticBound(v ssa.Value, depth int) (uint64, bool) {
	if depth > 6 {
		return 0, false
	}
	if k, ok := constUint64(v); ok {
		return k, true
	}
	if tm := c24TypeMax(v.Type()); tm != nil && tm.IsUint64() {
		return tm.Uint64(), true
	}
	switch y := v.(type) {
	case *ssa.Convert:
		return c32StaticBound(y.X, depth+1)
	case *ssa.ChangeType:
		return c32StaticBound(y.X, depth+1)
	case *ssa.Phi:
		var m uint64
		for _, e := range y.Edges {
			k, ok := c32StaticBound(e, depth+1)
			if !ok {
				return 0, false
			}
			if k > m {
				m = k
			}
		}
		return m, true
	case *ssa.BinOp:
		a, ok1 := c32StaticBound(y.X, depth+1)
		b, ok2 := c32StaticBound(y.Y, depth+1)
		if !ok1 || !ok2 {
			return 0, false
		}
		switch y.Op {
		case token.SUB, token.AND, token.QUO, token.REM:
			return a, true
		case token.ADD, token.OR:
			return a + b, true
		}
	}
	return 0, false
}

// ---------------------------------------------------------------------------
// allocation bounds (E5)

func (x *c32Ctx) allocBounds() {
	n := 0
	for _, fn := range x.order {
		k := 0
		eachInstr(fn, func(i ssa.Instruction) {
			ms, ok := i.(*ssa.MakeSlice)
			if !ok {
				return
			}
			n++
			k++
			key := fnName(fn) + ": make(" + typeStr(ms.Type()) + ") #" + itoa(k)
			if a := c32LocalOf(ms.Len); a != nil {
				edges, maxC := c32UpperBoundEdges(fn, a)
				reach := reachableAvoiding(fn.Blocks[0], ms.Block(), edges)
				x.c.Check("C32.alloc_bound", key+": length is a decoded value compared with a constant limit on every path", len(edges) > 0 && !reach,
					x.p.Pos(posOf(ms, fn)), sprintf("%d bounding test(s), largest limit %d", len(edges), maxC))
			} else {
				b, ok := c32StaticBound(ms.Len, 0)
				x.c.Check("C32.alloc_bound", key+": length bounded by constants / static type", ok && b <= 1<<24, x.p.Pos(posOf(ms, fn)), sprintf("len=%s bound=%d", desc(ms.Len), b))
			}
			// the capacity is allocated too (make([]T, 0, n) with a wire-supplied n panics
			// in makeslice or exhausts memory just like a length would)
			if ms.Cap != nil && ms.Cap != ms.Len {
				if a := c32LocalOf(ms.Cap); a != nil {
					edges, maxC := c32UpperBoundEdges(fn, a)
					reach := reachableAvoiding(fn.Blocks[0], ms.Block(), edges)
					x.c.Check("C32.alloc_bound", key+": capacity is a decoded value compared with a constant limit on every path", len(edges) > 0 && !reach,
						x.p.Pos(posOf(ms, fn)), sprintf("%d bounding test(s), largest limit %d", len(edges), maxC))
				} else {
					b, ok := c32StaticBound(ms.Cap, 0)
					x.c.Check("C32.alloc_bound", key+": capacity bounded by constants / static type", ok && b <= 1<<24, x.p.Pos(posOf(ms, fn)), sprintf("cap=%s bound=%d", desc(ms.Cap), b))
				}
			}
		})
	}
	x.c.Floor("C32.alloc_bound", n, 5)
}

// ---------------------------------------------------------------------------
// slice guards

func c32IsSliceOrString(t types.Type) bool {
	switch u := t.Underlying().(type) {
	case *types.Slice:
		return true
	case *types.Basic:
		return u.Info()&types.IsString != 0
	}
	return false
}

// c32LenOf: v is len(X) (through conversions) - returns X.
func c32LenOf(v ssa.Value) ssa.Value {
	v = stripConv(v)
	if cl, ok := v.(*ssa.Call); ok {
		if b, ok := cl.Call.Value.(*ssa.Builtin); ok && b.Name() == "len" && len(cl.Call.Args) == 1 {
			return cl.Call.Args[0]
		}
	}
	return nil
}

// c32LenGuardEdges: edges on which `len(buf) [- minus] >= a` holds, for
// conditions  len(buf) < a  /  len(buf) - minus < a  (false edge).
func c32LenGuardEdges(fn *ssa.Function, buf ssa.Value, a *ssa.Alloc, minus ssa.Value) map[cfgEdge]bool {
	edges := map[cfgEdge]bool{}
	eachInstr(fn, func(i ssa.Instruction) {
		ifi, ok := i.(*ssa.If)
		if !ok {
			return
		}
		b, ok := ifi.Cond.(*ssa.BinOp)
		if !ok || b.Op != token.LSS || c32LocalOf(b.Y) != a {
			return
		}
		// the decoded length is an unsigned 62/64-bit value: a comparison made
		// after converting it to a signed type is not a guard (a value >= 2^63
		// becomes negative, passes `len(buf) < n` and the slice expression panics)
		if bt, isB := b.Y.Type().Underlying().(*types.Basic); !isB || bt.Info()&types.IsUnsigned == 0 {
			if at, isA := a.Type().Underlying().(*types.Pointer); isA {
				if et, isE := at.Elem().Underlying().(*types.Basic); isE && et.Info()&types.IsUnsigned != 0 {
					return
				}
			}
		}
		if minus == nil {
			if c32LenOf(b.X) == buf {
				edges[cfgEdge{ifi.Block(), 1}] = true
			}
			return
		}
		if sub, ok := stripConv(b.X).(*ssa.BinOp); ok && sub.Op == token.SUB && c32LenOf(sub.X) == buf && stripConv(sub.Y) == stripConv(minus) {
			edges[cfgEdge{ifi.Block(), 1}] = true
		}
	})
	return edges
}

// c32ErrNilEdges: edges on which the error result of call is nil.
func c32ErrNilEdges(fn *ssa.Function, call *ssa.Call) map[cfgEdge]bool {
	edges := map[cfgEdge]bool{}
	var errv ssa.Value
	if tup, ok := call.Type().(*types.Tuple); ok {
		for _, r := range *call.Referrers() {
			if ex, ok := r.(*ssa.Extract); ok && ex.Index == tup.Len()-1 {
				errv = ex
			}
		}
	} else {
		errv = call
	}
	if errv == nil {
		return edges
	}
	eachInstr(fn, func(i ssa.Instruction) {
		ifi, ok := i.(*ssa.If)
		if !ok {
			return
		}
		cond := ifi.Cond
		neg := false
		for {
			u, ok := cond.(*ssa.UnOp)
			if !ok || u.Op != token.NOT {
				break
			}
			cond, neg = u.X, !neg
		}
		b, ok := cond.(*ssa.BinOp)
		if !ok || (b.Op != token.EQL && b.Op != token.NEQ) {
			return
		}
		if !((b.X == errv && isNilConst(b.Y)) || (b.Y == errv && isNilConst(b.X))) {
			return
		}
		nilSucc := 0
		if b.Op == token.NEQ {
			nilSucc = 1
		}
		if neg {
			nilSucc = 1 - nilSucc
		}
		edges[cfgEdge{ifi.Block(), nilSucc}] = true
	})
	return edges
}

// c32CountOf: v is the consumed count (first result) of a decode call whose
// buffer argument is buf.
func c32CountOf(v ssa.Value, buf ssa.Value) *ssa.Call {
	ex, ok := stripConv(v).(*ssa.Extract)
	if !ok || ex.Index != 0 {
		return nil
	}
	cl, ok := ex.Tuple.(*ssa.Call)
	if !ok {
		return nil
	}
	for _, a := range cl.Call.Args {
		if a == buf {
			return cl
		}
	}
	return nil
}

func (x *c32Ctx) sliceGuards() {
	n := 0
	for _, fn := range x.order {
		k := 0
		eachInstr(fn, func(i ssa.Instruction) {
			sl, ok := i.(*ssa.Slice)
			if !ok || !c32IsSliceOrString(sl.X.Type()) {
				return
			}
			for _, bnd := range []struct {
				name string
				v    ssa.Value
			}{{"low", sl.Low}, {"high", sl.High}} {
				if bnd.v == nil {
					continue
				}
				n++
				k++
				key := fnName(fn) + ": slice " + bnd.name + " bound #" + itoa(k)
				pos := x.p.Pos(posOf(sl, fn))
				v := bnd.v
				// (a) consumed count of a decode call on the same buffer, error tested
				if cl := c32CountOf(v, sl.X); cl != nil {
					e := c32ErrNilEdges(fn, cl)
					ok := len(e) > 0 && !reachableAvoiding(fn.Blocks[0], sl.Block(), e)
					x.c.Check("C32.slice_guard", key+": consumed count of "+calleeName(&cl.Call)+" used after its error was tested", ok, pos, "")
					continue
				}
				// (b) decoded local compared with len of the same buffer
				if a := c32LocalOf(v); a != nil {
					e := c32LenGuardEdges(fn, sl.X, a, nil)
					ok := len(e) > 0 && !reachableAvoiding(fn.Blocks[0], sl.Block(), e)
					x.c.Check("C32.slice_guard", key+": decoded length tested against len() of the sliced buffer", ok, pos, "bound "+desc(v)+" of "+c24Short(sl.X))
					continue
				}
				// (c) count + decoded local, guarded by len(buf) - count < local
				if add, ok := stripConv(v).(*ssa.BinOp); ok && add.Op == token.ADD {
					var cnt ssa.Value
					var a *ssa.Alloc
					if a = c32LocalOf(add.Y); a != nil {
						cnt = add.X
					} else if a = c32LocalOf(add.X); a != nil {
						cnt = add.Y
					}
					if a != nil {
						e := c32LenGuardEdges(fn, sl.X, a, cnt)
						ok := len(e) > 0 && !reachableAvoiding(fn.Blocks[0], sl.Block(), e)
						if cl := c32CountOf(cnt, sl.X); cl != nil {
							e2 := c32ErrNilEdges(fn, cl)
							ok = ok && len(e2) > 0 && !reachableAvoiding(fn.Blocks[0], sl.Block(), e2)
						} else {
							ok = false
						}
						x.c.Check("C32.slice_guard", key+": count + decoded length tested against len() of the sliced buffer", ok, pos, "bound "+c24Short(v))
						continue
					}
				}
				// (d) constant bound: needs a length test of the same buffer unless fixed by construction
				if _, isC := constUint64(v); isC {
					x.c.Check("C32.slice_guard", key+": constant bound on a buffer with a length test", x.hasLenTest(fn, sl.X, sl.Block()), pos, "")
					continue
				}
				x.c.Check("C32.slice_guard", key+": bound of recognised origin", false, pos, "unclassified bound "+desc(v))
			}
		})
	}
	x.c.Floor("C32.slice_guard", n, 20)
}

// hasLenTest: every path to block b passes an If whose condition mentions
// len(buf), or buf is a fresh make().
func (x *c32Ctx) hasLenTest(fn *ssa.Function, buf ssa.Value, b *ssa.BasicBlock) bool {
	if _, ok := buf.(*ssa.MakeSlice); ok {
		return true
	}
	edges := map[cfgEdge]bool{}
	eachInstr(fn, func(i ssa.Instruction) {
		ifi, ok := i.(*ssa.If)
		if !ok {
			return
		}
		bo, ok := ifi.Cond.(*ssa.BinOp)
		if !ok {
			return
		}
		if c32LenOf(bo.X) == buf || c32LenOf(bo.Y) == buf {
			// the side on which the buffer is "long enough": for len < n and len == 0 it is the false edge
			switch bo.Op {
			case token.LSS, token.LEQ, token.EQL:
				if c32LenOf(bo.X) == buf {
					edges[cfgEdge{ifi.Block(), 1}] = true
				} else {
					edges[cfgEdge{ifi.Block(), 0}] = true
				}
			case token.GTR, token.GEQ, token.NEQ:
				if c32LenOf(bo.X) == buf {
					edges[cfgEdge{ifi.Block(), 0}] = true
				} else {
					edges[cfgEdge{ifi.Block(), 1}] = true
				}
			}
		}
	})
	return len(edges) > 0 && !reachableAvoiding(fn.Blocks[0], b, edges)
}

// ---------------------------------------------------------------------------
// constant indices into buffers (E6 P4c)

func (x *c32Ctx) indexGuards() {
	n := 0
	for _, fn := range x.order {
		type agg struct {
			ok  bool
			pos token.Pos
			cnt int
		}
		per := map[ssa.Value]*agg{}
		var order []ssa.Value
		eachInstr(fn, func(i ssa.Instruction) {
			ia, ok := i.(*ssa.IndexAddr)
			if !ok {
				return
			}
			if _, isSl := ia.X.Type().Underlying().(*types.Slice); !isSl {
				return // arrays have static length
			}
			if _, isC := ia.Index.(*ssa.Const); !isC {
				if ph, ok := ia.Index.(*ssa.Phi); ok && strings.HasPrefix(ph.Comment, "rangeindex") {
					return
				}
				// range loops index by their own counter; other variable indices are outside this rule
				return
			}
			g := per[ia.X]
			if g == nil {
				g = &agg{ok: true, pos: posOf(ia, fn)}
				per[ia.X] = g
				order = append(order, ia.X)
			}
			g.cnt++
			if !x.hasLenTest(fn, ia.X, ia.Block()) {
				g.ok = false
				g.pos = posOf(ia, fn)
			}
		})
		for k, buf := range order {
			n++
			g := per[buf]
			what := "parameter buffer"
			if _, ok := buf.(*ssa.MakeSlice); ok {
				what = "buffer made with a computed length"
			}
			x.c.Check("C32.index_guard", fnName(fn)+": constant indices into "+what+" #"+itoa(k+1)+" follow a length test", g.ok, x.p.Pos(g.pos), sprintf("%d constant index expression(s) on %s", g.cnt, c24Short(buf)))
		}
	}
	x.c.Floor("C32.index_guard", n, 2)
}

// ---------------------------------------------------------------------------
// loop progress

func c32IsByteSlice(t types.Type) bool {
	s, ok := t.Underlying().(*types.Slice)
	if !ok {
		return false
	}
	b, ok := s.Elem().Underlying().(*types.Basic)
	return ok && b.Kind() == types.Uint8
}

// advances: following v back to the loop phi passes a re-slice whose low
// bound is the consumed count of a successful varint Unmarshal.
func c32Advances(v ssa.Value, target *ssa.Phi, seen map[ssa.Value]bool, advanced bool) bool {
	if v == ssa.Value(target) {
		return advanced
	}
	if seen[v] {
		return true // inner cycle: judged on its other inputs
	}
	seen[v] = true
	defer delete(seen, v)
	switch y := v.(type) {
	case *ssa.Slice:
		adv := advanced
		if y.Low != nil {
			if cl := c32CountOf(y.Low, y.X); cl != nil && isCallTo(cl, c32VUnmarshal) {
				adv = true
			}
		}
		return c32Advances(y.X, target, seen, adv)
	case *ssa.Phi:
		for _, e := range y.Edges {
			if !c32Advances(e, target, seen, advanced) {
				return false
			}
		}
		return true
	}
	return false // a different buffer: not the loop-carried one
}

func (x *c32Ctx) loopProgress() {
	n := 0
	for _, fn := range x.order {
		nf := 0
		for _, b := range fn.Blocks {
			// loop header: has a predecessor it dominates
			var back []int
			for k, pr := range b.Preds {
				if b.Dominates(pr) {
					back = append(back, k)
				}
			}
			if len(back) == 0 {
				continue
			}
			n++
			nf++
			okLoop := false
			detail := "no loop-carried []byte buffer"
			for _, ins := range b.Instrs {
				ph, ok := ins.(*ssa.Phi)
				if !ok {
					break
				}
				if !c32IsByteSlice(ph.Type()) {
					continue
				}
				all := true
				for _, k := range back {
					if !c32Advances(ph.Edges[k], ph, map[ssa.Value]bool{}, false) {
						all = false
					}
				}
				if all {
					okLoop = true
				} else {
					detail = "a back edge carries the buffer without consuming a successfully decoded varint"
				}
			}
			pos := fn.Pos()
			if len(b.Instrs) > 0 {
				pos = posOf(b.Instrs[len(b.Instrs)-1], fn)
			}
			x.c.Check("C32.loop_progress", fnName(fn)+": loop #"+itoa(nf)+" consumes at least one decoded varint of its buffer per iteration", okLoop, x.p.Pos(pos), detail)
		}
	}
	x.c.Floor("C32.loop_progress", n, 4)
}
