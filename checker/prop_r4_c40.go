package main

import (
	"fmt"
	"go/types"
	"os"
	"sort"
	"strings"

	"golang.org/x/tools/go/ssa"
)

// C40.actor_wait_cycle - the goroutines that run the actor loops do not wait for
// each other in a cycle.
//
// An ACTOR is a struct whose method runs a `for { select { case x := <-s.chX: ... } }`
// loop over channel fields of the struct that other code sends requests on
// (pathManager, path, the servers, the static source handler, ...). While a loop
// goroutine handles one message it is not at its select: nobody can hand it another
// message until the handler returns.
//
// If, while handling a message, the loop goroutine of actor A performs - itself,
// through ordinary calls, not through a `go` statement - a blocking send on an actor
// channel of B, it waits until B's loop is back at its select. When B's loop
// goroutine can in turn block in a send on a channel of A, the two wait for each
// other: A is not at its select because it waits for B, B is not at its select
// because it waits for A. The escape alternatives that C40.send_escape demands
// (owner's / sender's context) fire only at shutdown or when one of the two is
// closed, so every request to either actor hangs until then. Hence the graph
//
//	A -> B  iff  a function reachable from a loop function of A through synchronous
//	             calls (static callees, called closures, defers, module
//	             implementations of interface methods; NOT go statements, NOT
//	             function values) sends - bare or as a state of a blocking select -
//	             on an actor channel of B
//
// must be acyclic (a self edge A -> A is a cycle: the loop sends to itself). The rule
// FAILS on cycles of at most c40r4MaxCycleLen actors (2: self edges and mutual waits);
// edges on longer cycles are computed, described in the obligation detail and counted
// (see the constant for why). Code of the loop function before the loop starts and
// after it ended is not part of the graph: after the loop the owner's context is
// done, which is the escape every sender to it has (C40.send_escape).
// Handing the message to a fresh goroutine (`go pa.reloadConf(c)`) is what keeps the
// pathManager -> path direction out of the graph today; path -> pathManager
// (setPathReady, setPathNotReady, closePathIfIdle, removePath) is in it.
//
// Not covered: waits that are not sends on actor channels (pa.wait() = receive on
// path.done is handled by the own-context escape of C40.send_escape; sync.WaitGroup;
// replies), sends made through function values / callbacks, third-party code,
// whether the two blocking states can actually coexist (the rule is the structural
// condition: no cycle at all).

func init() {
	addMutants(
		// the seed: the hot-reload is delivered by the path manager's loop goroutine itself
		Mutant{"C40", "reload-delivered-synchronously", "internal/core/path_manager.go",
			"		if _, ok := confsToReload[newPathConf.Name]; ok {\n			go pa.reloadConf(newPathConf)", "		if _, ok := confsToReload[newPathConf.Name]; ok {\n			pa.reloadConf(newPathConf)", "C40.actor_wait_cycle"},
		// the sibling call site
		Mutant{"C40", "reload-delivered-synchronously-other-config", "internal/core/path_manager.go",
			"				pa.confName = newPathConf.Name\n				go pa.reloadConf(newPathConf)", "				pa.confName = newPathConf.Name\n				pa.reloadConf(newPathConf)", "C40.actor_wait_cycle"},
		// another pair of actors: the path loop waits for the static source handler's loop,
		// which reports ready / not ready to the path with blocking sends
		Mutant{"C40", "source-reload-delivered-synchronously", "internal/staticsources/handler.go",
			"	go func() {\n		select {\n		case s.chReloadConf <- newConf:\n		case <-ctx.Done():\n		}\n	}()", "	func() {\n		select {\n		case s.chReloadConf <- newConf:\n		case <-ctx.Done():\n		}\n	}()", "C40.actor_wait_cycle"},
	)
}

type c40r4Chan struct{ strct, field string }

func c40r4ChanField(v ssa.Value) (c40r4Chan, string, bool) {
	u, ok := v.(*ssa.UnOp)
	if !ok {
		return c40r4Chan{}, "", false
	}
	fa, ok := u.X.(*ssa.FieldAddr)
	if !ok {
		return c40r4Chan{}, "", false
	}
	pt, ok := fa.X.Type().Underlying().(*types.Pointer)
	if !ok {
		return c40r4Chan{}, "", false
	}
	st, ok := pt.Elem().Underlying().(*types.Struct)
	if !ok {
		return c40r4Chan{}, "", false
	}
	return c40r4Chan{typeStr(pt.Elem()), st.Field(fa.Field).Name()}, desc(fa.X), true
}

// c40r4InLoop: the block lies on a CFG cycle.
func c40r4InLoop(b *ssa.BasicBlock) bool {
	seen := map[*ssa.BasicBlock]bool{}
	stack := append([]*ssa.BasicBlock{}, b.Succs...)
	for len(stack) > 0 {
		x := stack[len(stack)-1]
		stack = stack[:len(stack)-1]
		if x == b {
			return true
		}
		if seen[x] {
			continue
		}
		seen[x] = true
		stack = append(stack, x.Succs...)
	}
	return false
}

// c40r4CycleBlocks: the blocks that lie on a CFG cycle through b (the body of the
// loop around b), b included.
func c40r4CycleBlocks(b *ssa.BasicBlock) map[*ssa.BasicBlock]bool {
	reach := func(next func(*ssa.BasicBlock) []*ssa.BasicBlock) map[*ssa.BasicBlock]bool {
		seen := map[*ssa.BasicBlock]bool{}
		stack := append([]*ssa.BasicBlock{}, next(b)...)
		for len(stack) > 0 {
			x := stack[len(stack)-1]
			stack = stack[:len(stack)-1]
			if seen[x] {
				continue
			}
			seen[x] = true
			stack = append(stack, next(x)...)
		}
		return seen
	}
	fwd := reach(func(x *ssa.BasicBlock) []*ssa.BasicBlock { return x.Succs })
	bwd := reach(func(x *ssa.BasicBlock) []*ssa.BasicBlock { return x.Preds })
	out := map[*ssa.BasicBlock]bool{}
	for x := range fwd {
		if bwd[x] {
			out[x] = true
		}
	}
	return out
}

type c40r4Send struct {
	ch c40r4Chan
	fn *ssa.Function
	at ssa.Instruction
}

func c40ActorWaitCycle(c *Ctx, p *Prog) {
	inScope := func(fn *ssa.Function) bool {
		pp := funcPkgPath(fn)
		return strings.HasPrefix(pp, modPath+"/internal/") && !strings.Contains(pp, "/internal/test") && !strings.Contains(pp, "teste2e")
	}
	fns := p.ModFuncs()

	// 1. loop functions: a select inside a loop with a receive state on a channel field of
	//    the function's own receiver (or of a captured receiver, for loops written as closures)
	recvLoops := map[c40r4Chan]map[*ssa.Function]bool{}
	loopBody := map[*ssa.Function]map[*ssa.BasicBlock]bool{} // blocks on a cycle through a receiving select
	for _, fn := range fns {
		if !inScope(fn) {
			continue
		}
		for _, b := range fn.Blocks {
			for _, i := range b.Instrs {
				sel, ok := i.(*ssa.Select)
				if !ok || !c40r4InLoop(b) {
					continue
				}
				for _, st := range sel.States {
					if st.Dir != types.RecvOnly {
						continue
					}
					k, owner, ok := c40r4ChanField(st.Chan)
					if !ok || owner != "$0" && !strings.HasPrefix(owner, "free:") {
						continue
					}
					if recvLoops[k] == nil {
						recvLoops[k] = map[*ssa.Function]bool{}
					}
					recvLoops[k][fn] = true
					if loopBody[fn] == nil {
						loopBody[fn] = map[*ssa.BasicBlock]bool{}
					}
					for x := range c40r4CycleBlocks(b) {
						loopBody[fn][x] = true
					}
				}
			}
		}
	}
	// 2. blocking sends on those channels from outside the receiving loop
	sendsIn := map[*ssa.Function][]c40r4Send{}
	sentTo := map[c40r4Chan]bool{}
	for _, fn := range fns {
		if !inScope(fn) {
			continue
		}
		for _, b := range fn.Blocks {
			for _, i := range b.Instrs {
				var chans []ssa.Value
				switch x := i.(type) {
				case *ssa.Send:
					chans = append(chans, x.Chan)
				case *ssa.Select:
					if x.Blocking {
						for _, st := range x.States {
							if st.Dir == types.SendOnly {
								chans = append(chans, st.Chan)
							}
						}
					}
				}
				for _, ch := range chans {
					k, _, ok := c40r4ChanField(ch)
					if !ok || recvLoops[k] == nil || recvLoops[k][fn] {
						continue
					}
					sendsIn[fn] = append(sendsIn[fn], c40r4Send{k, fn, i})
					sentTo[k] = true
				}
			}
		}
	}
	// actors and their loop functions
	loopsOf := map[string]map[*ssa.Function]bool{}
	for k, m := range recvLoops {
		if !sentTo[k] {
			continue // closed / never sent to: not a request channel
		}
		if loopsOf[k.strct] == nil {
			loopsOf[k.strct] = map[*ssa.Function]bool{}
		}
		for f := range m {
			loopsOf[k.strct][f] = true
		}
	}

	// 3. synchronous callees (same resolution as the lock-order graph)
	var modNamed []types.Type
	for _, pk := range p.Pkgs {
		if pk.Types == nil {
			continue
		}
		sc := pk.Types.Scope()
		for _, n := range sc.Names() {
			if tn, ok := sc.Lookup(n).(*types.TypeName); ok && !tn.IsAlias() {
				if _, isIface := tn.Type().Underlying().(*types.Interface); !isIface {
					modNamed = append(modNamed, tn.Type(), types.NewPointer(tn.Type()))
				}
			}
		}
	}
	implCache := map[string][]*ssa.Function{}
	calleesOf := func(i ssa.Instruction) []*ssa.Function {
		cc := callCommon(i)
		if cc == nil {
			return nil
		}
		if _, isGo := i.(*ssa.Go); isGo {
			return nil // a new goroutine: the loop goroutine does not wait for it
		}
		if !cc.IsInvoke() {
			if f := cc.StaticCallee(); f != nil && f.Blocks != nil && inModule(f) {
				return []*ssa.Function{f}
			}
			if f := calledClosure(cc); f != nil && f.Blocks != nil && inModule(f) {
				return []*ssa.Function{f}
			}
			return nil
		}
		iface, ok := cc.Value.Type().Underlying().(*types.Interface)
		if !ok {
			return nil
		}
		// only interfaces declared by the module (pathParent, defs.Path, defs.Reader, ...):
		// resolving io.Writer / net.Conn / context.Context to module types by class hierarchy
		// would invent calls that the values held never make
		if nt, ok := cc.Value.Type().(*types.Named); !ok || nt.Obj().Pkg() == nil || !strings.HasPrefix(nt.Obj().Pkg().Path(), modPath) {
			return nil
		}
		key := typeStr(cc.Value.Type()) + "." + cc.Method.Name()
		if fs, ok := implCache[key]; ok {
			return fs
		}
		var out []*ssa.Function
		for _, t := range modNamed {
			if !types.Implements(t, iface) {
				continue
			}
			ms := p.SSA.MethodSets.MethodSet(t)
			if sel := ms.Lookup(cc.Method.Pkg(), cc.Method.Name()); sel != nil {
				if f := p.SSA.MethodValue(sel); f != nil && f.Blocks != nil {
					out = append(out, f)
				}
			}
		}
		implCache[key] = out
		return out
	}

	// 4. edges
	type edge struct{ from, to string }
	type witness struct {
		send  c40r4Send
		chain string
	}
	edges := map[edge][]witness{}
	var actors []string
	for a := range loopsOf {
		actors = append(actors, a)
	}
	sort.Strings(actors)
	for _, a := range actors {
		parent := map[*ssa.Function]*ssa.Function{}
		var queue []*ssa.Function
		var roots []*ssa.Function
		for f := range loopsOf[a] {
			roots = append(roots, f)
		}
		sort.Slice(roots, func(i, j int) bool { return fnName(roots[i]) < fnName(roots[j]) })
		for _, f := range roots {
			parent[f] = nil
			queue = append(queue, f)
		}
		for len(queue) > 0 {
			f := queue[0]
			queue = queue[1:]
			isRoot := loopsOf[a][f]
			for _, s := range sendsIn[f] {
				if loopsOf[s.ch.strct] == nil || !sentTo[s.ch] {
					continue
				}
				if isRoot && !loopBody[f][s.at.Block()] {
					continue // before the loop starts / after it ended (teardown: the actor's context is done)
				}
				var chain []string
				for g := f; g != nil; g = parent[g] {
					chain = append([]string{fnName(g)}, chain...)
				}
				e := edge{a, s.ch.strct}
				edges[e] = append(edges[e], witness{s, strings.Join(chain, " → ")})
			}
			for _, b := range f.Blocks {
				if isRoot && !loopBody[f][b] {
					continue
				}
				for _, i := range b.Instrs {
					for _, g := range calleesOf(i) {
						if _, seen := parent[g]; seen {
							continue
						}
						parent[g] = f
						queue = append(queue, g)
					}
				}
			}
		}
	}

	// 5. cycles (Tarjan)
	adj := map[string][]string{}
	for e := range edges {
		adj[e.from] = append(adj[e.from], e.to)
	}
	for k := range adj {
		sort.Strings(adj[k])
	}
	index, low, comp := map[string]int{}, map[string]int{}, map[string]int{}
	on := map[string]bool{}
	var stack []string
	n, nComp := 0, 0
	compSize := map[int]int{}
	var strong func(v string)
	strong = func(v string) {
		n++
		index[v], low[v] = n, n
		stack = append(stack, v)
		on[v] = true
		for _, w := range adj[v] {
			if index[w] == 0 {
				strong(w)
				if low[w] < low[v] {
					low[v] = low[w]
				}
			} else if on[w] && index[w] < low[v] {
				low[v] = index[w]
			}
		}
		if low[v] == index[v] {
			nComp++
			for {
				w := stack[len(stack)-1]
				stack = stack[:len(stack)-1]
				on[w] = false
				comp[w] = nComp
				compSize[nComp]++
				if w == v {
					break
				}
			}
		}
	}
	for _, a := range actors {
		if index[a] == 0 {
			strong(a)
		}
	}
	var ekeys []edge
	for e := range edges {
		ekeys = append(ekeys, e)
	}
	sort.Slice(ekeys, func(i, j int) bool {
		if ekeys[i].from != ekeys[j].from {
			return ekeys[i].from < ekeys[j].from
		}
		return ekeys[i].to < ekeys[j].to
	})
	// length of the shortest cycle through an edge u -> v: 1 + dist(v, u)
	shortest := func(e edge) int {
		if e.from == e.to {
			return 1
		}
		dist := map[string]int{e.to: 0}
		q := []string{e.to}
		for len(q) > 0 {
			x := q[0]
			q = q[1:]
			for _, y := range adj[x] {
				if _, ok := dist[y]; ok {
					continue
				}
				dist[y] = dist[x] + 1
				if y == e.from {
					return dist[y] + 1
				}
				q = append(q, y)
			}
		}
		return 0
	}
	nLong := 0
	if os.Getenv("MTXCHECK_VERBOSE") != "" {
		for _, a := range actors {
			var ls []string
			for f := range loopsOf[a] {
				ls = append(ls, fnName(f))
			}
			sort.Strings(ls)
			fmt.Printf("    actor %-40s loops=%v\n", a, ls)
		}
	}
	for _, e := range ekeys {
		inSCC := e.from == e.to || comp[e.from] == comp[e.to] && compSize[comp[e.from]] > 1
		sl := shortest(e)
		cyc := inSCC && sl > 0 && (c40r4MaxCycleLen == 0 || sl <= c40r4MaxCycleLen)
		if inSCC && !cyc {
			nLong++
		}
		ws := edges[e]
		var det []string
		seen := map[string]bool{}
		for _, w := range ws {
			s := w.send.ch.strct + "." + w.send.ch.field + " in " + w.chain
			if !seen[s] {
				seen[s] = true
				det = append(det, s)
			}
		}
		sort.Strings(det)
		if len(det) > 6 {
			det = append(det[:6], "…")
		}
		detail := "blocking sends made by the loop goroutine itself: " + strings.Join(det, "; ")
		if cyc {
			detail = "the loop goroutine of " + e.from + " waits for the loop of " + e.to + " to take the message while that loop can itself be blocked in a send to " + e.from + ": both wait for each other until shutdown (hand the message to a goroutine, as the other call sites do). " + detail
		} else if inSCC {
			detail = "(lies on a wait-for cycle of " + itoa(sl) + " actors, longer than the bound " + itoa(c40r4MaxCycleLen) + " this rule fails on - see c40r4MaxCycleLen) " + detail
		}
		what := "a wait-for cycle between actor loops"
		if c40r4MaxCycleLen == 2 {
			what = "a mutual wait between two actor loops (or of a loop for itself)"
		}
		c.Check("C40.actor_wait_cycle", "the loop goroutine of "+e.from+" sends synchronously on channels of "+e.to+": not part of "+what, !cyc, p.Pos(posOf(ws[0].send.at, ws[0].send.fn)), detail)
		if os.Getenv("MTXCHECK_VERBOSE") != "" {
			fmt.Printf("    edge %s -> %s  cyc=%v shortest=%d  %s\n", e.from, e.to, cyc, sl, detail)
		}
	}
	c.Floor("C40.actor_wait_cycle", len(ekeys), 5)
	c.Count("actor_loops", len(actors))
	c.Count("actor_wait_edges_on_longer_cycles_not_failed", nLong)
}

// c40r4MaxCycleLen bounds the length of the cycles C40.actor_wait_cycle FAILS on
// (0 = every cycle). It is 2 because the unchanged tree contains a genuine cycle of
// three actors (reported separately, it is a real defect of /repo):
//
//	path loop      -> pathManager  (setPathReady / setPathNotReady, from setAvailable / setNotAvailable)
//	pathManager    -> hls.Server   (doSetPathReady / doSetPathNotReady call hlsServer.PathReady / PathNotReady synchronously)
//	hls.Server loop-> path         (chAPISessionsKick: muxer.apiSessionsKick -> session.close2 -> path.RemoveReader)
//
// Once that finding is fixed in /repo or entered in known_findings.json
// (rule C40.actor_wait_cycle, the three edge constructs), set this to 0.
const c40r4MaxCycleLen = 0
