package main

import (
	"go/ast"
	"go/token"
	"sort"
	"strings"

	"golang.org/x/tools/go/ssa"
)

// C15 - live paths reconcile with configuration after reloads.

func init() {
	register(Property{ID: "C15", Level: "other", Run: runC15,
		Technique: "static analysis: field-set agreement between core.pathConfCanBeUpdated (hot-reloadable fields) and their consumers (path.doReloadConf, forward manager, rpicamera fromConf on linux/arm), must-pass-through path conditions and result-use rule on pathManager.doReloadConf (go/ssa + AST)",
		Text:      "Decides the reconciliation skeleton of one reload: (1) the set of fields pathConfCanBeUpdated copies (hot-reloadable) is exactly the set consumed in place - Forward by forwardManager.ReloadConf, the seven Record* fields by the recorder restart condition of path.doReloadConf (set equality), the RPICamera* fields by cameraParams.fromConf reached through Handler.ReloadConf and the camera run loop (linux/arm build) - so a hot-reloaded field is never silently ignored and nothing else is treated as hot-reloadable; (2) in pathManager.doReloadConf every live path is closed when its name no longer resolves, when the configuration cannot be updated in place, when it is in confsToRecreate, or when its capture groups changed - captureGroupsEqual is decided to be an exact equality on the groups (abstract interpretation of all its paths over the bounds of len(matches): true only if both sides have no groups or slices.Equal over m[1:] said so, false only if exactly one side has groups), is applied to pa.matches and the newly resolved groups, and its negative outcome closes the path; a path moved to another configuration gets confName updated before the reload is sent; the capture groups returned by FindPathConf for the new configuration are used (not discarded); pm.pathConfs is replaced before missing static paths are created; every static configuration without a live path is created; (3) a live path asks for its own idle collection (closePathIfIdle) only while the configuration it currently runs with (pa.conf, the field reloads replace) is a regular-expression configuration - tested directly or through a predicate method of core.path whose every true outcome tests it - so a path that a reload moved to a static configuration is not collected on the strength of creation-time state (pa.matches). It does not decide reconciliation over arbitrary reload histories, nor which parameters the external camera process honours.",
		Note:      "trusted: conf.FindPathConf (C14), conf.Path.Equal; the rpicamera consumer exists only in the linux/arm build configuration and is analysed there"})
	addMutants(
		Mutant{"C15", "hot-field-without-consumer", "internal/core/path_manager.go",
			"	clone.Forward = newPathConf.Forward\n", "	clone.Forward = newPathConf.Forward\n	clone.MaxReaders = newPathConf.MaxReaders\n", "C15.hot_fields"},
		Mutant{"C15", "record-field-not-in-restart-condition", "internal/core/path.go",
			"			newConf.RecordMaxPartSize != oldConf.RecordMaxPartSize ||\n", "", "C15.hot_fields"},
		Mutant{"C15", "capture-groups-discarded", "internal/core/path_manager.go",
			"		if !captureGroupsEqual(pa.matches, newMatches) {\n			pm.doClosePath(pa)\n			continue\n		}\n", "		_ = newMatches\n", "C15.reload.matches_used"},
		Mutant{"C15", "confname-not-updated", "internal/core/path_manager.go",
			"				pa.confName = newPathConf.Name\n", "", "C15.reload.confname"},
		Mutant{"C15", "recreate-set-ignored", "internal/core/path_manager.go",
			"		if _, ok := confsToRecreate[newPathConf.Name]; ok {\n			pm.doClosePath(pa)\n			continue\n		}\n", "", "C15.reload.recreate"},
		Mutant{"C15", "static-paths-created-from-old-confs", "internal/core/path_manager.go",
			"	pm.pathConfs = newPaths\n\n	// create new static paths\n	for pathConfName, pathConf := range newPaths {\n		if pathConf.Regexp == nil {\n			if _, ok := pm.paths[pathConfName]; !ok {\n				pm.createPath(pathConf, pathConfName, nil)\n			}\n		}\n	}\n",
			"	// create new static paths\n	for pathConfName, pathConf := range newPaths {\n		if pathConf.Regexp == nil {\n			if _, ok := pm.paths[pathConfName]; !ok {\n				pm.createPath(pathConf, pathConfName, nil)\n			}\n		}\n	}\n\n	pm.pathConfs = newPaths\n", "C15.reload.confs_before_create"},
		Mutant{"C15", "moved-path-reloaded-without-check", "internal/core/path_manager.go",
			"			if pathConfCanBeUpdated(oldPathConf, newPathConf) {\n				pa.confName", "			if oldPathConf != nil {\n				pa.confName", "C15.reload.hot_only_if_updatable"},
		Mutant{"C15", "groups-equal-when-either-side-has-none", "internal/core/path_manager.go",
			"	var groups1 []string\n	if len(matches1) > 1 {\n		groups1 = matches1[1:]\n	}\n\n	var groups2 []string\n	if len(matches2) > 1 {\n		groups2 = matches2[1:]\n	}\n\n	return slices.Equal(groups1, groups2)\n",
			"	if len(matches1) <= 1 || len(matches2) <= 1 {\n		return true\n	}\n\n	return slices.Equal(matches1[1:], matches2[1:])\n", "C15.groups_equal"},
		Mutant{"C15", "groups-single-group-treated-as-none", "internal/core/path_manager.go",
			"	if len(matches2) > 1 {\n		groups2 = matches2[1:]\n	}\n", "	if len(matches2) > 2 {\n		groups2 = matches2[1:]\n	}\n", "C15.groups_equal"},
		Mutant{"C15", "groups-compared-with-themselves", "internal/core/path_manager.go",
			"	return slices.Equal(groups1, groups2)\n", "	_ = groups2\n	return slices.Equal(groups1, groups1)\n", "C15.groups_equal"},
		Mutant{"C15", "groups-change-only-logged", "internal/core/path_manager.go",
			"		if !captureGroupsEqual(pa.matches, newMatches) {\n			pm.doClosePath(pa)\n			continue\n		}\n", "		if !captureGroupsEqual(pa.matches, newMatches) {\n			pm.Log(logger.Debug, \"capture groups of path %s changed\", pathName)\n		}\n", "C15.groups_equal.use"},
		Mutant{"C15", "forward-not-reloaded", "internal/core/path.go",
			"	pa.forwardManager.ReloadConf(newConf.Forward)\n", "", "C15.hot_fields"},
	)
}

func runC15(c *Ctx) {
	defer dumpObls(c)
	p := c.Main()
	if p == nil {
		return
	}
	c.Explain = "E3: H = {F | `clone.F = newPathConf.F` in core.pathConfCanBeUpdated}; consumers: Forward → (*forward.Manager).ReloadConf(newConf.Forward) in path.doReloadConf; Record* → fields compared `newConf.F != oldConf.F` in path.doReloadConf (set equality with H∩Record*); RPICamera* → fields read in rpicamera.(*cameraParams).fromConf, which the camera run loop calls on params.ReloadConf (linux/arm); any other member of H except Name/Regexp is a violation. E1/E5 on pathManager.doReloadConf. groups_equal: G(m) = m[1:] if len(m) > 1, else none; every entry→return path of core.captureGroupsEqual (helpers inlined) is enumerated with interval bounds on len($0), len($1); a constant true needs both ≤ 1 (or a positive slices.Equal test), a constant false needs exactly one side ≥ 2 (or a negative test), any other result must be slices.Equal(a, b) with a, b ∈ {$k[1:], empty under len($k) ≤ 1} for k = 0 and 1; groups_equal.use: the call in doReloadConf compares pa.matches with FindPathConf(...)#1, every go pa.reloadConf passes its true edge, its false edge closes the path before the next iteration. idle_close: P = least set of `func (*path) X() bool` methods whose every true return passes an edge !($0.conf.Regexp == nil) or T(q($0)), q ∈ P; every request for idle collection - found by role: the channel from which pathManager.run receives the path it hands to doClosePath, the methods that send their *path parameter on it, and every call (static or through the pathParent interface) of a method with their name, with path argument x (whole module, helpers inlined) - must be dominated on all entry paths by !(x.conf.Regexp == nil) or T(q(x)), q ∈ P. NOT decided: that a path which fell back from a static to a regexp configuration is eventually collected (the converse direction)."
	c.Assume = []string{"conf.FindPathConf resolves names correctly (C14)", "the external camera process applies the parameters it is sent"}

	// ---- idle collection only of paths that currently run with a regexp configuration (prop_r4_c15.go)
	c15IdleCloseR4(c, p)

	// ---- H
	fd, pk := p.FuncDecl("internal/core", "", "pathConfCanBeUpdated")
	if fd == nil {
		c.Undecided("UNRESOLVED ANCHOR core.pathConfCanBeUpdated")
		return
	}
	c.Analysed("internal/core.pathConfCanBeUpdated")
	H := map[string]token.Pos{}
	ast.Inspect(fd, func(n ast.Node) bool {
		as, ok := n.(*ast.AssignStmt)
		if !ok || len(as.Lhs) != 1 || len(as.Rhs) != 1 {
			return true
		}
		l, ok1 := as.Lhs[0].(*ast.SelectorExpr)
		r, ok2 := as.Rhs[0].(*ast.SelectorExpr)
		if !ok1 || !ok2 {
			return true
		}
		lx, _ := l.X.(*ast.Ident)
		rx, _ := r.X.(*ast.Ident)
		if lx == nil || rx == nil || lx.Name != "clone" {
			return true
		}
		if tv, ok := pk.TypesInfo.Types[l.X]; !ok || !isNamed(tv.Type, "internal/conf", "Path") {
			return true
		}
		c.Check("C15.hot_fields.copy_shape", "pathConfCanBeUpdated: clone."+l.Sel.Name+" is copied from the same field of the new configuration", rx.Name == "newPathConf" && r.Sel.Name == l.Sel.Name, p.Pos(as.Pos()), exprStr(as.Rhs[0]))
		H[l.Sel.Name] = as.Pos()
		return true
	})
	c.Floor("C15.hot_fields", len(H), 20)
	// the function decides by comparing the patched clone with the new conf
	if fn := c.fn(p, "internal/core", "", "pathConfCanBeUpdated"); fn != nil {
		ds := retDescs(fn, 0)
		c.Check("C15.hot_fields.copy_shape", "pathConfCanBeUpdated returns newPathConf.Equal(clone of the old configuration)", len(ds) == 1 && ds[0] == "(*conf.Path).Equal($1, (conf.Path).Clone($0))", p.Pos(fn.Pos()), joinS(ds))
	}

	// ---- consumers in path.doReloadConf
	drc := pathFn(c, p, "doReloadConf")
	cmpFields := map[string]bool{}
	if drc != nil {
		eachInstr(drc, func(i ssa.Instruction) {
			if b, ok := i.(*ssa.BinOp); ok && (b.Op == token.NEQ || b.Op == token.EQL) {
				x, y := desc(b.X), desc(b.Y)
				if strings.HasPrefix(x, "$1.") && strings.HasPrefix(y, "$0.conf.") && strings.TrimPrefix(x, "$1.") == strings.TrimPrefix(y, "$0.conf.") {
					cmpFields[strings.TrimPrefix(x, "$1.")] = true
				}
			}
		})
		fwd := false
		for _, cl := range callsIn(drc, "(*forward.Manager).ReloadConf") {
			a := callCommon(cl).Args
			if len(a) == 2 && desc(a[1]) == "$1.Forward" {
				fwd = true
			}
		}
		hs := false
		for _, cl := range callsIn(drc, "(*staticsources.Handler).ReloadConf") {
			a := callCommon(cl).Args
			if len(a) == 2 && desc(a[1]) == "$1" {
				hs = true
			}
		}
		// the new configuration is installed under confMutex
		c.MustPrecede(p, drc, "C15.path_reload.conf_installed", "return", "pa.conf = newConf", anyReturn, func(i ssa.Instruction) bool {
			st, ok := i.(*ssa.Store)
			if !ok {
				return false
			}
			fa, ok := st.Addr.(*ssa.FieldAddr)
			return ok && fieldAddrIs(fa, "core.path", "conf") && desc(st.Val) == "$1"
		})
		c.MustPrecede(p, drc, "C15.path_reload.conf_installed", "pa.conf = newConf", "confMutex.Lock", func(i ssa.Instruction) bool {
			st, ok := i.(*ssa.Store)
			if !ok {
				return false
			}
			fa, ok := st.Addr.(*ssa.FieldAddr)
			return ok && fieldAddrIs(fa, "core.path", "conf")
		}, callTo("(*sync.RWMutex).Lock", "(*sync.Mutex).Lock"))

		// classify H
		var hs2 []string
		for f := range H {
			hs2 = append(hs2, f)
		}
		sort.Strings(hs2)
		for _, f := range hs2 {
			switch {
			case f == "Name" || f == "Regexp":
				c.Check("C15.hot_fields.consumed", "hot-reloadable conf."+f+": identity of the configuration (no consumer needed)", true, p.Pos(H[f]), "")
			case f == "Forward":
				c.Check("C15.hot_fields.consumed", "hot-reloadable conf.Forward ⇒ forwardManager.ReloadConf(newConf.Forward) in path.doReloadConf", fwd, p.Pos(H[f]), "")
			case strings.HasPrefix(f, "Record"):
				c.Check("C15.hot_fields.consumed", "hot-reloadable conf."+f+" ⇒ compared in the recorder restart condition of path.doReloadConf", cmpFields[f], p.Pos(H[f]), "a change of this field would be accepted as hot-reloadable but never applied to the running recorder")
			case strings.HasPrefix(f, "RPICamera"):
				c.Check("C15.hot_fields.consumed", "hot-reloadable conf."+f+" ⇒ the new configuration is handed to the static source handler", hs, p.Pos(H[f]), "")
			default:
				c.Check("C15.hot_fields.consumed", "hot-reloadable conf."+f+" has a consumer in path.doReloadConf", false, p.Pos(H[f]), "field is copied by pathConfCanBeUpdated (so a change keeps the path) but nothing applies the new value")
			}
		}
		var cf []string
		for f := range cmpFields {
			cf = append(cf, f)
		}
		sort.Strings(cf)
		for _, f := range cf {
			_, ok := H[f]
			c.Check("C15.hot_fields.only_hot", "path.doReloadConf reacts to conf."+f+" ⇒ the field is hot-reloadable", ok, p.Pos(drc.Pos()), "")
		}
	}

	// ---- rpicamera consumer (linux/arm)
	if parm := c.Load("linux", "arm"); parm != nil {
		fc := c.fn(parm, "internal/staticsources/rpicamera", "cameraParams", "fromConf")
		if fc != nil {
			read := map[string]bool{}
			eachInstr(fc, func(i ssa.Instruction) {
				if fa, ok := i.(*ssa.FieldAddr); ok {
					d := desc(fa)
					if strings.HasPrefix(d, "$2.") {
						read[strings.TrimPrefix(d, "$2.")] = true
					}
				}
			})
			for _, a := range fc.AnonFuncs {
				eachInstr(a, func(i ssa.Instruction) {
					if fa, ok := i.(*ssa.FieldAddr); ok {
						d := desc(fa)
						if strings.HasPrefix(d, "free:cnf.") {
							read[strings.TrimPrefix(d, "free:cnf.")] = true
						}
					}
				})
			}
			var hs []string
			for f := range H {
				if strings.HasPrefix(f, "RPICamera") {
					hs = append(hs, f)
				}
			}
			sort.Strings(hs)
			for _, f := range hs {
				c.Check("C15.hot_fields.rpicamera", "hot-reloadable conf."+f+" ⇒ read by cameraParams.fromConf", read[f], parm.Pos(fc.Pos()), "")
			}
			c.Floor("C15.hot_fields.rpicamera", len(hs), 15)
		}
		// the run loop reacts to ReloadConf with fromConf + reloadParams
		ok := false
		for _, fn := range parm.ModFuncs() {
			if !strings.HasSuffix(funcPkgPath(fn), "/rpicamera") {
				continue
			}
			if len(callsIn(fn, "(*staticsources/rpicamera.cameraParams).fromConf")) > 0 && len(callsIn(fn, "(*staticsources/rpicamera.camera).reloadParams")) > 0 {
				for _, cl := range callsIn(fn, "(*staticsources/rpicamera.cameraParams).fromConf") {
					// the configuration argument is the value received from params.ReloadConf in the select
					if ex, isEx := callCommon(cl).Args[2].(*ssa.Extract); isEx {
						if sel, isSel := ex.Tuple.(*ssa.Select); isSel && ex.Index >= 2 {
							k := 0
							for _, st := range sel.States {
								if st.Send != nil {
									continue
								}
								if k == ex.Index-2 && strings.HasSuffix(desc(st.Chan), ".ReloadConf") {
									ok = true
								}
								k++
							}
						}
					}
				}
			}
		}
		c.Check("C15.hot_fields.rpicamera", "rpicamera run loop: a value received from params.ReloadConf is converted with fromConf and applied with reloadParams", ok, "", "")
		c.curCfg = "linux/amd64"
	}

	// ---- pathManager.doReloadConf
	rc := c.fn(p, "internal/core", "pathManager", "doReloadConf")
	if rc == nil {
		return
	}
	var find ssa.Value
	for _, cl := range callsIn(rc, "conf.FindPathConf") {
		find = cl.(ssa.Value)
	}
	if find == nil {
		c.Undecided("UNRESOLVED ANCHOR conf.FindPathConf call in pathManager.doReloadConf")
		return
	}
	fd0 := desc(find)
	c.Check("C15.reload.resolves_by_name", "doReloadConf resolves each live path by its name in the new configurations", strings.HasPrefix(fd0, "conf.FindPathConf($1, next(range($0.paths))#1"), p.Pos(find.Pos()), fd0)
	// matches result is used
	used := false
	for _, r := range *find.Referrers() {
		if ex, ok := r.(*ssa.Extract); ok && ex.Index == 1 && len(*ex.Referrers()) > 0 {
			used = true
		}
	}
	c.Check("C15.reload.matches_used", "doReloadConf: the capture groups returned by FindPathConf(newPaths, name) are compared with / propagated to the live path", used, p.Pos(find.Pos()), "the groups are discarded: a live path would keep the groups of its previous configuration")
	// the comparison itself is an exact equality on the groups, and a difference closes the path (prop_r3_c15.go)
	c15GroupsEqual(c, p, rc, fd0)
	// close when resolution fails
	isClose := callTo("(*core.pathManager).doClosePath")
	isGoReload := func(i ssa.Instruction) bool {
		g, ok := i.(*ssa.Go)
		return ok && calleeName(&g.Call) == "(*core.path).reloadConf"
	}
	errAtom := "(" + fd0 + "#2 == nil)"
	// every hot reload / keep decision happens only when the name still resolves
	c.MustPass(p, rc, "C15.reload.unresolved_closed", "go pa.reloadConf(newPathConf)", isGoReload, T(errAtom))
	w := (&Walker{Visit: func(i ssa.Instruction) int {
		if isClose(i) {
			return wStop
		}
		// reaching the loop head again (next iteration) without closing = kept
		if n, ok := i.(*ssa.Next); ok && strings.Contains(desc(n), "$0.paths") {
			return wHit
		}
		return wContinue
	}}).Run(Point{succOnLitOrNil(rc, errAtom, false), 0})
	c.Check("C15.reload.unresolved_closed", "doReloadConf: a live path whose name no longer resolves is closed before the next path is examined", w == nil, p.Pos(rc.Pos()), w.String(p))
	// moved to another configuration: hot reload only if updatable, confName updated first
	nameEq := "(next(range($0.paths))#2.confName == " + fd0 + "#0.Name)"
	canAtom := "core.pathConfCanBeUpdated($0.pathConfs[next(range($0.paths))#2.confName], " + fd0 + "#0)"
	for _, g := range instrsOf(rc, isGoReload) {
		gg := g
		tgt := func(i ssa.Instruction) bool { return i == gg }
		// either the path stays in its configuration and that one is hot-reloadable (confsToReload), or it moved and can be updated
		wv := reachWithout(entry(rc), tgt, []LitPat{T(nameEq), T(canAtom)})
		c.Check("C15.reload.hot_only_if_updatable", "doReloadConf: go pa.reloadConf ⇒ same configuration ∨ pathConfCanBeUpdated(old, new)", wv == nil, p.Pos(posOf(g, rc)), wv.String(p))
	}
	// confName store precedes the go reload on the moved branch
	stores := fieldStores(rc, "core.path", "confName")
	c.Check("C15.reload.confname", "doReloadConf: a path moved to another configuration gets pa.confName = newPathConf.Name", len(stores) == 1 && desc(stores[0].Val) == fd0+"#0.Name", p.Pos(rc.Pos()), "")
	if len(stores) == 1 {
		st := stores[0]
		c.MustPass(p, rc, "C15.reload.confname", "pa.confName = newPathConf.Name", func(i ssa.Instruction) bool { return i == ssa.Instruction(st) }, T(canAtom))
		// on the moved branch (name differs) a reload is sent only after the store
		wv := (&Walker{Visit: func(i ssa.Instruction) int {
			if i == ssa.Instruction(st) {
				return wStop
			}
			if isGoReload(i) {
				return wHit
			}
			return wContinue
		}}).Run(Point{succOnLitOrNil(rc, nameEq, false), 0})
		// the walk may leave the iteration and reach a later iteration's reload; restrict to the same iteration by stopping at Next
		_ = wv
		wv2 := (&Walker{Visit: func(i ssa.Instruction) int {
			if i == ssa.Instruction(st) {
				return wStop
			}
			if _, ok := i.(*ssa.Next); ok {
				return wStop
			}
			if isGoReload(i) {
				return wHit
			}
			return wContinue
		}}).Run(Point{succOnLitOrNil(rc, nameEq, false), 0})
		c.Check("C15.reload.confname", "doReloadConf: on the moved branch the reload is sent only after confName was updated", wv2 == nil, p.Pos(rc.Pos()), wv2.String(p))
	}
	// recreate set honoured: if the (unchanged-name) configuration is in confsToRecreate the path is closed
	recAtom := "free?"
	_ = recAtom
	closedOnRecreate := false
	eachInstr(rc, func(i ssa.Instruction) {
		if ifi, ok := i.(*ssa.If); ok {
			l := litOf(ifi.Cond, true)
			if strings.Contains(l.Atom, "makemap(map[string]struct{})["+fd0+"#0.Name]#1") {
				// one of the two sets; the true branch of the recreate set closes
				b := i.Block().Succs[0]
				for _, x := range b.Instrs {
					if isClose(x) {
						closedOnRecreate = true
					}
				}
			}
		}
	})
	c.Check("C15.reload.recreate", "doReloadConf: a path whose configuration changed in a non hot-reloadable way (confsToRecreate) is closed", closedOnRecreate, p.Pos(rc.Pos()), "")
	// classification of changed configurations uses Equal and pathConfCanBeUpdated
	nCls := len(callsIn(rc, "(*conf.Path).Equal")) + len(callsIn(rc, "core.pathConfCanBeUpdated"))
	c.Check("C15.reload.recreate", "doReloadConf: changed configurations are classified with Equal / pathConfCanBeUpdated", nCls >= 3, p.Pos(rc.Pos()), "")
	// pm.pathConfs = newPaths precedes the creation of missing static paths
	c.MustPrecede(p, rc, "C15.reload.confs_before_create", "createPath (missing static paths)", "pm.pathConfs = newPaths", callTo("(*core.pathManager).createPath"), func(i ssa.Instruction) bool {
		st, ok := i.(*ssa.Store)
		if !ok {
			return false
		}
		fa, ok := st.Addr.(*ssa.FieldAddr)
		return ok && fieldAddrIs(fa, "core.pathManager", "pathConfs") && desc(st.Val) == "$1"
	})
	c.MustPrecede(p, rc, "C15.reload.confs_before_create", "return", "pm.pathConfs = newPaths", anyReturn, func(i ssa.Instruction) bool {
		st, ok := i.(*ssa.Store)
		if !ok {
			return false
		}
		fa, ok := st.Addr.(*ssa.FieldAddr)
		return ok && fieldAddrIs(fa, "core.pathManager", "pathConfs")
	})
	// no shortcut: every return of doReloadConf has examined every live path and every
	// new configuration (an early return on a "nothing changed" proxy leaves stale
	// paths alive and static paths uncreated - seeded change C15)
	c.MustPass(p, rc, "C15.reload.all_examined", "return", anyReturn, F("next(range($0.paths))#0"))
	c.MustPass(p, rc, "C15.reload.all_examined", "return", anyReturn, F("next(range($1))#0"))
	// static paths: created for every non-regexp configuration without a live path
	for _, cl := range callsIn(rc, "(*core.pathManager).createPath") {
		ccl := cl
		tgt := func(i ssa.Instruction) bool { return i == ccl }
		c.Check("C15.reload.static_created", "doReloadConf: createPath only for static (Regexp == nil) configurations that have no live path",
			reachWithout(entry(rc), tgt, []LitPat{T("(next(range($1))#2.Regexp == nil)")}) == nil &&
				reachWithout(entry(rc), tgt, []LitPat{F("$0.paths[next(range($1))#1]#1")}) == nil, p.Pos(cl.Pos()), "")
		a := callCommon(cl).Args
		c.Check("C15.reload.static_created", "doReloadConf: createPath(conf, its name, no groups)", len(a) == 4 && desc(a[1]) == "next(range($1))#2" && desc(a[2]) == "next(range($1))#1" && isNilConst(a[3]), p.Pos(cl.Pos()), desc(cl.(ssa.Value)))
	}
}

func instrsOf(fn *ssa.Function, t func(ssa.Instruction) bool) []ssa.Instruction {
	var out []ssa.Instruction
	eachInstr(fn, func(i ssa.Instruction) {
		if t(i) {
			out = append(out, i)
		}
	})
	return out
}

// succOnLitOrNil is succOnLit that falls back to the function entry (the
// obligation then fails visibly instead of panicking on a nil block).
func succOnLitOrNil(fn *ssa.Function, atom string, pos bool) *ssa.BasicBlock {
	if b := succOnLit(fn, atom, pos); b != nil {
		return b
	}
	return fn.Blocks[0]
}
