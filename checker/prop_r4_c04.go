package main

import (
	"go/types"
	"sort"
	"strings"

	"golang.org/x/tools/go/ssa"
)

// Round 4 - the client IP of an HTTP request is not chosen by the client.
// Shared by C04 (administrative endpoints), C03 (media servers that speak
// HTTP: HLS, WebRTC, MoQ) and C43 (HLS session IP binding).
//
// Every decision "the authentication manager admitted the client's IP" /
// "the request comes from the IP the session was created from" is taken on
// gin.Context.ClientIP(). An engine made by gin.New()/gin.Default() trusts EVERY
// peer as a proxy (0.0.0.0/0, ::/0): until SetTrustedProxies has been called on
// it, ClientIP() returns what the client wrote into X-Forwarded-For / X-Real-Ip.
// Calling SetTrustedProxies with an EMPTY list is what switches that off, so
// the call may not be skipped "when no proxy is configured".
//
// The rule is phrased over roles and holds for every gin engine of the module
// (the engines are enumerated, not listed):
//   - engine    = a call of gin.New / gin.Default in a module function;
//   - handlers  = the func(*gin.Context) values of the module passed to calls in
//     the constructing function (attributed to the engine they are installed on
//     when the function builds several engines);
//   - exposed   = from a handler, following static calls, closures, bound
//     methods and interface calls into the module, a call of
//     gin.Context.ClientIP is reachable - or the context escapes (channel send,
//     store outside a local, dynamic call) so that it cannot be excluded;
//   - served    = the server object the engine was stored into (field Handler)
//     is initialised, or engine.Run* is called; when the function does not start
//     the server itself, the store of the engine into the Handler field;
//   - configured= engine.SetTrustedProxies(L) with L = recv.<F>.ToTrustedProxies()
//     for a receiver field F of type conf.IPNetworks (or nil: trust nobody).
// Obligation: for every exposed engine, `served` is preceded on every path by
// `configured`; every SetTrustedProxies call on it passes such an L; when F is
// an unexported field, every store to it in the module copies a field named
// TrustedProxies of type conf.IPNetworks (the component's configured list).
// An engine whose handlers provably never read ClientIP (MoQ's HTTP/3 engine:
// the session address is the QUIC peer's) needs no list and is recorded as such.

type ginEngineR4 struct {
	fn       *ssa.Function
	call     *ssa.Call
	handlers []*ssa.Function
	label    string
	exposed  string // "" = handlers provably never read ClientIP; otherwise why
}

func isGinCtxNamedR4(n *types.Named) bool {
	return n.Obj().Name() == "Context" && n.Obj().Pkg() != nil && n.Obj().Pkg().Path() == "github.com/gin-gonic/gin"
}

// mentionsGinCtxR4: a value of this type can carry a *gin.Context.
func mentionsGinCtxR4(t types.Type) bool {
	seen := map[types.Type]bool{}
	var rec func(t types.Type) bool
	rec = func(t types.Type) bool {
		t = types.Unalias(t)
		if t == nil || seen[t] {
			return false
		}
		seen[t] = true
		switch x := t.(type) {
		case *types.Named:
			if isGinCtxNamedR4(x) {
				return true
			}
			if x.Obj().Pkg() != nil && !strings.HasPrefix(x.Obj().Pkg().Path(), modPath) {
				return false // foreign types do not hold our contexts (net/http.Request, ...)
			}
			return rec(x.Underlying())
		case *types.Pointer:
			return rec(x.Elem())
		case *types.Slice:
			return rec(x.Elem())
		case *types.Array:
			return rec(x.Elem())
		case *types.Chan:
			return rec(x.Elem())
		case *types.Map:
			return rec(x.Key()) || rec(x.Elem())
		case *types.Struct:
			for i := 0; i < x.NumFields(); i++ {
				if rec(x.Field(i).Type()) {
					return true
				}
			}
		}
		return false
	}
	return rec(t)
}

// ginHandlerFnR4: v is a function value of the module with the signature of
// gin.HandlerFunc.
func ginHandlerFnR4(v ssa.Value) *ssa.Function {
	if v == nil {
		return nil
	}
	var f *ssa.Function
	switch x := stripConv(v).(type) {
	case *ssa.MakeClosure:
		f, _ = x.Fn.(*ssa.Function)
	case *ssa.Function:
		f = x
	}
	if f == nil || f.Blocks == nil {
		return nil
	}
	sig := f.Signature
	if sig.Params().Len() != 1 || sig.Results().Len() != 0 {
		return nil
	}
	pt, ok := types.Unalias(sig.Params().At(0).Type()).(*types.Pointer)
	if !ok {
		return nil
	}
	n, ok := types.Unalias(pt.Elem()).(*types.Named)
	if !ok || !isGinCtxNamedR4(n) {
		return nil
	}
	return f
}

func isGinNewR4(i ssa.Instruction) bool {
	_, ok := i.(*ssa.Call)
	return ok && isCallTo(i, "github.com/gin-gonic/gin.New", "github.com/gin-gonic/gin.Default")
}

// ginEnginesR4 enumerates the gin engines constructed by module functions
// (functions extracted from a baseline function count as part of it).
func ginEnginesR4(p *Prog) []*ginEngineR4 {
	var out []*ginEngineR4
	var methods map[string][]*ssa.Function
	for _, fn := range p.ModFuncs() {
		var engs []*ginEngineR4
		eachInstr(fn, func(i ssa.Instruction) {
			if isGinNewR4(i) {
				engs = append(engs, &ginEngineR4{fn: fn, call: i.(*ssa.Call)})
			}
		})
		if len(engs) == 0 {
			continue
		}
		// the engine a router value belongs to
		var engineOf func(v ssa.Value, depth int) *ginEngineR4
		engineOf = func(v ssa.Value, depth int) *ginEngineR4 {
			if v == nil || depth > 8 {
				return nil
			}
			v = deref(v)
			for _, e := range engs {
				if v == ssa.Value(e.call) {
					return e
				}
			}
			switch x := v.(type) {
			case *ssa.FieldAddr: // &engine.RouterGroup
				return engineOf(x.X, depth+1)
			case *ssa.Call: // engine.Group(...), group.Group(...), group.Use(...)
				if n := calleeName(&x.Call); strings.HasPrefix(n, "(*github.com/gin-gonic/gin.") && len(x.Call.Args) > 0 {
					return engineOf(x.Call.Args[0], depth+1)
				}
			}
			return nil
		}
		eachInstr(fn, func(i ssa.Instruction) {
			cc := callCommon(i)
			if cc == nil {
				return
			}
			var hs []*ssa.Function
			for _, a := range cc.Args {
				if h := ginHandlerFnR4(a); h != nil {
					hs = append(hs, h)
				}
				for _, el := range variadicElems(a) {
					if h := ginHandlerFnR4(el); h != nil {
						hs = append(hs, h)
					}
				}
			}
			if len(hs) == 0 {
				return
			}
			var owner *ginEngineR4
			if len(engs) == 1 {
				owner = engs[0]
			} else if len(cc.Args) > 0 {
				owner = engineOf(cc.Args[0], 0)
			}
			for _, e := range engs {
				if owner == nil || owner == e { // unknown receiver: every engine of the function
					e.handlers = append(e.handlers, hs...)
				}
			}
		})
		for _, e := range engs {
			var names []string
			seen := map[string]bool{}
			for _, h := range e.handlers {
				n := strings.TrimSuffix(h.Name(), "$bound")
				if !seen[n] {
					seen[n] = true
					names = append(names, n)
				}
			}
			sort.Strings(names)
			e.label = "gin engine"
			if len(engs) > 1 { // told apart by what they serve
				e.label += " [" + strings.Join(names, ", ") + "]"
			}
			if methods == nil {
				methods = moduleMethodsR4(p)
			}
			e.exposed = ginExposedR4(methods, e.handlers)
		}
		out = append(out, engs...)
	}
	return out
}

// moduleMethodsR4: module methods by name (for interface calls). Not cached:
// a cache would keep a released program alive.
func moduleMethodsR4(p *Prog) map[string][]*ssa.Function {
	m := map[string][]*ssa.Function{}
	for _, f := range p.ModFuncs() {
		if f.Signature.Recv() != nil && f.Parent() == nil {
			m[f.Name()] = append(m[f.Name()], f)
		}
	}
	return m
}

// ginExposedR4 decides whether a gin.Context.ClientIP() call can be executed on
// a context handled by one of the handlers. "" = no.
func ginExposedR4(methods map[string][]*ssa.Function, handlers []*ssa.Function) string {
	const clientIP = "(*github.com/gin-gonic/gin.Context).ClientIP"
	seen := map[*ssa.Function]bool{}
	work := append([]*ssa.Function(nil), handlers...)
	direct, escape := "", ""
	push := func(f *ssa.Function) {
		if f == nil || f.Blocks == nil || seen[f] {
			return
		}
		if pp := funcPkgPath(f); pp != "" && !strings.HasPrefix(pp, modPath) {
			return
		}
		work = append(work, f)
	}
	for len(work) > 0 {
		f := work[len(work)-1]
		work = work[:len(work)-1]
		if f == nil || seen[f] {
			continue
		}
		seen[f] = true
		who := strings.TrimSuffix(funcRefName(f), "$bound")
		for _, b := range f.Blocks {
			for _, i := range b.Instrs {
				switch x := i.(type) {
				case *ssa.MakeClosure:
					if g, ok := x.Fn.(*ssa.Function); ok {
						push(g)
					}
				case *ssa.Send:
					if escape == "" && mentionsGinCtxR4(x.X.Type()) {
						escape = "the context is sent on a channel in " + who
					}
				case *ssa.MapUpdate:
					if escape == "" && mentionsGinCtxR4(x.Value.Type()) {
						escape = "the context is stored into a map in " + who
					}
				case *ssa.Store:
					if escape == "" && mentionsGinCtxR4(x.Val.Type()) {
						root, _ := accessPath(x.Addr)
						if _, local := root.(*ssa.Alloc); !local {
							escape = "the context is stored outside a local in " + who
						}
					}
				}
				cc := callCommon(i)
				if cc == nil {
					continue
				}
				if cc.IsInvoke() {
					it, _ := cc.Value.Type().Underlying().(*types.Interface)
					for _, g := range methods[cc.Method.Name()] {
						rt := g.Signature.Recv().Type()
						if it == nil || types.Implements(rt, it) || types.Implements(types.NewPointer(rt), it) {
							push(g)
						}
					}
					continue
				}
				if g := cc.StaticCallee(); g != nil {
					if calleeName(cc) == clientIP && direct == "" {
						direct = who + " reads ctx.ClientIP()"
					}
					push(g)
					continue
				}
				if _, isBuiltin := cc.Value.(*ssa.Builtin); isBuiltin {
					continue
				}
				// dynamic call: only a problem when it is handed the context
				if escape == "" {
					for _, a := range cc.Args {
						if mentionsGinCtxR4(a.Type()) {
							escape = "the context is passed to a function value in " + who
						}
					}
				}
			}
		}
	}
	if direct != "" {
		return direct
	}
	return escape
}

// ginClientIPR4 records, under rule prefix <prop>.client_ip, the obligations
// of every engine constructed in a package selected by sel, and returns the
// number of engines that must be (and were checked to be) configured.
func (c *Ctx) ginClientIPR4(p *Prog, prop string, sel func(pkgPath string) bool) int {
	rule := prop + ".client_ip.trusted_proxies"
	const setTP = "(*" + ginEngine + ").SetTrustedProxies"
	n := 0
	for _, e := range ginEnginesR4(p) {
		if !sel(strings.TrimPrefix(funcPkgPath(e.fn), modPath+"/")) {
			continue
		}
		fn, name := e.fn, fnName(e.fn)
		c.Analysed(name)
		if e.exposed == "" {
			why := itoa(len(e.handlers)) + " handler(s) walked"
			if len(e.handlers) == 0 {
				why = "an engine without module handlers cannot be classified"
			}
			c.Check(rule, name+": "+e.label+" needs no proxy list: no handler installed on it can reach ctx.ClientIP()", len(e.handlers) > 0, p.Pos(e.call.Pos()), why)
			continue
		}
		n++
		single := 0
		eachInstr(fn, func(i ssa.Instruction) {
			if isGinNewR4(i) {
				single++
			}
		})
		engDesc := desc(e.call)
		isEngine := func(v ssa.Value) bool {
			d := deref(v)
			return d == ssa.Value(e.call) || (single == 1 && desc(d) == engDesc)
		}
		// the server object(s) the engine is installed in
		var servers []ssa.Value
		eachInstr(fn, func(i ssa.Instruction) {
			if st, ok := i.(*ssa.Store); ok {
				if fa, ok := st.Addr.(*ssa.FieldAddr); ok && fieldAddrIs(fa, "", "Handler") && isEngine(st.Val) {
					servers = append(servers, fa.X)
				}
			}
		})
		sameServer := func(a ssa.Value) bool {
			if single == 1 || len(servers) == 0 {
				return true
			}
			for _, s := range servers {
				if deref(a) == s {
					return true
				}
			}
			// `recv.inner = &httpp.Server{...}; recv.inner.Initialize()`: a is a
			// load of an address some server object was stored to
			u, ok := stripConv(a).(*ssa.UnOp)
			if !ok {
				return true // a server that cannot be identified counts for every engine
			}
			identified, mine := false, false
			eachInstr(fn, func(i ssa.Instruction) {
				st, ok := i.(*ssa.Store)
				if !ok || desc(st.Addr) != desc(u.X) {
					return
				}
				identified = true
				for _, s := range servers {
					if deref(st.Val) == s {
						mine = true
					}
				}
			})
			return mine || !identified
		}
		// started: the server the engine is installed in begins to accept requests
		started := func(i ssa.Instruction) bool {
			cc := callCommon(i)
			if cc == nil || len(cc.Args) == 0 {
				return false
			}
			cn := calleeName(cc)
			if strings.HasPrefix(cn, "(*"+ginEngine+").Run") {
				return isEngine(cc.Args[0])
			}
			if cn == "(*protocols/httpp.Server).Initialize" || cn == "(*protocols/httpp3.Server).Initialize" {
				return sameServer(cc.Args[0])
			}
			return false
		}
		nStart := 0
		eachInstr(fn, func(i ssa.Instruction) {
			if started(i) {
				nStart++
			}
		})
		// served: the start of the server; when the function does not start it
		// itself, the point where the engine leaves it as somebody's Handler
		served := func(i ssa.Instruction) bool {
			if nStart > 0 {
				return started(i)
			}
			if st, ok := i.(*ssa.Store); ok {
				if fa, ok := st.Addr.(*ssa.FieldAddr); ok && fieldAddrIs(fa, "", "Handler") && isEngine(st.Val) {
					return true
				}
			}
			return false
		}
		okList := func(v ssa.Value) bool {
			if isNilConst(v) {
				return true // trust nobody
			}
			d := desc(v)
			const pre = "(*conf.IPNetworks).ToTrustedProxies($0."
			if !strings.HasPrefix(d, pre) || !strings.HasSuffix(d, ")") {
				return false
			}
			f := d[len(pre) : len(d)-1]
			return f != "" && !strings.ContainsAny(f, ".([ ")
		}
		configured := func(i ssa.Instruction) bool {
			if !isCallTo(i, setTP) {
				return false
			}
			a := callCommon(i).Args
			return len(a) == 2 && isEngine(a[0]) && okList(a[1])
		}
		c.MustPrecede(p, fn, rule, "the "+e.label+" is handed to / started by the HTTP server",
			// otherwise ClientIP() - the IP the permission / the session binding is decided on - is chosen by the client
			"engine.SetTrustedProxies(recv.<configured IPNetworks>.ToTrustedProxies())",
			served, configured)
		// every SetTrustedProxies call on the engine installs the configured list
		eachInstr(fn, func(i ssa.Instruction) {
			if !isCallTo(i, setTP) {
				return
			}
			a := callCommon(i).Args
			if len(a) != 2 || !isEngine(a[0]) {
				return
			}
			c.Check(rule, name+": SetTrustedProxies on the "+e.label+" installs the component's configured list (recv.<field of type conf.IPNetworks>.ToTrustedProxies()) or none", okList(a[1]), p.Pos(i.Pos()),
				"got "+desc(a[1])+"; "+e.exposed+", so a wider list lets peers choose the address they are admitted with")
			c.ginProxyFieldR4(p, rule, name, a[1], i)
		})
	}
	return n
}

// ginProxyFieldR4: when the list handed to SetTrustedProxies is an unexported
// field of a private server object, that field only ever receives the
// TrustedProxies field of the component configured by Core.
func (c *Ctx) ginProxyFieldR4(p *Prog, rule, name string, list ssa.Value, at ssa.Instruction) {
	cl := asCall(stripConv(list))
	if cl == nil || len(cl.Call.Args) != 1 {
		return
	}
	fa, ok := cl.Call.Args[0].(*ssa.FieldAddr)
	if !ok {
		return
	}
	pt, ok := fa.X.Type().Underlying().(*types.Pointer)
	if !ok {
		return
	}
	st, ok := pt.Elem().Underlying().(*types.Struct)
	if !ok {
		return
	}
	fld := st.Field(fa.Field)
	if fld.Exported() {
		return // set by Core.createResources from the configuration
	}
	key := typeStr(pt.Elem()) + "." + fld.Name()
	for _, s := range p.index().fieldStores[key] {
		_, f, _, isLoad := fieldLoad(s.Val)
		c.Check(rule, name+": "+key+" (the list given to SetTrustedProxies) is a copy of the component's TrustedProxies", isLoad && f == "TrustedProxies" && typeStr(s.Val.Type()) == "conf.IPNetworks",
			p.Pos(s.Pos()), "got "+desc(s.Val))
	}
}

// ginEngineFieldsR4: no function of the module switches a gin engine to a mode
// in which ClientIP() is read from a request header of any peer.
func (c *Ctx) ginEngineFieldsR4(p *Prog, prop string) {
	rule := prop + ".client_ip.engine_fields"
	n := 0
	for _, f := range p.ModFuncs() {
		for _, fld := range []string{"TrustedPlatform", "RemoteIPHeaders", "ForwardedByClientIP"} {
			for _, st := range fieldStores(f, ginEngine, fld) {
				n++
				c.Check(rule, "store to gin.Engine."+fld+" in "+fnName(f), false, p.Pos(st.Pos()), "changes the headers / peers ctx.ClientIP() trusts; the client IP must come from the connection or from a configured proxy only")
			}
		}
	}
	c.Check(rule, "module never writes gin.Engine.TrustedPlatform / RemoteIPHeaders / ForwardedByClientIP", n == 0, "", itoa(n)+" store(s)")
}

// isMediaServerPkgR4: engines of the media servers (C03); every other engine
// of the module is an administrative endpoint (C04).
func isMediaServerPkgR4(pkg string) bool { return strings.HasPrefix(pkg, "internal/servers/") }

// c04NoBypassR4: the middleware / doAuth lets a request through (returns
// without the 401 abort) only over the edge on which its Authenticate call
// returned a nil error. A cached / remembered earlier decision, a header or an
// address that skips the call is a path from the entry to a return that carries
// neither - whatever it is keyed on, it is not the decision of the
// authentication manager on THIS request's credentials.
func (c *Ctx) c04NoBypassR4(p *Prog, fn *ssa.Function, pkg, recv string) {
	var auth ssa.Instruction
	eachInstr(fn, func(i ssa.Instruction) {
		if cc := callCommon(i); cc != nil && cc.IsInvoke() && cc.Method.Name() == "Authenticate" {
			auth = i
		}
	})
	if auth == nil {
		return // reported by c04FailAborts
	}
	okAtom := "(" + desc(auth.(ssa.Value)) + "#1 == nil)"
	abortName := "(*" + shortPkgOf(pkg) + "." + recv + ").writeErrorNoLog"
	c.MustFollow(p, fn, "C04.no_bypass", "every return is preceded by writeErrorNoLog(ctx, 401, …) or by the nil-error edge of this request's Authenticate call", entry(fn), anyReturn,
		func(i ssa.Instruction) bool {
			if !isCallTo(i, abortName) {
				return false
			}
			a := callCommon(i).Args
			return len(a) >= 3 && desc(a[1]) == "$1" && desc(a[2]) == "401"
		},
		func(l Lit) bool { return !(l.Pos && atomMatch(okAtom, l.Atom)) })
}
