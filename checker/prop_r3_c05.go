package main

import (
	"sort"
	"strings"

	"golang.org/x/tools/go/ssa"
)

// C05 (round 3) - the allow-list the CORS decision is taken on is the
// configured one, also after a hot reload.
//
// isOriginAllowed is exact only with respect to the list it is handed. That
// list is copied at creation time: conf.<X>AllowOrigins -> component literal in
// Core.createResources -> httpp.Server.AllowOrigins -> handlerOrigin. A reload
// replaces the configuration but keeps a component unless Core.closeResources
// decides to close it (createResources then builds it again from the new
// configuration). So for every component whose AllowOrigins is taken from
// conf field F, the decision to close that component must depend on a
// comparison of F between the new and the current configuration - otherwise a
// reload that changes only F keeps echoing origins that are no longer allowed.
//
// The rule is phrased over roles, on SSA:
//   - component  = a struct allocated in createResources that is stored into a
//     Core field and has a field named AllowOrigins;
//   - F          = the conf.Conf field loaded into that AllowOrigins;
//   - close site = a call of a method named Close on that Core field in
//     closeResources;
//   - the conditions that dominate the close site, expanded through boolean
//     phis (||, && chains, or-ed close flags), calls of module predicates and
//     negations, must contain `F of one configuration compared with F of
//     another configuration` (==, !=, slices.Equal, reflect.DeepEqual).
// Reordering disjuncts, DeepEqual instead of slices.Equal, an extracted
// predicate function or an extra or-ed flag do not change the verdict.

type c05Component struct {
	coreField string // field of core.Core the component is stored into
	typ       string // component type
	confField string // conf.Conf field its AllowOrigins is loaded from
	store     *ssa.Store
}

// c05ConfFieldLoad: v is a load of a field of conf.Conf; returns the field name
// and the description of the configuration it is read from.
func c05ConfFieldLoad(v ssa.Value) (field, base string, ok bool) {
	sn, f, b, isLoad := fieldLoad(v)
	if !isLoad || sn != "conf.Conf" {
		return "", "", false
	}
	return f, desc(b), true
}

// c05Compared: cond (negations stripped) compares field F of two different
// configurations; returns F.
func c05Compared(v ssa.Value) (string, bool) {
	var a, b ssa.Value
	switch x := v.(type) {
	case *ssa.BinOp:
		if op := x.Op.String(); op != "==" && op != "!=" {
			return "", false
		}
		a, b = x.X, x.Y
	case *ssa.Call:
		n := calleeName(&x.Call)
		if !(n == "reflect.DeepEqual" || n == "slices.Equal" || strings.HasPrefix(n, "slices.Equal[")) || len(x.Call.Args) != 2 {
			return "", false
		}
		a, b = x.Call.Args[0], x.Call.Args[1]
	default:
		return "", false
	}
	fa, ba, oka := c05ConfFieldLoad(a)
	fb, bb, okb := c05ConfFieldLoad(b)
	if !oka || !okb || fa != fb || ba == bb {
		return "", false
	}
	return fa, true
}

// c05CondLeaves expands a boolean value into the elementary conditions it is
// computed from: negation, boolean phis (the If conditions of the region
// between the phi block's immediate dominator and the phi block, and the
// non-constant incoming values), and calls of module functions returning the
// value (their returned values).
func c05CondLeaves(v ssa.Value, seen map[ssa.Value]bool, out *[]ssa.Value) {
	if v == nil || seen[v] {
		return
	}
	seen[v] = true
	switch x := v.(type) {
	case *ssa.Const:
		return
	case *ssa.UnOp:
		if x.Op.String() == "!" {
			c05CondLeaves(x.X, seen, out)
			return
		}
		if a, ok := x.X.(*ssa.Alloc); x.Op.String() == "*" && ok {
			// a flag kept in a local variable: every value stored into it
			for _, r := range *a.Referrers() {
				if st, ok := r.(*ssa.Store); ok && st.Addr == ssa.Value(a) {
					c05CondLeaves(st.Val, seen, out)
					for _, g := range guardsOfBlock(st.Block()) {
						c05CondLeaves(g.Cond, seen, out)
					}
				}
			}
			return
		}
	case *ssa.Phi:
		d := x.Block()
		for _, e := range x.Edges {
			c05CondLeaves(e, seen, out)
		}
		s := d.Idom()
		if s == nil {
			return
		}
		// blocks on a path s -> d
		fw := map[*ssa.BasicBlock]bool{s: true}
		work := []*ssa.BasicBlock{s}
		for len(work) > 0 {
			b := work[len(work)-1]
			work = work[:len(work)-1]
			for _, n := range b.Succs {
				if n != d && !fw[n] {
					fw[n] = true
					work = append(work, n)
				}
			}
		}
		bw := map[*ssa.BasicBlock]bool{}
		work = append(work[:0], d.Preds...)
		for len(work) > 0 {
			b := work[len(work)-1]
			work = work[:len(work)-1]
			if bw[b] || !fw[b] {
				continue
			}
			bw[b] = true
			if b != s {
				work = append(work, b.Preds...)
			}
		}
		for b := range bw {
			if ifi := ifOf(b); ifi != nil {
				c05CondLeaves(ifi.Cond, seen, out)
			}
		}
		return
	case *ssa.Call:
		if f := x.Call.StaticCallee(); f != nil && inModule(f) && f.Blocks != nil && !x.Call.IsInvoke() {
			if _, ok := c05Compared(v); !ok {
				for _, b := range f.Blocks {
					for _, ins := range b.Instrs {
						if r, ok := ins.(*ssa.Return); ok && len(r.Results) >= 1 {
							c05CondLeaves(r.Results[0], seen, out)
							for _, g := range guardsOfBlock(b) {
								c05CondLeaves(g.Cond, seen, out)
							}
						}
					}
				}
				return
			}
		}
	}
	*out = append(*out, v)
}

func (c *Ctx) c05Reload(p *Prog) {
	cr := c.fn(p, "internal/core", "Core", "createResources")
	cl := c.fn(p, "internal/core", "Core", "closeResources")
	if cr == nil || cl == nil {
		return
	}
	// ---- components that receive an allow-list
	var comps []c05Component
	eachInstr(cr, func(i ssa.Instruction) {
		st, ok := i.(*ssa.Store)
		if !ok {
			return
		}
		fa, ok := st.Addr.(*ssa.FieldAddr)
		if !ok || !fieldAddrIs(fa, "", "AllowOrigins") {
			return
		}
		cm := c05Component{store: st, typ: strings.TrimPrefix(typeStr(fa.X.Type()), "*")}
		if f, _, ok := c05ConfFieldLoad(st.Val); ok {
			cm.confField = f
		}
		// the Core field the component is published in
		eachInstr(cr, func(j ssa.Instruction) {
			st2, ok := j.(*ssa.Store)
			if !ok || stripConv(st2.Val) != fa.X {
				return
			}
			if fa2, ok := st2.Addr.(*ssa.FieldAddr); ok && fieldAddrIs(fa2, "core.Core", fieldAddrName(fa2)) {
				cm.coreField = fieldAddrName(fa2)
			}
		})
		comps = append(comps, cm)
	})
	c.Floor("C05.config.components", len(comps), 7)
	sort.Slice(comps, func(i, j int) bool { return comps[i].typ < comps[j].typ })

	for _, cm := range comps {
		what := "core.createResources: " + cm.typ
		if !c.Check("C05.config.source", what+".AllowOrigins is loaded from a field of the configuration", cm.confField != "", p.Pos(cm.store.Pos()), "got "+desc(cm.store.Val)) {
			continue
		}
		if !c.Check("C05.config.source", what+" is kept in a field of Core", cm.coreField != "", p.Pos(cm.store.Pos()), "") {
			continue
		}
		// ---- close sites of the component
		var sites []*ssa.Call
		eachInstr(cl, func(i ssa.Instruction) {
			cc, ok := i.(*ssa.Call)
			if !ok || cc.Call.IsInvoke() && cc.Call.Method.Name() != "Close" {
				return
			}
			if !cc.Call.IsInvoke() {
				f := cc.Call.StaticCallee()
				if f == nil || f.Name() != "Close" {
					return
				}
			}
			if a := argN(&cc.Call, 0); a != nil && desc(a) == "$0."+cm.coreField {
				sites = append(sites, cc)
			}
		})
		key := "core.closeResources: closing Core." + cm.coreField + " depends on a comparison of conf." + cm.confField + " (its AllowOrigins) between the new and the current configuration"
		if len(sites) == 0 {
			c.Check("C05.config.reload", key, false, p.Pos(cl.Pos()), "no Close call on Core."+cm.coreField+" in closeResources: the component, and with it the allow-list, is never replaced on reload")
			continue
		}
		for _, site := range sites {
			var leaves []ssa.Value
			seen := map[ssa.Value]bool{}
			for _, g := range guardsOfBlock(site.Block()) {
				c05CondLeaves(g.Cond, seen, &leaves)
			}
			found := false
			var compared []string
			dup := map[string]bool{}
			for _, l := range leaves {
				if f, ok := c05Compared(l); ok {
					if f == cm.confField {
						found = true
					}
					if strings.HasSuffix(f, "AllowOrigins") && !dup[f] {
						dup[f] = true
						compared = append(compared, f)
					}
				}
			}
			sort.Strings(compared)
			c.Check("C05.config.reload", key, found, p.Pos(site.Pos()),
				"the conditions guarding this Close compare the allow-lists ["+strings.Join(compared, ", ")+"]; a reload changing only conf."+cm.confField+" keeps the component and its old allow-list: removed origins stay echoed, new ones are refused")
		}
	}
}
