package main

// C21.exit_status.* stated over the FLOW of the exit status instead of over the
// nesting of closures that happens to carry it today:
//
//	Wait() error --(mapped to an int status)--> value sent on a channel
//	    --> received by the select of runOSSpecific --> error / nil returned
//	    --> handed to OnExit by Cmd.run
//
// * the "waiter" is whichever function contains the single (*exec.Cmd).Wait call
//   reachable from runOSSpecific (a closure invoked in place, a named function, the
//   goroutine body itself);
// * identity of the command (Wait vs Start) and of the completion channel (send vs
//   select) is decided on ROOTS: loads of local cells, captured variables and
//   parameters of a function with a single call site (call, go or defer) are
//   looked through, so `go func(){ ...cmd... }()`, `go waitFor(cmd, done)` and
//   `helper(cmd)` are the same thing;
// * the status is the set of LEAVES of the value that is sent: through phis,
//   integer conversions and calls of functions of the package (their returned
//   values). Each leaf knows where it is delivered (a return of a function or an
//   incoming edge of a phi), which is where its path condition is checked. So the
//   mapping `err -> code` may sit in a closure, in a named function or inline in
//   the goroutine (`code := 0; if ... { code = ee.ExitCode() }; done <- code`).

import (
	"go/types"
	"strings"

	"golang.org/x/tools/go/ssa"
)

// c21CallSites: call/go/defer instructions of the package that statically call fn.
func c21CallSites(p *Prog, fn *ssa.Function) []ssa.CallInstruction {
	var out []ssa.CallInstruction
	seen := map[*ssa.Function]bool{}
	var visit func(f *ssa.Function)
	visit = func(f *ssa.Function) {
		if f == nil || seen[f] {
			return
		}
		seen[f] = true
		for _, b := range f.Blocks {
			for _, i := range b.Instrs {
				if ci, ok := i.(ssa.CallInstruction); ok && ci.Common().StaticCallee() == fn {
					out = append(out, ci)
				}
			}
		}
		for _, a := range f.AnonFuncs {
			visit(a)
		}
	}
	for _, f := range funcsOfPkg(p, "internal/externalcmd") {
		visit(f)
	}
	return out
}

// c21Root: the variable cell or value an expression denotes, through loads of
// local cells, conversions, captured variables and single-call-site parameters.
func c21Root(p *Prog, v ssa.Value) ssa.Value {
	for n := 0; n < 32; n++ {
		switch x := v.(type) {
		case *ssa.UnOp:
			if la := loadAddr(x); la != nil {
				switch la.(type) {
				case *ssa.Alloc, *ssa.FreeVar:
					v = la
					continue
				}
			}
			return v
		case *ssa.ChangeType:
			v = x.X
			continue
		case *ssa.FreeVar:
			if b := bindingOf(x); b != nil {
				v = b
				continue
			}
			return v
		case *ssa.Parameter:
			fn := x.Parent()
			if fn == nil {
				return v
			}
			cs := c21CallSites(p, fn)
			k := paramIndex(x)
			if len(cs) != 1 || k < 0 || k >= len(cs[0].Common().Args) {
				return v
			}
			v = cs[0].Common().Args[k]
			continue
		case *ssa.Alloc:
			// a cell written once with another cell's content is that cell (x := y)
			return v
		}
		return v
	}
	return v
}

type c21leaf struct {
	fn   *ssa.Function
	v    ssa.Value
	ret  *ssa.Return // delivered by this return of fn ...
	phi  *ssa.Phi    // ... or by this incoming edge of phi
	edge int
}

func (l c21leaf) where(p *Prog) string {
	switch {
	case l.ret != nil:
		return p.Pos(posOf(l.ret, l.fn))
	case l.phi != nil:
		return p.Pos(l.phi.Pos())
	}
	return p.Pos(l.fn.Pos())
}

// c21StatusLeaves: see the file comment.
func c21StatusLeaves(fn *ssa.Function, v ssa.Value, at c21leaf, seen map[ssa.Value]bool, out *[]c21leaf) {
	// (only phis can close a cycle; a constant shared by several edges is one leaf
	// PER EDGE, each with its own path condition)
	switch x := v.(type) {
	case *ssa.Phi:
		if seen[v] {
			return
		}
		seen[v] = true
		for i, e := range x.Edges {
			c21StatusLeaves(fn, e, c21leaf{fn: fn, phi: x, edge: i}, seen, out)
		}
		return
	case *ssa.Convert:
		if bt, ok := x.Type().Underlying().(*types.Basic); ok && bt.Info()&types.IsInteger != 0 {
			if bx, ok := x.X.Type().Underlying().(*types.Basic); ok && bx.Info()&types.IsInteger != 0 {
				c21StatusLeaves(fn, x.X, at, seen, out)
				return
			}
		}
	case *ssa.ChangeType:
		c21StatusLeaves(fn, x.X, at, seen, out)
		return
	case *ssa.Call:
		callee := x.Call.StaticCallee()
		if callee != nil && len(callee.Blocks) > 0 && callee.Signature.Results().Len() == 1 &&
			strings.HasSuffix(funcPkgPath(callee), "/internal/externalcmd") {
			// (raw block iteration: eachInstr yields nothing for a new helper on its own)
			for _, b := range callee.Blocks {
				if r, ok := b.Instrs[len(b.Instrs)-1].(*ssa.Return); ok {
					if rv := retVal(r, 0); rv != nil {
						c21StatusLeaves(callee, rv, c21leaf{fn: callee, ret: r}, seen, out)
					}
				}
			}
			return
		}
	}
	at.v = v
	if at.fn == nil {
		at.fn = fn
	}
	*out = append(*out, at)
}

// c21Delivered: can leaf l be delivered without one of alts holding? A return is
// a walk target; for a phi edge the conditions are those under which the
// predecessor block is left towards the phi.
func c21DeliveredWithout(l c21leaf, alts []LitPat) *Witness {
	switch {
	case l.ret != nil:
		return reachWithout(entry(l.fn), func(i ssa.Instruction) bool { return i == ssa.Instruction(l.ret) }, alts)
	case l.phi != nil:
		return c21EdgeWithout(entry(l.fn), l.phi, l.edge, alts)
	}
	// delivered unconditionally where it is computed
	if i, ok := l.v.(ssa.Instruction); ok && i.Block() != nil {
		return reachWithout(entry(l.fn), func(q ssa.Instruction) bool { return q == i }, alts)
	}
	return &Witness{}
}

// c21EdgeWithout: is the incoming edge k of phi reachable from `from` without
// passing one of alts (the edge's own branch literal counts)?
func c21EdgeWithout(from Point, phi *ssa.Phi, k int, alts []LitPat) *Witness {
	b := phi.Block()
	if k >= len(b.Preds) {
		return &Witness{}
	}
	pred := b.Preds[k]
	if ifi := ifOf(pred); ifi != nil {
		for s, succ := range pred.Succs {
			if succ != b {
				continue
			}
			l := litOf(ifi.Cond, s == 0)
			for _, a := range alts {
				if a.match(l) {
					return nil
				}
			}
		}
	}
	last := pred.Instrs[len(pred.Instrs)-1]
	return reachWithout(from, func(i ssa.Instruction) bool { return i == last }, alts)
}

// c21ExitStatusGen replaces c21ExitStatus (prop_c21.go): same rule ids and, on the
// unchanged tree, the same obligation keys.
func c21ExitStatusGen(c *Ctx, p *Prog, ros *ssa.Function, sfx string) {
	// functions that run on behalf of runOSSpecific: its closures and the
	// functions of the package they call / start
	var scope []*ssa.Function
	inScope := map[*ssa.Function]bool{}
	var add func(f *ssa.Function)
	add = func(f *ssa.Function) {
		if f == nil || inScope[f] || len(f.Blocks) == 0 || !strings.HasSuffix(funcPkgPath(f), "/internal/externalcmd") {
			return
		}
		inScope[f] = true
		scope = append(scope, f)
		for _, a := range f.AnonFuncs {
			add(a)
		}
		for _, b := range f.Blocks {
			for _, i := range b.Instrs {
				if ci, ok := i.(ssa.CallInstruction); ok {
					add(ci.Common().StaticCallee())
				}
			}
		}
	}
	add(ros)
	each := func(f func(fn *ssa.Function, i ssa.Instruction)) {
		for _, fn := range scope {
			for _, b := range fn.Blocks {
				for _, i := range b.Instrs {
					f(fn, i)
				}
			}
		}
	}

	var waiter *ssa.Function
	var wait *ssa.Call
	nW := 0
	each(func(fn *ssa.Function, i ssa.Instruction) {
		if cl, ok := i.(*ssa.Call); ok && isCallTo(i, "(*os/exec.Cmd).Wait") {
			waiter, wait = fn, cl
			nW++
		}
	})
	if nW != 1 {
		c.Undecided("UNRESOLVED ANCHOR C21.exit_status" + sfx + ": want exactly one (*exec.Cmd).Wait call under runOSSpecific, got " + itoa(nW))
		return
	}
	c.Analysed(fnName(waiter))
	// Wait is called on the command that was started
	var starts []ssa.Instruction
	each(func(fn *ssa.Function, i ssa.Instruction) {
		if isCallTo(i, "(*os/exec.Cmd).Start") {
			starts = append(starts, i)
		}
	})
	if len(starts) == 1 {
		wroot := c21Root(p, wait.Call.Args[0])
		sroot := c21Root(p, callCommon(starts[0]).Args[0])
		c.Check("C21.exit_status.waits_started"+sfx, shortFn(waiter)+": Wait is called on the started command", wroot == sroot,
			p.Pos(wait.Pos()), "Wait on "+desc(wroot)+", Start on "+desc(sroot))
	}

	// the select of runOSSpecific and the send that feeds it
	var sel *ssa.Select
	eachInstr(ros, func(i ssa.Instruction) {
		if s, ok := i.(*ssa.Select); ok {
			sel = s
		}
	})
	var send *ssa.Send
	var sender *ssa.Function
	state, slot := -1, 2
	if sel != nil {
		each(func(fn *ssa.Function, i ssa.Instruction) {
			s, ok := i.(*ssa.Send)
			if !ok || send != nil {
				return
			}
			chRoot := c21Root(p, s.Chan)
			sl := 2
			for k, st := range sel.States {
				if st.Dir != types.RecvOnly {
					continue
				}
				if c21Root(p, st.Chan) == chRoot {
					send, sender, state, slot = s, fn, k, sl
					return
				}
				sl++
			}
		})
	}
	if send == nil {
		c.Check("C21.exit_status.sent"+sfx, shortFn(ros)+": waiter result is sent on the completion channel", false, p.Pos(ros.Pos()),
			"no send of the waiter's call result / no select found")
		return
	}
	c.Analysed(fnName(sender))

	// the status that is sent
	var leaves []c21leaf
	c21StatusLeaves(sender, send.X, c21leaf{}, map[ssa.Value]bool{}, &leaves)
	W := desc(wait)
	isEE := []string{"errors.AsType[*os/exec.ExitError](" + W + ")#1", W + ".(*os/exec.ExitError)#1"}
	okWhenConst := []LitPat{T("(" + W + " == nil)"), F(isEE[0]), F(isEE[1])}
	nCode, nConst := 0, 0
	var foreign []string
	constOK, constDetail, constPos := true, "", p.Pos(waiter.Pos())
	// one obligation per (function, value delivered), however many edges deliver it
	type leafObl struct {
		ok          bool
		pos, detail string
	}
	leafObls := map[string]*leafObl{}
	var leafKeys []string
	leafCheck := func(key string, ok bool, pos, detail string) {
		o := leafObls[key]
		if o == nil {
			o = &leafObl{ok: true, pos: pos}
			leafObls[key] = o
			leafKeys = append(leafKeys, key)
		}
		if !ok && o.ok {
			o.ok, o.pos, o.detail = false, pos, detail
		}
	}
	for _, l := range leaves {
		l := l
		c.Analysed(fnName(l.fn))
		_, isConst := l.v.(*ssa.Const)
		isCode := false
		if cl, isCall := l.v.(*ssa.Call); isCall && isCallTo(cl, "(*os.ProcessState).ExitCode", "(*os/exec.ExitError).ExitCode") &&
			strings.Contains(desc(cl.Call.Args[0]), W) {
			isCode = true
		}
		verb := ": returns "
		if l.ret == nil {
			verb = ": sends "
		}
		switch {
		case isConst:
			nConst++
			// (a) a constant is delivered only when Wait succeeded or the error is not an ExitError
			if w := c21DeliveredWithout(l, okWhenConst); w != nil && constOK {
				constOK = false
				constDetail = "a constant status is returned although Wait failed with an *exec.ExitError: " + w.String(p)
				constPos = l.where(p)
			}
			k, _ := constIntE(l.v)
			leafCheck(shortFn(l.fn)+verb+strings.ReplaceAll(desc(l.v), W, "werr"), k == 0, l.where(p),
				"a waiter result is 0 or ExitCode() of the ExitError returned by Wait")
		case isCode:
			nCode++
			leafCheck(shortFn(l.fn)+verb+strings.ReplaceAll(desc(l.v), W, "werr"), true, l.where(p), "")
		case l.ret != nil:
			// (b) every return of a status function is 0 or the ExitCode of that ExitError
			leafCheck(shortFn(l.fn)+verb+strings.ReplaceAll(desc(l.v), W, "werr"), false, l.where(p),
				"a waiter result is 0 or ExitCode() of the ExitError returned by Wait")
		default:
			foreign = append(foreign, desc(l.v))
		}
	}
	for _, k := range leafKeys {
		c.Check("C21.exit_status.waiter"+sfx, k, leafObls[k].ok, leafObls[k].pos, leafObls[k].detail)
	}
	if nConst > 0 {
		c.Check("C21.exit_status.waiter"+sfx, shortFn(waiter)+": a constant status is returned only when Wait succeeded or its error is not an *exec.ExitError",
			constOK, constPos, constDetail)
	}
	c.Count("waiter returns carrying ExitCode"+sfx, nCode)

	// (c) what is sent on the channel the select receives from is that status and nothing else
	detail := ""
	if len(foreign) > 0 {
		detail = "the value sent is not (only) the status computed from Wait: " + strings.Join(foreign, ", ")
	} else if nCode == 0 {
		detail = "no ExitCode() of the error returned by Wait reaches the completion channel"
	}
	c.Check("C21.exit_status.sent"+sfx, shortFn(ros)+": waiter result is sent on the completion channel", detail == "", p.Pos(send.Pos()), detail)
	if detail != "" {
		return
	}

	code := "select#" + itoa(slot)
	zero := "(" + code + " == 0)"
	// (d) nil only on code 0
	c.MustPass(p, ros, "C21.exit_status.nil_only_on_zero"+sfx, "return nil", retNil(0), T(zero))
	// (e) on the completion branch with code != 0 every return is fmt.Errorf(..., code)
	var startB *ssa.BasicBlock
	for _, b := range ros.Blocks {
		ifi := ifOf(b)
		if ifi == nil {
			continue
		}
		if l := litOf(ifi.Cond, true); l.Atom == "(select#0 == "+itoa(state)+")" && l.Pos {
			startB = b.Succs[0]
		}
	}
	if startB == nil {
		c.Undecided("UNRESOLVED ANCHOR C21.exit_status" + sfx + ": select dispatch block of the completion case")
		return
	}
	nErr := 0
	w := (&Walker{
		Visit: func(i ssa.Instruction) int {
			r, ok := i.(*ssa.Return)
			if !ok {
				return wContinue
			}
			v := retVal(r, 0)
			if cl, ok := v.(*ssa.Call); ok && calleeName(&cl.Call) == "fmt.Errorf" && len(cl.Call.Args) == 2 {
				for _, e := range variadicElemsE(cl.Call.Args[1]) {
					if desc(e) == code {
						nErr++
						return wStop
					}
				}
			}
			return wHit
		},
		Edge: func(l Lit) bool { return !(l.Pos && l.Atom == zero) },
	}).Run(Point{startB, 0})
	detail = ""
	if w != nil {
		detail = "a return on the non-zero branch does not carry the code: " + w.String(p)
	}
	c.Check("C21.exit_status.error_carries_code"+sfx, shortFn(ros)+": non-zero completion returns fmt.Errorf(…, code)", w == nil && nErr > 0, p.Pos(ros.Pos()), detail)
}

// c21CarriesResult: arg is the result R of the runOSSpecific call on every path on
// which R is a non-nil error: it is R itself, or a phi whose other incoming edges
// are taken only when R == nil (`if err == nil { err = ... }; c.OnExit(err)`).
func c21CarriesResult(arg ssa.Value, call *ssa.Call, depth int) bool {
	if arg == ssa.Value(call) {
		return true
	}
	ph, ok := arg.(*ssa.Phi)
	if !ok || depth > 4 {
		return false
	}
	R := desc(call)
	onlyWhenNil := []LitPat{T("(" + R + " == nil)")}
	carries := false
	for k, e := range ph.Edges {
		if c21CarriesResult(e, call, depth+1) {
			carries = true
			continue
		}
		if w := c21EdgeWithout(after(call), ph, k, onlyWhenNil); w != nil {
			return false
		}
	}
	return carries
}
