package main

import (
	"go/token"
	"go/types"
	"sort"
	"strings"

	"golang.org/x/tools/go/ssa"
)

// C21.env_private - the hook environment map is owned by one hook invocation.
//
// externalcmd.Cmd keeps a REFERENCE to its Env map and reads it later: in the
// goroutine started by Cmd.Start (Cmd.run builds key=value pairs and
// runOSSpecific expands $VARS from it), again on every restart, and the hooks
// keep the same map for their second command (runOnUnread, runOnNotReady,
// runOnDisconnect ...). Every hook adds its own values (MTX_QUERY,
// MTX_READER_ID, MTX_SOURCE_*, MTX_SEGMENT_PATH ...) by writing into the map
// it was given. "The values the server passes to a hook reach the command
// exactly" therefore needs: a map that receives hook values belongs to that
// one invocation - otherwise the next reader / segment / hook type overwrites
// the values before (or while) the command of the previous one reads them.
//
// Decided structurally, on value origins (def-use through local variables,
// captured variables, struct literals and parameters up to the call sites,
// phis, and down into the module functions that return an Environment):
//
//	writer rule   every MapUpdate in the module whose map has type
//	              externalcmd.Environment writes into a map whose every origin
//	              is (a) a map literal / make in the invocation that writes,
//	              (b) the result of a call to a module function whose every
//	              return is again such a fresh map (checked recursively; calls
//	              through a module interface: every implementation),
//	              (c) maps.Clone(...), (d) nil;
//	              an origin that is a field of a longer-lived object, a package
//	              variable, an element of a container, a variable captured from
//	              an enclosing function by a closure that escapes (one map for
//	              all runs of the callback), or anything unknown, is reported.
//	provider rule every module function with a result of type
//	              externalcmd.Environment returns only such fresh maps (this is
//	              the sibling obligation the writers rely on; it names the
//	              provider when it starts caching).
//
// Local renames, an extracted helper that builds the map, passing the map
// through another parameter struct, `var env = ...` vs `env := ...`, merging or
// reordering the writes do not change any origin. Not decided: one fresh map
// handed to two commands inside one invocation whose writes interleave (a loop
// that reuses one map), and writes made through a differently typed alias
// (map[string]string(env)).

const c21EnvType = "externalcmd.Environment"

type c21Origin struct {
	ok   bool
	what string
	pos  token.Pos
}

type c21Frame struct {
	site   ssa.Instruction
	callee *ssa.Function
}

type c21Mark struct {
	kind  string
	v     ssa.Value
	extra string
}

type c21Tracer struct {
	p     *Prog
	seen  map[c21Mark]bool
	out   []c21Origin
	sites map[*ssa.Function][2][]ssa.Instruction
	steps int
}

func (t *c21Tracer) leaf(ok bool, what string, pos token.Pos) {
	t.out = append(t.out, c21Origin{ok, what, pos})
}

func c21IsEnvType(ty types.Type) bool {
	n, ok := ty.(*types.Named)
	if !ok {
		if a, isA := ty.(*types.Alias); isA {
			return c21IsEnvType(types.Unalias(a))
		}
		return false
	}
	return typeStr(n) == c21EnvType
}

func (t *c21Tracer) mark(kind string, v ssa.Value, extra string) bool {
	k := c21Mark{kind, v, extra}
	if t.seen[k] {
		return false
	}
	t.seen[k] = true
	t.steps++
	return t.steps < 4000
}

// trace classifies the origins of a map value.
func (t *c21Tracer) trace(v ssa.Value, stack []c21Frame) {
	if v == nil || !t.mark("v", v, itoa(len(stack))) {
		return
	}
	switch x := v.(type) {
	case *ssa.Const:
		t.leaf(true, "nil", token.NoPos)
	case *ssa.MakeMap:
		t.leaf(true, "map created in "+c21FnOf(x), x.Pos())
	case *ssa.Phi:
		for _, e := range x.Edges {
			t.trace(e, stack)
		}
	case *ssa.ChangeType:
		t.trace(x.X, stack)
	case *ssa.Convert:
		t.trace(x.X, stack)
	case *ssa.MakeInterface:
		t.trace(x.X, stack)
	case *ssa.TypeAssert:
		t.trace(x.X, stack)
	case *ssa.Parameter:
		t.param(x, -1, stack)
	case *ssa.FreeVar:
		// captured by value does not exist in go/ssa; treat like a load of the cell
		t.load(x, stack)
	case *ssa.UnOp:
		if x.Op == token.MUL {
			t.load(x.X, stack)
		} else {
			t.leaf(false, "unknown value "+trunc(desc(v), 60), v.Pos())
		}
	case *ssa.Field:
		t.structField(x.X, x.Field, stack)
	case *ssa.Call:
		t.call(x, 0, stack)
	case *ssa.Extract:
		if cl, ok := x.Tuple.(*ssa.Call); ok {
			t.call(cl, x.Index, stack)
		} else {
			t.leaf(false, "unknown value "+trunc(desc(v), 60), v.Pos())
		}
	case *ssa.Lookup:
		t.leaf(false, "element of the container "+trunc(desc(x.X), 60)+" (outlives the invocation)", x.Pos())
	default:
		t.leaf(false, "unknown value "+trunc(desc(v), 60), v.Pos())
	}
}

func c21FnOf(v ssa.Value) string {
	if f := v.Parent(); f != nil {
		return shortFn(f)
	}
	return "?"
}

// load: origins of the value read from an address.
func (t *c21Tracer) load(addr ssa.Value, stack []c21Frame) {
	switch a := addr.(type) {
	case *ssa.Alloc:
		t.cell(a, stack)
	case *ssa.FreeVar:
		if al, why := c21CapturedCell(a); al != nil {
			t.cell(al, stack)
		} else {
			t.leaf(false, why, a.Parent().Pos())
		}
	case *ssa.FieldAddr:
		var base *ssa.Alloc
		switch b := a.X.(type) {
		case *ssa.Alloc:
			base = b
		case *ssa.FreeVar:
			al, why := c21CapturedCell(b)
			if al == nil {
				t.leaf(false, why, a.Pos())
				return
			}
			base = al
		}
		if base == nil {
			t.leaf(false, "field "+trunc(desc(a), 60)+" of a longer-lived object: the same map is handed out again", a.Pos())
			return
		}
		t.allocField(base, a.Field, stack)
	case *ssa.Global:
		t.leaf(false, "package variable "+a.Name(), a.Pos())
	case *ssa.IndexAddr:
		t.leaf(false, "element of "+trunc(desc(a.X), 60), a.Pos())
	default:
		t.leaf(false, "unknown location "+trunc(desc(addr), 60), addr.Pos())
	}
}

// c21CapturedCell resolves a captured variable to its cell in the enclosing
// function - allowed only when the closure is merely called in place (it runs
// within the invocation that owns the variable). A closure that escapes (stored
// as a callback, returned, started as goroutine body ...) runs any number of
// times against the one variable: the map in it is not owned by the run.
func c21CapturedCell(fv *ssa.FreeVar) (*ssa.Alloc, string) {
	fn := fv.Parent()
	mc := makeClosureOf(fn)
	if mc == nil {
		return nil, "variable " + fv.Name() + " captured by " + shortFn(fn) + " (closure creation not resolved)"
	}
	for _, r := range *mc.Referrers() {
		cc := callCommon(r)
		if _, isGo := r.(*ssa.Go); isGo || cc == nil || cc.Value != ssa.Value(mc) {
			return nil, "variable " + fv.Name() + " of the enclosing function, captured by " + shortFn(fn) + " which outlives / is run repeatedly by its creator: one map for every run"
		}
	}
	var b ssa.Value
	for i, f := range fn.FreeVars {
		if f == fv && i < len(mc.Bindings) {
			b = mc.Bindings[i]
		}
	}
	switch x := b.(type) {
	case *ssa.Alloc:
		return x, ""
	case *ssa.FreeVar:
		return c21CapturedCell(x)
	}
	return nil, "variable " + fv.Name() + " captured by " + shortFn(fn) + " (binding not resolved)"
}

// c21CellStores lists the values stored into a local variable, including the
// stores made by closures that capture it.
func c21CellStores(cell ssa.Value, field int, out *[]ssa.Value, whole *[]ssa.Value, depth int) {
	refs := cell.Referrers()
	if refs == nil || depth > 4 {
		return
	}
	for _, r := range *refs {
		switch x := r.(type) {
		case *ssa.Store:
			if x.Addr == cell {
				if field < 0 {
					*out = append(*out, x.Val)
				} else {
					*whole = append(*whole, x.Val)
				}
			}
		case *ssa.FieldAddr:
			if field >= 0 && x.X == cell && x.Field == field {
				for _, rr := range *x.Referrers() {
					if st, ok := rr.(*ssa.Store); ok && st.Addr == ssa.Value(x) {
						*out = append(*out, st.Val)
					}
				}
			}
		case *ssa.MakeClosure:
			g := x.Fn.(*ssa.Function)
			for i, b := range x.Bindings {
				if b == cell && i < len(g.FreeVars) {
					c21CellStores(g.FreeVars[i], field, out, whole, depth+1)
				}
			}
		}
	}
}

func (t *c21Tracer) cell(a *ssa.Alloc, stack []c21Frame) {
	if !t.mark("cell", a, itoa(len(stack))) {
		return
	}
	var vals, whole []ssa.Value
	c21CellStores(a, -1, &vals, &whole, 0)
	if len(vals) == 0 {
		t.leaf(true, "nil (never assigned)", a.Pos())
	}
	for _, v := range vals {
		t.trace(v, stack)
	}
}

// allocField: origins of field idx of a struct held in a local variable.
func (t *c21Tracer) allocField(a *ssa.Alloc, idx int, stack []c21Frame) {
	if !t.mark("field"+itoa(idx), a, itoa(len(stack))) {
		return
	}
	var vals, whole []ssa.Value
	c21CellStores(a, idx, &vals, &whole, 0)
	for _, v := range vals {
		t.trace(v, stack)
	}
	for _, w := range whole {
		t.structField(w, idx, stack)
	}
	if len(vals) == 0 && len(whole) == 0 {
		t.leaf(true, "nil (field never assigned)", a.Pos())
	}
}

// structField: origins of field idx of a struct VALUE.
func (t *c21Tracer) structField(v ssa.Value, idx int, stack []c21Frame) {
	switch x := v.(type) {
	case *ssa.Parameter:
		t.param(x, idx, stack)
	case *ssa.Phi:
		if t.mark("sf"+itoa(idx), x, itoa(len(stack))) {
			for _, e := range x.Edges {
				t.structField(e, idx, stack)
			}
		}
	case *ssa.UnOp:
		if x.Op == token.MUL {
			switch a := x.X.(type) {
			case *ssa.Alloc:
				t.allocField(a, idx, stack)
				return
			case *ssa.FreeVar:
				if al, why := c21CapturedCell(a); al != nil {
					t.allocField(al, idx, stack)
				} else {
					t.leaf(false, why, x.Pos())
				}
				return
			}
		}
		t.leaf(false, "field of the longer-lived struct "+trunc(desc(v), 60), v.Pos())
	case *ssa.Const:
		t.leaf(true, "nil", token.NoPos)
	default:
		t.leaf(false, "field of "+trunc(desc(v), 60), v.Pos())
	}
}

func (t *c21Tracer) callSites(fn *ssa.Function) (sites, escapes []ssa.Instruction) {
	if s, ok := t.sites[fn]; ok {
		return s[0], s[1]
	}
	sites, escapes = callSitesOf(t.p, fn)
	t.sites[fn] = [2][]ssa.Instruction{sites, escapes}
	return
}

// param: the value comes in through parameter par (field idx of it when
// idx >= 0): look at what every caller passes.
func (t *c21Tracer) param(par *ssa.Parameter, idx int, stack []c21Frame) {
	fn := par.Parent()
	k := paramIndex(par)
	use := func(site ssa.Instruction, rest []c21Frame) {
		cc := callCommon(site)
		var arg ssa.Value
		if cc != nil && cc.IsInvoke() {
			if k == 0 {
				arg = cc.Value
			} else if k-1 < len(cc.Args) {
				arg = cc.Args[k-1]
			}
		} else if cc != nil && k >= 0 && k < len(cc.Args) {
			arg = cc.Args[k]
		}
		if arg == nil {
			t.leaf(false, "argument of "+shortFn(fn)+" not resolved", site.Pos())
			return
		}
		if idx < 0 {
			t.trace(arg, rest)
		} else {
			t.structField(arg, idx, rest)
		}
	}
	if n := len(stack); n > 0 && stack[n-1].callee == fn {
		use(stack[n-1].site, stack[:n-1])
		return
	}
	if !t.mark("param"+itoa(idx), par, "") {
		return
	}
	sites, escapes := t.callSites(fn)
	if fn.Parent() != nil || len(escapes) > 0 || len(sites) == 0 {
		t.leaf(false, "parameter "+par.Name()+" of "+shortFn(fn)+", whose callers cannot be enumerated (function value / interface method)", par.Pos())
		return
	}
	for _, s := range sites {
		use(s, nil)
	}
}

// call: the value is result idx of a call.
func (t *c21Tracer) call(cl *ssa.Call, idx int, stack []c21Frame) {
	cc := &cl.Call
	name := calleeName(cc)
	if strings.HasPrefix(name, "maps.Clone") {
		t.leaf(true, "maps.Clone copy", cl.Pos())
		return
	}
	var callees []*ssa.Function
	if cc.IsInvoke() {
		if n := namedOf(cc.Value.Type()); n != nil {
			if it, ok := n.Underlying().(*types.Interface); ok {
				callees = moduleImplementers(t.p, it, cc.Method.Name())
			}
		}
	} else if g := staticCallee(cl); g != nil {
		callees = []*ssa.Function{g}
	} else if g := calledClosure(cc); g != nil {
		callees = []*ssa.Function{g}
	}
	if len(callees) == 0 {
		t.leaf(false, "result of "+trunc(name, 60)+" (callee not resolved inside the module)", cl.Pos())
		return
	}
	if len(stack) > 6 {
		t.leaf(false, "call depth exceeded at "+name, cl.Pos())
		return
	}
	for _, g := range callees {
		if g.Blocks == nil || !inModule(g) {
			t.leaf(false, "result of "+shortFn(g)+" (outside the module: may hand out a shared map)", cl.Pos())
			continue
		}
		rets := c21Returns(g)
		if len(rets) == 0 {
			t.leaf(false, "result of "+shortFn(g)+" (no return found)", cl.Pos())
		}
		for _, r := range rets {
			rv := retVal(r, idx)
			if rv == nil {
				t.leaf(false, "result of "+shortFn(g)+" not resolved", cl.Pos())
				continue
			}
			t.trace(rv, append(append([]c21Frame{}, stack...), c21Frame{cl, g}))
		}
	}
}

// c21Returns lists the return instructions of g itself (the callee is entered
// explicitly here, so the blocks are read directly: eachInstr yields nothing
// for a new helper on its own).
func c21Returns(g *ssa.Function) []*ssa.Return {
	var out []*ssa.Return
	for _, b := range g.Blocks {
		for _, i := range b.Instrs {
			if r, ok := i.(*ssa.Return); ok {
				out = append(out, r)
			}
		}
	}
	return out
}

func c21Origins(p *Prog, sites map[*ssa.Function][2][]ssa.Instruction, v ssa.Value) []c21Origin {
	t := &c21Tracer{p: p, seen: map[c21Mark]bool{}, sites: sites}
	t.trace(v, nil)
	if t.steps >= 4000 {
		t.leaf(false, "origin search exceeded its budget", v.Pos())
	}
	return t.out
}

func c21OriginSummary(os []c21Origin) (ok bool, good, bad string, pos token.Pos) {
	ok = len(os) > 0
	g, b := map[string]bool{}, map[string]bool{}
	for _, o := range os {
		if o.ok {
			g[o.what] = true
		} else {
			ok = false
			b[o.what] = true
			if !pos.IsValid() {
				pos = o.pos
			}
		}
	}
	ks := func(m map[string]bool) string {
		var l []string
		for k := range m {
			l = append(l, k)
		}
		sort.Strings(l)
		return strings.Join(l, "; ")
	}
	return ok, ks(g), ks(b), pos
}

func c21EnvPrivate(c *Ctx, p *Prog) {
	const rule = "C21.env_private"
	sites := map[*ssa.Function][2][]ssa.Instruction{}

	// ---- writers
	type wkey struct {
		fn string
		m  string
	}
	type wagg struct {
		ok   bool
		bad  map[string]bool
		good map[string]bool
		pos  token.Pos
		at   token.Pos
		n    int
	}
	writers := map[wkey]*wagg{}
	var order []wkey
	doneMap := map[ssa.Value]*wagg{}
	for _, f := range p.ModFuncs() {
		ff := f
		eachInstr(f, func(i ssa.Instruction) {
			mu, ok := i.(*ssa.MapUpdate)
			if !ok || !c21IsEnvType(mu.Map.Type()) {
				return
			}
			k := wkey{fnName(ff), trunc(desc(mu.Map), 80)}
			a := writers[k]
			if a == nil {
				a = &wagg{ok: true, bad: map[string]bool{}, good: map[string]bool{}, at: posOf(i, ff)}
				writers[k] = a
				order = append(order, k)
			}
			a.n++
			if doneMap[mu.Map] == a {
				return
			}
			doneMap[mu.Map] = a
			c.Analysed(fnName(ff))
			for _, o := range c21Origins(p, sites, mu.Map) {
				if o.ok {
					a.good[o.what] = true
				} else {
					a.ok = false
					a.bad[o.what] = true
					if !a.pos.IsValid() {
						a.pos = o.pos
					}
				}
			}
		})
	}
	join := func(m map[string]bool) string {
		var l []string
		for k := range m {
			l = append(l, k)
		}
		sort.Strings(l)
		return strings.Join(l, "; ")
	}
	for _, k := range order {
		a := writers[k]
		detail := "origins: " + join(a.good)
		if !a.ok {
			detail = "the map that receives this invocation's hook values is shared: " + join(a.bad) +
				" - a later hook invocation on the same object overwrites MTX_* values before/while the command of this one reads them (Cmd keeps a reference to Env)"
			if a.pos.IsValid() {
				detail += " [origin at " + p.Pos(a.pos) + "]"
			}
		}
		c.Check(rule, k.fn+": hook values are written into a map created for this invocation (map "+k.m+")", a.ok && len(a.good) > 0, p.Pos(a.at), detail)
	}
	// ExternalCmdEnv, OnConnect, OnRead, OnOnline, OnDemand, OnAvailable, the two recorder callbacks
	c.Floor(rule+".writers", len(order), 7)

	// ---- providers
	nProv := 0
	for _, f := range p.ModFuncs() {
		res := f.Signature.Results()
		for ri := 0; ri < res.Len(); ri++ {
			if !c21IsEnvType(res.At(ri).Type()) {
				continue
			}
			if isNewHelper(f) {
				continue // analysed as part of its callers
			}
			nProv++
			c.Analysed(fnName(f))
			var all []c21Origin
			for _, r := range returnsOf(f) {
				rv := retVal(r, ri)
				if rv == nil {
					all = append(all, c21Origin{false, "return value not resolved", r.Pos()})
					continue
				}
				all = append(all, c21Origins(p, sites, rv)...)
			}
			ok, good, bad, pos := c21OriginSummary(all)
			detail := "origins: " + good
			at := f.Pos()
			if !ok {
				detail = "callers write their own hook values into the result and externalcmd.Cmd keeps a reference to it; returned here: " + bad
				if pos.IsValid() {
					at = pos
				}
			}
			c.Check(rule, fnName(f)+": returns a map created by this very call (never a cached / stored one)", ok, p.Pos(at), detail)
		}
	}
	c.Floor(rule+".providers", nProv, 1)
}
