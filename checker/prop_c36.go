package main

import (
	"go/constant"
	"go/token"
	"go/types"
	"regexp"
	"sort"
	"strings"
	"unicode"

	"golang.org/x/tools/go/ssa"
)

// C36 - metrics exposition is always valid and faithful.

func init() {
	register(Property{ID: "C36", Level: "other", Run: runC36,
		Technique: "static analysis: write-sequence shape of metrics.tags/metric/metricFloat, sanitizer/origin classification of every label value at every tags() call site, sibling agreement between metric names, item fields and data sources (go/ssa)",
		Text:      "Decides: (1) metrics.metric/metricFloat write name, labels, ' ', strconv decimal of the value, '\\n' in this order; tags writes {k=\"v\",...}; every metric name and label key at every call site is a constant of the Prometheus grammar; every direct write to the output is a '#' comment line or an empty line; (2) every label value is either escaped in tags (\\\\, \\\", \\n — tier 1) or, at every call site, safe by construction (constant, uuid, strconv, enum-typed constant, key of a map filled with such) — otherwise an entity string (path name, session path, remote address) reaches the exposition verbatim; (3) faithfulness: the value of each sample is a direct conversion of a field of the same item the labels are taken from, the metric name ends with the snake_case of that field (one tabled exception), and the metric prefix agrees with the server/list method the items were obtained from; a sample that is a per-item aggregate (count map read with a label value as key) reads an accumulator whose keys are all taken from the labelled item, that nothing else can fill, and that is re-made or cleared on every control-flow path from an insertion through the next item to the next sample read. Not decided: that API items themselves hold the entity's counters (producers), numeric formatting inside strconv.",
		Note:      "trusted: go/types+go/ssa; strconv.FormatInt/FormatFloat output; uuid.String; metrics.sortedKeys returns the keys of its argument"})
	addMutants(
		Mutant{"C36", "sent-counter-reports-received", "internal/metrics/metrics.go",
			`"rtsp_conns_bytes_sent", ta, int64(i.BytesSent))`, `"rtsp_conns_bytes_sent", ta, int64(i.BytesReceived))`, "C36.faithful.name"},
		Mutant{"C36", "rtsps-sessions-from-rtsp-server", "internal/metrics/metrics.go",
			"data, err := rtspsServer.APISessionsList()", "data, err := rtspServer.APISessionsList()", "C36.faithful.source"},
		Mutant{"C36", "value-of-another-item", "internal/metrics/metrics.go",
			`"forward_dests_outbound_bytes", ta, int64(i.item.OutboundBytes))`, `"forward_dests_outbound_bytes", ta, int64(items[0].item.OutboundBytes))`, "C36.faithful.same_item"},
		Mutant{"C36", "sample-newline-dropped", "internal/metrics/metrics.go",
			"	out.WriteString(strconv.FormatInt(value, 10))\n	out.WriteByte('\\n')\n", "	out.WriteString(strconv.FormatInt(value, 10))\n", "C36.metric.shape"},
		Mutant{"C36", "labels-before-name", "internal/metrics/metrics.go",
			"	out.WriteString(key)\n	out.WriteString(tags)\n	out.WriteByte(' ')\n	out.WriteString(strconv.FormatInt", "	out.WriteString(tags)\n	out.WriteString(key)\n	out.WriteByte(' ')\n	out.WriteString(strconv.FormatInt", "C36.metric.shape"},
		Mutant{"C36", "value-in-hex", "internal/metrics/metrics.go",
			"strconv.FormatInt(value, 10)", "strconv.FormatInt(value, 16)", "C36.metric.shape"},
		Mutant{"C36", "label-closing-quote-dropped", "internal/metrics/metrics.go",
			"		b.WriteString(labelValueEscaper.Replace(m[k]))\n		b.WriteByte('\"')\n", "		b.WriteString(labelValueEscaper.Replace(m[k]))\n", "C36.tags.shape"},
		Mutant{"C36", "invalid-label-key", "internal/metrics/metrics.go",
			`"protocol": string(i.item.Protocol),`, `"proto-col": string(i.item.Protocol),`, "C36.label_key"},
		Mutant{"C36", "entity-string-in-metric-name", "internal/metrics/metrics.go",
			`metric(&out, "paths", ta, 1)`, `metric(&out, "paths_"+i.Name, ta, 1)`, "C36.metric.name"},
		Mutant{"C36", "section-header-not-a-comment", "internal/metrics/metrics.go",
			"out.WriteString(\"# Paths\\n\")\n			for _, i := range data.Items {", "out.WriteString(\"Paths\\n\")\n			for _, i := range data.Items {", "C36.comment"},
	)
}

var (
	reMetricName = regexp.MustCompile(`^[a-zA-Z_:][a-zA-Z0-9_:]*$`)
	reLabelName  = regexp.MustCompile(`^[a-zA-Z_][a-zA-Z0-9_]*$`)
	reItemSource = regexp.MustCompile(`^\(([^)]*)\)\.API(\w+)List\(\$0\.(\w+)\)#0\.Items\[_\]$`)
)

// metric-name exceptions of the name agreement (metric -> field).
var c36NameExceptions = map[string]string{"srt_conns_bytes_mss": "ByteMSS"}

func snakeCase(s string) string {
	rs := []rune(s)
	var b strings.Builder
	for i, r := range rs {
		if unicode.IsUpper(r) && i > 0 {
			prevLower := unicode.IsLower(rs[i-1]) || unicode.IsDigit(rs[i-1])
			nextLower := i+1 < len(rs) && unicode.IsLower(rs[i+1])
			if prevLower || (unicode.IsUpper(rs[i-1]) && nextLower) {
				b.WriteByte('_')
			}
		}
		b.WriteRune(unicode.ToLower(r))
	}
	return b.String()
}

// builderWrites lists, in block order, the write calls on the given builder
// value inside one basic block.
type bwrite struct {
	call   *ssa.Call
	method string
	arg    ssa.Value
}

func builderWrites(b *ssa.BasicBlock, isBuilder func(ssa.Value) bool) []bwrite {
	var out []bwrite
	for _, i := range b.Instrs {
		cc, ok := i.(*ssa.Call)
		if !ok || cc.Call.IsInvoke() {
			continue
		}
		f, ok := cc.Call.Value.(*ssa.Function)
		if !ok || len(cc.Call.Args) < 1 || !isBuilder(cc.Call.Args[0]) {
			continue
		}
		if !strings.HasPrefix(f.Name(), "Write") {
			continue
		}
		var a ssa.Value
		if len(cc.Call.Args) > 1 {
			a = cc.Call.Args[1]
		}
		out = append(out, bwrite{cc, f.Name(), a})
	}
	return out
}

func isByteConst(v ssa.Value, b byte) bool {
	n, ok := constInt(v)
	return ok && n == int64(b)
}

// escapePairs: if v is an escaping of `inner` (strings.ReplaceAll chain or
// (*strings.Replacer).Replace with constant pairs), returns the pairs in
// application order and the escaped operand.
func escapePairs(v ssa.Value) (pairs [][2]string, operand ssa.Value, singlePass bool) {
	operand = v
	for {
		cc := asCall(operand)
		if cc == nil {
			return
		}
		switch calleeName(&cc.Call) {
		case "strings.ReplaceAll":
			o, ok1 := constString(cc.Call.Args[1])
			n, ok2 := constString(cc.Call.Args[2])
			if !ok1 || !ok2 {
				return
			}
			// the outer call is applied last
			pairs = append([][2]string{{o, n}}, pairs...)
			operand = cc.Call.Args[0]
		case "(*strings.Replacer).Replace":
			rp := deref(cc.Call.Args[0])
			if g, ok := rp.(*ssa.UnOp); ok {
				rp = g.X
			}
			var nr *ssa.Call
			switch x := rp.(type) {
			case *ssa.Call:
				nr = x
			case *ssa.Global:
				// package-level replacer: its initialiser in init
				if ini := x.Pkg.Func("init"); ini != nil {
					for _, st := range allStores(ini) {
						if st.Addr == ssa.Value(x) {
							nr = asCall(st.Val)
						}
					}
				}
			}
			if nr == nil || !isCallTo(nr, "strings.NewReplacer") {
				return
			}
			es := variadicElems(nr.Call.Args[0])
			for k := 0; k+1 < len(es); k += 2 {
				o, ok1 := constString(es[k])
				n, ok2 := constString(es[k+1])
				if ok1 && ok2 {
					pairs = append(pairs, [2]string{o, n})
				}
			}
			singlePass = true
			operand = cc.Call.Args[1]
			return
		default:
			return
		}
	}
}

func labelEscaped(v ssa.Value) (bool, ssa.Value) {
	pairs, operand, single := escapePairs(v)
	need := map[string]string{`\`: `\\`, `"`: `\"`, "\n": `\n`}
	got := map[string]bool{}
	for k, p := range pairs {
		if need[p[0]] == p[1] {
			got[p[0]] = true
			if p[0] == `\` && !single && k != 0 {
				return false, operand // backslash must be escaped first
			}
		}
	}
	return got[`\`] && got[`"`] && got["\n"], operand
}

func runC36(c *Ctx) {
	p := c.Main()
	if p == nil {
		return
	}
	c.Explain = "E3/E7 on the write sequences of metrics.metric, metricFloat and tags; E5 classification of every value of every map literal passed to tags (24 sites) with tier 1 = escaping inside tags; closed grammar checks of constant metric names / label keys / comment lines; E7 sibling agreement: metric name suffix = snake_case(field), item root shared by labels and value, metric prefix = server field + list method; C36.faithful.aggregate_scope: for the map-count samples (paths_readers) who-may-fill enumeration of the accumulator, origin of every inserted key in the labelled item, and a reset-avoiding reachability walk insertion -> next item -> sample read. " +
		"Not decided: the producers of the API items (that counters are the entity's), number formatting."
	c.Assume = []string{
		"strconv.FormatInt(base 10)/FormatFloat produce valid Prometheus sample values",
		"uuid.UUID.String and constants contain no quote, backslash or newline",
	}
	esc := c.c36Tags(p)
	c.c36Metric(p)
	c.c36Sites(p, esc)
}

// c36Tags checks the shape of tags and returns whether label values are escaped.
func (c *Ctx) c36Tags(p *Prog) bool {
	fn := c.fn(p, "internal/metrics", "", "tags")
	if fn == nil {
		return false
	}
	name := "metrics.tags"
	var b *ssa.Alloc
	eachInstr(fn, func(i ssa.Instruction) {
		if a, ok := i.(*ssa.Alloc); ok && typeStr(a.Type()) == "*strings.Builder" {
			b = a
		}
	})
	if b == nil {
		c.Undecided("UNRESOLVED ANCHOR strings.Builder local of metrics.tags")
		return false
	}
	isB := func(v ssa.Value) bool { return v == ssa.Value(b) }
	// the value write: derives from a lookup in the parameter map
	fromParamMap := func(v ssa.Value) bool {
		lk, ok := deref(v).(*ssa.Lookup)
		return ok && isParam(lk.X, 0)
	}
	escaped := false
	found := false
	for _, blk := range fn.Blocks {
		ws := builderWrites(blk, isB)
		for k, w := range ws {
			if w.method != "WriteString" || w.arg == nil {
				continue
			}
			okEsc, operand := labelEscaped(w.arg)
			if !fromParamMap(operand) {
				continue
			}
			found = true
			escaped = okEsc
			// k="v": key, =", value, "
			shape := k >= 2 && k+1 < len(ws) &&
				ws[k-2].method == "WriteString" && !isConst(ws[k-2].arg) &&
				ws[k-1].method == "WriteString" && func() bool { s, ok := constString(ws[k-1].arg); return ok && s == `="` }() &&
				ws[k+1].method == "WriteByte" && isByteConst(ws[k+1].arg, '"')
			c.Check("C36.tags.shape", name+": each label is written as key, =\", value, \" in this order", shape, p.Pos(w.call.Pos()), "")
			if shape {
				keyOK := false
				if ld, ok := ws[k-2].arg.(*ssa.UnOp); ok {
					if ia, ok := ld.X.(*ssa.IndexAddr); ok {
						if kc := asCall(ia.X); kc != nil && strings.HasPrefix(calleeName(&kc.Call), "metrics.sortedKeys") && isParam(kc.Call.Args[0], 0) {
							if lk, ok := deref(operand).(*ssa.Lookup); ok && lk.Index == ssa.Value(ld) {
								keyOK = true
							}
						}
					}
				}
				c.Check("C36.tags.shape", name+": the value written is the map value of the key written", keyOK, p.Pos(w.call.Pos()), "")
			}
		}
	}
	if !found {
		c.Undecided("UNRESOLVED ANCHOR label value write in metrics.tags")
		return false
	}
	// braces and separator
	first := builderWrites(fn.Blocks[0], isB)
	c.Check("C36.tags.shape", name+": output starts with '{'", len(first) >= 1 && first[0].method == "WriteByte" && isByteConst(first[0].arg, '{'), p.Pos(fn.Pos()), "")
	for _, r := range returnsOf(fn) {
		ws := builderWrites(r.Block(), isB)
		okEnd := len(ws) >= 1 && ws[len(ws)-1].method == "WriteByte" && isByteConst(ws[len(ws)-1].arg, '}')
		rv := asCall(retVal(r, 0))
		c.Check("C36.tags.shape", name+": output ends with '}' and is the builder's string", okEnd && rv != nil && isCallTo(rv, "(*strings.Builder).String") && isB(rv.Call.Args[0]), p.Pos(posOf(r, fn)), "")
	}
	nComma := 0
	eachInstr(fn, func(i ssa.Instruction) {
		if cc, ok := i.(*ssa.Call); ok && isCallTo(cc, "(*strings.Builder).WriteByte") && isB(cc.Call.Args[0]) && isByteConst(cc.Call.Args[1], ',') {
			nComma++
		}
	})
	c.Check("C36.tags.shape", name+": labels are separated by ','", nComma == 1, p.Pos(fn.Pos()), "")
	return escaped
}

func (c *Ctx) c36Metric(p *Prog) {
	for _, m := range []string{"metric", "metricFloat"} {
		fn := c.fn(p, "internal/metrics", "", m)
		if fn == nil {
			continue
		}
		name := "metrics." + m
		ok := len(fn.Blocks) == 1
		var ws []bwrite
		if ok {
			ws = builderWrites(fn.Blocks[0], func(v ssa.Value) bool { return isParam(v, 0) })
		}
		ok = ok && len(ws) == 5 &&
			ws[0].method == "WriteString" && isParam(ws[0].arg, 1) &&
			ws[1].method == "WriteString" && isParam(ws[1].arg, 2) &&
			ws[2].method == "WriteByte" && isByteConst(ws[2].arg, ' ') &&
			ws[3].method == "WriteString" &&
			ws[4].method == "WriteByte" && isByteConst(ws[4].arg, '\n')
		valOK := false
		if ok {
			if vc := asCall(ws[3].arg); vc != nil {
				switch calleeName(&vc.Call) {
				case "strconv.FormatInt":
					base, isC := constInt(vc.Call.Args[1])
					valOK = isParam(vc.Call.Args[0], 3) && isC && base == 10
				case "strconv.FormatUint":
					base, isC := constInt(vc.Call.Args[1])
					valOK = isParam(vc.Call.Args[0], 3) && isC && base == 10
				case "strconv.FormatFloat":
					f, isC := constInt(vc.Call.Args[1])
					valOK = isParam(vc.Call.Args[0], 3) && isC && (f == 'f' || f == 'g' || f == 'e')
				}
			}
		}
		c.Check("C36.metric.shape", name+": writes name, labels, ' ', decimal strconv of the value, '\\n' in this order and nothing else", ok && valOK, p.Pos(fn.Pos()), "")
	}
}

type c36class struct {
	safe   bool
	entity string // Type.Field of an entity string
}

type c36cls struct {
	p    *Prog
	fn   *ssa.Function
	seen map[ssa.Value]bool
}

func (k *c36cls) isEnum(t types.Type) bool {
	n, ok := types.Unalias(t).(*types.Named)
	if !ok || n.Obj().Pkg() == nil || !strings.HasPrefix(n.Obj().Pkg().Path(), modPath) {
		return false
	}
	if b, ok := n.Underlying().(*types.Basic); !ok || b.Kind() != types.String {
		return false
	}
	sc := n.Obj().Pkg().Scope()
	for _, nm := range sc.Names() {
		if cst, ok := sc.Lookup(nm).(*types.Const); ok && types.Identical(cst.Type(), n) && cst.Val().Kind() == constant.String {
			return true
		}
	}
	return false
}

// classify returns the entity fields a label value may carry (empty = safe).
func (k *c36cls) classify(v ssa.Value) []string {
	if k.seen[v] {
		return nil
	}
	k.seen[v] = true
	switch x := v.(type) {
	case *ssa.Const:
		return nil
	case *ssa.Phi:
		var out []string
		for _, e := range x.Edges {
			out = append(out, k.classify(e)...)
		}
		return out
	case *ssa.ChangeType:
		if k.isEnum(x.X.Type()) {
			return nil
		}
		return k.classify(x.X)
	case *ssa.Convert:
		if k.isEnum(x.X.Type()) {
			return nil
		}
		return k.classify(x.X)
	case *ssa.Call:
		n := calleeName(&x.Call)
		if n == "(github.com/google/uuid.UUID).String" || strings.HasPrefix(n, "strconv.") {
			return nil
		}
		return []string{"result of " + n}
	case *ssa.UnOp:
		if x.Op != token.MUL {
			break
		}
		switch a := x.X.(type) {
		case *ssa.Alloc:
			var out []string
			for _, r := range *a.Referrers() {
				if st, ok := r.(*ssa.Store); ok && st.Addr == ssa.Value(a) {
					out = append(out, k.classify(st.Val)...)
				}
			}
			return out
		case *ssa.IndexAddr:
			// element of sortedKeys(map): keys of that map
			if kc := asCall(a.X); kc != nil && strings.HasPrefix(calleeName(&kc.Call), "metrics.sortedKeys") {
				var out []string
				n := 0
				eachInstr(k.fn, func(i ssa.Instruction) {
					if mu, ok := i.(*ssa.MapUpdate); ok && mu.Map == kc.Call.Args[0] {
						n++
						out = append(out, k.classify(mu.Key)...)
					}
				})
				if n == 0 {
					out = append(out, "keys of "+desc(kc.Call.Args[0]))
				}
				return out
			}
		case *ssa.FieldAddr:
			return k.field(a.X.Type().Underlying().(*types.Pointer).Elem(), a.Field, a)
		}
	case *ssa.Field:
		return k.field(x.X.Type(), x.Field, nil)
	}
	return []string{desc(v)}
}

func (k *c36cls) field(owner types.Type, idx int, fa *ssa.FieldAddr) []string {
	st := owner.Underlying().(*types.Struct)
	f := st.Field(idx)
	if k.isEnum(f.Type()) {
		return nil
	}
	// a struct local to the analysed package (e.g. forwardWithPath): follow the stores to that field
	if n, ok := types.Unalias(owner).(*types.Named); ok && n.Obj().Pkg() != nil && n.Obj().Parent() != n.Obj().Pkg().Scope() {
		var out []string
		cnt := 0
		eachInstr(k.fn, func(i ssa.Instruction) {
			s, ok := i.(*ssa.Store)
			if !ok {
				return
			}
			if a, ok := s.Addr.(*ssa.FieldAddr); ok && a.Field == idx && types.Identical(a.X.Type().Underlying().(*types.Pointer).Elem(), owner) {
				cnt++
				out = append(out, k.classify(s.Val)...)
			}
		})
		if cnt > 0 {
			return out
		}
	}
	return []string{typeStr(owner) + "." + f.Name()}
}

// itemRoot strips conversions, loads, field selections and String() calls.
func itemRoot(v ssa.Value) (root ssa.Value, field string) {
	for {
		switch x := v.(type) {
		case *ssa.Convert:
			v = x.X
		case *ssa.ChangeType:
			v = x.X
		case *ssa.UnOp:
			if x.Op != token.MUL {
				return v, field
			}
			if _, isAlloc := x.X.(*ssa.Alloc); isAlloc {
				return x.X, field
			}
			v = x.X
		case *ssa.FieldAddr:
			if field == "" {
				field = x.X.Type().Underlying().(*types.Pointer).Elem().Underlying().(*types.Struct).Field(x.Field).Name()
			}
			v = x.X
		case *ssa.Field:
			if field == "" {
				field = x.X.Type().Underlying().(*types.Struct).Field(x.Field).Name()
			}
			v = x.X
		case *ssa.Call:
			if calleeName(&x.Call) == "(github.com/google/uuid.UUID).String" {
				v = x.Call.Args[0]
				field = "-"
				continue
			}
			return v, field
		default:
			return v, field
		}
	}
}

func (c *Ctx) c36Sites(p *Prog, escaped bool) {
	nTags, nMetric, nSrc, nName, nAgg := 0, 0, 0, 0, 0
	entity := map[string]bool{}
	var firstEntityPos token.Pos
	for _, fn := range p.ModFuncs() {
		fname := fnName(fn)
		if strings.HasPrefix(fname, "internal/metrics.metric") || fname == "internal/metrics.tags" {
			continue
		}
		tagCalls := callsIn(fn, "metrics.tags")
		metricCalls := callsIn(fn, "metrics.metric", "metrics.metricFloat")
		if len(tagCalls)+len(metricCalls) == 0 {
			continue
		}
		c.Analysed(fname)
		// ---- tags sites
		type tinfo struct {
			vals  []ssa.Value
			roots map[ssa.Value]bool
		}
		tinfos := map[ssa.Value]*tinfo{}
		for _, ti := range tagCalls {
			tc := ti.(*ssa.Call)
			nTags++
			mm, ok := tc.Call.Args[0].(*ssa.MakeMap)
			if !c.Check("C36.label_key", fname+": tags argument is a map literal", ok, p.Pos(tc.Pos()), desc(tc.Call.Args[0])) {
				continue
			}
			info := &tinfo{roots: map[ssa.Value]bool{}}
			tinfos[tc] = info
			for _, r := range *mm.Referrers() {
				mu, ok := r.(*ssa.MapUpdate)
				if !ok {
					if r != ssa.Instruction(tc) {
						if _, dbg := r.(*ssa.DebugRef); !dbg {
							c.Check("C36.label_key", fname+": label map is only filled by its literal", false, p.Pos(posOf(r, fn)), r.String())
						}
					}
					continue
				}
				ks, isC := constString(mu.Key)
				c.Check("C36.label_key", fname+": label key "+desc(mu.Key)+" is a constant Prometheus label name", isC && reLabelName.MatchString(ks) && !strings.HasPrefix(ks, "__"), p.Pos(tc.Pos()), "")
				info.vals = append(info.vals, mu.Value)
				if _, isConst := mu.Value.(*ssa.Const); !isConst {
					r0, _ := itemRoot(mu.Value)
					info.roots[r0] = true
				}
				cl := &c36cls{p: p, fn: fn, seen: map[ssa.Value]bool{}}
				for _, e := range cl.classify(mu.Value) {
					if !entity[e+" → label "+ks] && firstEntityPos == token.NoPos {
						firstEntityPos = tc.Pos()
					}
					entity[e+" → label "+ks] = true
				}
			}
		}
		// ---- metric sites
		for _, mi := range metricCalls {
			mc := mi.(*ssa.Call)
			nMetric++
			a := mc.Call.Args
			key, isC := constString(a[1])
			c.Check("C36.metric.name", fname+": metric name "+desc(a[1])+" is a constant of the metric-name grammar", isC && reMetricName.MatchString(key), p.Pos(mc.Pos()), "")
			var tc *ssa.Call
			if s, isStr := constString(a[2]); isStr {
				c.Check("C36.metric.labels", fname+": "+key+" constant label set is empty", s == "", p.Pos(mc.Pos()), s)
			} else {
				tc = asCall(a[2])
				if !c.Check("C36.metric.labels", fname+": "+key+" label set is a tags(...) result", tc != nil && isCallTo(tc, "metrics.tags") && tinfos[tc] != nil, p.Pos(mc.Pos()), desc(a[2])) {
					continue
				}
			}
			if _, isConst := a[3].(*ssa.Const); isConst || !isC {
				continue
			}
			if tc == nil {
				c.Check("C36.faithful.same_item", fname+": "+key+" non-constant sample without labels", false, p.Pos(mc.Pos()), desc(a[3]))
				continue
			}
			info := tinfos[tc]
			// map-count idiom: value = M[k] where k is one of the label values
			if lk, ok := deref(a[3]).(*ssa.Lookup); ok {
				okk := false
				for _, v := range info.vals {
					if v == lk.Index {
						okk = true
					}
				}
				c.Check("C36.faithful.same_item", fname+": "+key+" sample is the count for the labelled key", okk, p.Pos(mc.Pos()), desc(a[3]))
				nAgg++
				c.c36AggregateScope(p, fn, fname, key, mc, lk, info.roots)
				continue
			}
			root, field := itemRoot(a[3])
			c.Check("C36.faithful.same_item", fname+": "+key+" sample and labels come from the same item", info.roots[root] && field != "" && field != "-", p.Pos(mc.Pos()),
				"value "+desc(a[3]))
			if field == "" || field == "-" {
				continue
			}
			nName++
			want := snakeCase(field)
			if ex, ok := c36NameExceptions[key]; ok {
				c.Check("C36.faithful.name", fname+": "+key+" reports field "+ex+" (tabled exception)", field == ex, p.Pos(mc.Pos()), "got field "+field)
			} else {
				c.Check("C36.faithful.name", fname+": "+key+" reports the like-named field", strings.HasSuffix(key, "_"+want), p.Pos(mc.Pos()), "got field "+field+" (snake_case "+want+")")
			}
			// source agreement
			if al, ok := root.(*ssa.Alloc); ok {
				if sv := singleStore(al); sv != nil {
					if m := reItemSource.FindStringSubmatch(desc(sv)); m != nil {
						nSrc++
						srv := strings.ToLower(strings.TrimSuffix(m[3], "Server"))
						if !strings.HasSuffix(m[3], "Server") {
							srv = ""
						}
						pre := strings.ToLower(snakeCase(m[2]))
						if srv != "" {
							pre = srv + "_" + pre
						}
						c.Check("C36.faithful.source", fname+": "+key+" is computed from "+m[3]+".API"+m[2]+"List", strings.HasPrefix(key, pre+"_"), p.Pos(mc.Pos()),
							"items come from "+m[3]+".API"+m[2]+"List(), expected metric prefix "+pre+"_")
					}
				}
			}
		}
		// ---- direct writes to the output builder: comments / blank lines
		for _, blk := range fn.Blocks {
			for _, i := range blk.Instrs {
				cc, ok := i.(*ssa.Call)
				if !ok || !isCallTo(cc, "(*strings.Builder).Write*") {
					continue
				}
				if a, isAlloc := cc.Call.Args[0].(*ssa.Alloc); !isAlloc || !passedToMetric(a) {
					continue
				}
				s, isC := constString(cc.Call.Args[1])
				okc := isC && (s == "\n" || (strings.HasPrefix(s, "# ") && strings.HasSuffix(s, "\n") && strings.Count(s, "\n") == 1))
				c.Check("C36.comment", fname+": direct write "+desc(cc.Call.Args[1])+" is a comment line or a blank line", okc, p.Pos(cc.Pos()), "")
			}
		}
	}
	c.Floor("C36.sites.tags", nTags, 24)
	c.Floor("C36.sites.metric", nMetric, 300)
	c.Floor("C36.faithful.name", nName, 140)
	c.Floor("C36.faithful.source", nSrc, 130)
	c.Floor("C36.faithful.aggregate_scope", nAgg, 1)
	var es []string
	for e := range entity {
		es = append(es, e)
	}
	sort.Strings(es)
	c.Count("entity_string_label_values", len(es))
	pos := "-"
	if firstEntityPos != token.NoPos {
		pos = p.Pos(firstEntityPos)
	}
	c.Check("C36.label_value", "metrics.tags: label values are escaped (\\ \" newline), or every label value at every call site is safe by construction",
		escaped || len(es) == 0, pos,
		"tags writes map values verbatim between quotes and these entity strings reach it: "+joinS(es))
}

func passedToMetric(a *ssa.Alloc) bool {
	for _, r := range *a.Referrers() {
		if cc, ok := r.(*ssa.Call); ok && isCallTo(cc, "metrics.metric", "metrics.metricFloat") {
			return true
		}
	}
	return false
}
