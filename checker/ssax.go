package main

// SSA helpers shared by the path-condition engine (E1), the typestate walks
// (E4) and the origin classification (E5): canonical value descriptions,
// branch literals, and a path-insensitive-but-edge-filtered walk over program
// points.

import (
	"fmt"
	"go/constant"
	"go/token"
	"go/types"
	"sort"
	"strings"

	"golang.org/x/tools/go/ssa"
)

// desc renders an SSA value canonically. Parameters are rendered by position
// ($0 is the receiver of a method), loads and representation-only
// conversions are transparent, callees are resolved (never matched by text of
// the source).
func desc(v ssa.Value) string { return descD(v, 14, map[ssa.Value]bool{}) }

func shortPkg(p *types.Package) string {
	if p == nil {
		return ""
	}
	s := p.Path()
	s = strings.TrimPrefix(s, modPath+"/internal/")
	s = strings.TrimPrefix(s, modPath+"/")
	return s
}

func typeStr(t types.Type) string {
	return types.TypeString(t, func(p *types.Package) string { return shortPkg(p) })
}

func calleeName(c *ssa.CallCommon) string {
	if c.IsInvoke() {
		return "(" + typeStr(c.Value.Type()) + ")." + c.Method.Name()
	}
	switch f := c.Value.(type) {
	case *ssa.Function:
		return funcRefName(f)
	case *ssa.Builtin:
		return f.Name()
	case *ssa.MakeClosure:
		return funcRefName(f.Fn.(*ssa.Function))
	}
	return "dyn:" + desc(c.Value)
}

func funcRefName(f *ssa.Function) string {
	if f.Signature.Recv() != nil && f.Parent() == nil {
		return "(" + typeStr(f.Signature.Recv().Type()) + ")." + aliasName(f)
	}
	if f.Parent() != nil {
		return funcRefName(f.Parent()) + "$" + strings.TrimPrefix(f.Name(), f.Parent().Name()+"$")
	}
	pk := ""
	if f.Pkg != nil {
		pk = shortPkg(f.Pkg.Pkg)
	} else if f.Object() != nil {
		pk = shortPkg(f.Object().Pkg())
	}
	// strip instantiation type arguments position noise
	return pk + "." + aliasName(f)
}

func paramIndex(p *ssa.Parameter) int {
	for i, q := range p.Parent().Params {
		if q == p {
			return i
		}
	}
	return -1
}

// singleStore returns the only value stored to an Alloc in its function, or
// nil when there are zero or several stores (or the address escapes to a
// callee before the store - accepted, the description is only a name).
func singleStore(a *ssa.Alloc) ssa.Value {
	var st ssa.Value
	n := 0
	for _, r := range *a.Referrers() {
		if s, ok := r.(*ssa.Store); ok && s.Addr == a {
			st = s.Val
			n++
		}
	}
	if n == 1 {
		return st
	}
	return nil
}

// descCache memoises descriptions that did not depend on the traversal
// state (no depth cut-off, no cycle marker); nested phis otherwise make desc
// exponential on large functions. Reset on every program load.
var (
	descCache = map[ssa.Value]string{}
	descDirty bool
)

func descD(v ssa.Value, d int, seen map[ssa.Value]bool) string {
	if len(descBind) > 0 && v != nil {
		// a value of a helper that is currently bound to one call site is
		// described for that call: neither read from nor written to the cache
		if pf := v.Parent(); pf != nil && descBind[pf] != nil {
			before := descDirty
			s := descD0(v, d, seen)
			descDirty = true || before
			return s
		}
	}
	if s, ok := descCache[v]; ok {
		return s
	}
	before := descDirty
	descDirty = false
	s := descD0(v, d, seen)
	if !descDirty && v != nil {
		descCache[v] = s
	}
	descDirty = descDirty || before
	return s
}

func descD0(v ssa.Value, d int, seen map[ssa.Value]bool) string {
	if v == nil {
		return "<nil>"
	}
	if d <= 0 {
		descDirty = true
		return "…"
	}
	rec := func(x ssa.Value) string { return descD(x, d-1, seen) }
	switch x := v.(type) {
	case *ssa.Parameter:
		if c := descBind[x.Parent()]; c != nil {
			// bound to one call site (Walker frame / inlined result): the argument of that call
			if k := paramIndex(x); k >= 0 && k < len(c.Call.Args) {
				delete(descBind, x.Parent())
				s := rec(c.Call.Args[k])
				descBind[x.Parent()] = c
				descDirty = true
				return s
			}
		}
		if isNewHelper(x.Parent()) && seen[x] {
			descDirty = true
		}
		if isNewHelper(x.Parent()) && !seen[x] {
			seen[x] = true
			s, ok := helperParamDesc(x, rec)
			delete(seen, x)
			if ok {
				return s
			}
		}
		return fmt.Sprintf("$%d", paramIndex(x))
	case *ssa.FreeVar:
		if a, ok := freeVarAlias(x); ok {
			return "free:" + a
		}
		return "free:" + x.Name()
	case *ssa.Const:
		if x.IsNil() {
			return "nil"
		}
		if x.Value == nil {
			return "zero(" + typeStr(x.Type()) + ")"
		}
		if x.Value.Kind() == constant.String {
			return fmt.Sprintf("%q", constant.StringVal(x.Value))
		}
		return x.Value.ExactString()
	case *ssa.Global:
		return shortPkg(x.Pkg.Pkg) + "." + x.Name()
	case *ssa.Function:
		return "func:" + funcRefName(x)
	case *ssa.Builtin:
		return x.Name()
	case *ssa.Alloc:
		if sv := singleStore(x); sv != nil && !seen[x] {
			seen[x] = true
			s := rec(sv)
			delete(seen, x)
			return s
		}
		if seen[x] {
			descDirty = true
		}
		return "new(" + typeStr(x.Type().(*types.Pointer).Elem()) + ")"
	case *ssa.FieldAddr:
		st := x.X.Type().Underlying().(*types.Pointer).Elem().Underlying().(*types.Struct)
		return rec(x.X) + "." + st.Field(x.Field).Name()
	case *ssa.Field:
		st := x.X.Type().Underlying().(*types.Struct)
		return rec(x.X) + "." + st.Field(x.Field).Name()
	case *ssa.UnOp:
		switch x.Op {
		case token.MUL:
			if a, ok := x.X.(*ssa.Alloc); ok {
				if sv := singleStore(a); sv != nil && !seen[a] {
					seen[a] = true
					s := rec(sv)
					delete(seen, a)
					return s
				}
				if seen[a] {
					descDirty = true
				}
			}
			return rec(x.X)
		case token.ARROW:
			return "<-" + rec(x.X)
		}
		return x.Op.String() + rec(x.X)
	case *ssa.BinOp:
		return "(" + rec(x.X) + " " + x.Op.String() + " " + rec(x.Y) + ")"
	case *ssa.Call:
		if h := newHelperCallee(x); h != nil && h.Signature.Results().Len() == 1 && !seen[x] {
			seen[x] = true
			s, ok := helperResultDesc(x, h, 0, rec)
			delete(seen, x)
			if ok {
				return s
			}
		}
		var args []string
		for _, a := range x.Call.Args {
			args = append(args, rec(a))
		}
		if x.Call.IsInvoke() {
			args = append([]string{rec(x.Call.Value)}, args...)
		}
		return calleeName(&x.Call) + "(" + strings.Join(args, ", ") + ")"
	case *ssa.Extract:
		if c, isCall := x.Tuple.(*ssa.Call); isCall && !seen[x] {
			if h := newHelperCallee(c); h != nil {
				seen[x] = true
				s, ok := helperResultDesc(c, h, x.Index, rec)
				delete(seen, x)
				if ok {
					return s
				}
			}
		}
		return rec(x.Tuple) + "#" + fmt.Sprint(x.Index)
	case *ssa.ChangeType:
		return rec(x.X)
	case *ssa.Convert:
		return rec(x.X)
	case *ssa.ChangeInterface:
		return rec(x.X)
	case *ssa.MakeInterface:
		return rec(x.X)
	case *ssa.SliceToArrayPointer:
		return rec(x.X)
	case *ssa.MultiConvert:
		return rec(x.X)
	case *ssa.Phi:
		if seen[x] {
			descDirty = true
			return "phi↺"
		}
		seen[x] = true
		var es []string
		dup := map[string]bool{}
		for _, e := range x.Edges {
			s := rec(e)
			if !dup[s] {
				dup[s] = true
				es = append(es, s)
			}
		}
		delete(seen, x)
		sort.Strings(es)
		if len(es) == 1 {
			return es[0]
		}
		return "phi(" + strings.Join(es, " | ") + ")"
	case *ssa.IndexAddr:
		return rec(x.X) + "[" + idxStr(x.Index) + "]"
	case *ssa.Index:
		return rec(x.X) + "[" + idxStr(x.Index) + "]"
	case *ssa.Lookup:
		return rec(x.X) + "[" + rec(x.Index) + "]"
	case *ssa.Slice:
		p := func(v ssa.Value) string {
			if v == nil {
				return ""
			}
			return rec(v)
		}
		return rec(x.X) + "[" + p(x.Low) + ":" + p(x.High) + "]"
	case *ssa.TypeAssert:
		return rec(x.X) + ".(" + typeStr(x.AssertedType) + ")"
	case *ssa.MakeClosure:
		return "closure:" + funcRefName(x.Fn.(*ssa.Function))
	case *ssa.MakeMap:
		return "makemap(" + typeStr(x.Type()) + ")"
	case *ssa.MakeSlice:
		return "makeslice(" + typeStr(x.Type()) + ", " + rec(x.Len) + ")"
	case *ssa.MakeChan:
		return "makechan(" + typeStr(x.Type()) + ")"
	case *ssa.Range:
		return "range(" + rec(x.X) + ")"
	case *ssa.Next:
		return "next(" + rec(x.Iter) + ")"
	case *ssa.Select:
		return "select"
	}
	return fmt.Sprintf("%T", v)
}

// idxStr renders constant indices exactly and every other index as "_"
// (loop counters are irrelevant to the rules and unstable to render).
func idxStr(v ssa.Value) string {
	if c, ok := v.(*ssa.Const); ok && c.Value != nil {
		return c.Value.ExactString()
	}
	return "_"
}

// Lit is a branch literal: atom holds (Pos) or does not hold.
type Lit struct {
	Atom string
	Pos  bool
}

func (l Lit) String() string {
	if l.Pos {
		return l.Atom
	}
	return "!" + l.Atom
}

func isConst(v ssa.Value) bool { _, ok := v.(*ssa.Const); return ok }

// litOf canonicalises a branch condition taken with the given outcome.
//   - !x            -> x with flipped polarity
//   - a != b        -> (a == b) flipped; operands ordered (constant last)
//   - a > b, a >= b -> (b < a), !(a < b); a <= b -> !(b < a)
func litOf(cond ssa.Value, outcome bool) Lit {
	switch x := cond.(type) {
	case *ssa.UnOp:
		if x.Op == token.NOT {
			return litOf(x.X, !outcome)
		}
	case *ssa.BinOp:
		a, b := desc(x.X), desc(x.Y)
		switch x.Op {
		case token.EQL, token.NEQ:
			if isConst(x.X) && !isConst(x.Y) || (!isConst(x.Y) && !isConst(x.X) && a > b) {
				a, b = b, a
			}
			pos := outcome
			if x.Op == token.NEQ {
				pos = !pos
			}
			return Lit{"(" + a + " == " + b + ")", pos}
		}
		// comparisons of a non-negative quantity (len, cap, unsigned) against
		// 0 or 1 are emptiness tests: x > 0, x >= 1, 0 < x, 1 <= x are
		// !(x == 0); x < 1, x <= 0, 1 > x, 0 >= x are (x == 0)
		if l, ok := emptinessLit(x, a, b, outcome); ok {
			return l
		}
		switch x.Op {
		case token.LSS:
			return Lit{"(" + a + " < " + b + ")", outcome}
		case token.GTR:
			return Lit{"(" + b + " < " + a + ")", outcome}
		case token.GEQ:
			return Lit{"(" + a + " < " + b + ")", !outcome}
		case token.LEQ:
			return Lit{"(" + b + " < " + a + ")", !outcome}
		}
	}
	return Lit{desc(cond), outcome}
}

// nonNegative: the value is a len/cap result or has an unsigned type.
func nonNegative(v ssa.Value) bool {
	if b, ok := v.Type().Underlying().(*types.Basic); ok && b.Info()&types.IsUnsigned != 0 {
		return true
	}
	if c, ok := v.(*ssa.Call); ok {
		if bi, ok := c.Call.Value.(*ssa.Builtin); ok && (bi.Name() == "len" || bi.Name() == "cap") {
			return true
		}
	}
	return false
}

func smallConst(v ssa.Value) (int64, bool) {
	c, ok := v.(*ssa.Const)
	if !ok || c.Value == nil || c.Value.Kind() != constant.Int {
		return 0, false
	}
	n, exact := constant.Int64Val(c.Value)
	return n, exact
}

func emptinessLit(x *ssa.BinOp, a, b string, outcome bool) (Lit, bool) {
	// normalise to "v OP k" with the constant on the right
	v, k, op := x.X, x.Y, x.Op
	vd := a
	if _, ok := smallConst(x.X); ok {
		v, k, vd = x.Y, x.X, b
		switch op {
		case token.LSS:
			op = token.GTR
		case token.GTR:
			op = token.LSS
		case token.LEQ:
			op = token.GEQ
		case token.GEQ:
			op = token.LEQ
		}
	}
	n, ok := smallConst(k)
	if !ok || !nonNegative(v) {
		return Lit{}, false
	}
	atom := "(" + vd + " == 0)"
	switch {
	case op == token.GTR && n == 0, op == token.GEQ && n == 1:
		return Lit{atom, !outcome}, true
	case op == token.LSS && n == 1, op == token.LEQ && n == 0:
		return Lit{atom, outcome}, true
	}
	return Lit{}, false
}

// litOfEq is litOf for an (in)equality given by its operands.
func litOfEq(x, y ssa.Value, op token.Token, outcome bool) Lit {
	a, b := desc(x), desc(y)
	if isConst(x) && !isConst(y) || (!isConst(y) && !isConst(x) && a > b) {
		a, b = b, a
	}
	pos := outcome
	if op == token.NEQ {
		pos = !pos
	}
	return Lit{"(" + a + " == " + b + ")", pos}
}

// Point is a program point: instruction I of block B.
type Point struct {
	B *ssa.BasicBlock
	I int
}

const (
	wContinue = iota
	wHit
	wStop
)

// Walker explores every program point reachable from a start point.
// Visit classifies each instruction (continue / hit / stop the path). Edge
// decides whether a conditional edge carrying the literal may be followed.
// Conditions that are phis of boolean constants defined in the branching
// block are resolved per incoming edge (the `x := a && b; if x` idiom), so
// infeasible constant branches are not followed.
type Walker struct {
	Visit func(ssa.Instruction) int
	Edge  func(Lit) bool
	// Stable lists atoms whose value cannot change while the function runs
	// (the rule that sets it must justify that, e.g. by a who-may-store
	// obligation). A path testing such an atom twice with opposite outcomes
	// is infeasible and is not followed.
	Stable []string
}

type Witness struct {
	Hit    ssa.Instruction
	Blocks []*ssa.BasicBlock
	Lits   []Lit
}

func (w *Witness) String(p *Prog) string {
	if w == nil {
		return ""
	}
	var ls []string
	for _, l := range w.Lits {
		ls = append(ls, l.String())
	}
	var bs []string
	for _, b := range w.Blocks {
		bs = append(bs, fmt.Sprint(b.Index))
	}
	s := "path blocks " + strings.Join(bs, ">")
	if w.Hit != nil {
		s += " reaches " + p.Pos(w.Hit.Pos())
	}
	if len(ls) > 0 {
		if len(ls) > 12 {
			ls = ls[len(ls)-12:]
		}
		s += " under [" + strings.Join(ls, " ∧ ") + "]"
	}
	return s
}

type wframe struct {
	call   *ssa.Call
	parent *wframe
	depth  int
	tail   bool // the helper's returns are returns of the walked function
}

type wstate struct {
	b    *ssa.BasicBlock
	pred int
	from int
	env  string // polarities recorded for the atoms tested on this path
	fr   *wframe
}

// curRet: while Visit is called for a Return whose boolean result is not a
// constant, the Walker visits it once per outcome (having followed the
// corresponding literal, exactly as for `if v { return true }; return false`)
// and publishes the outcome here; retBool consults it.
var curRet struct {
	r       *ssa.Return
	idx     int
	outcome bool
	konst   bool // the outcome is a constant selected by the incoming edge of a phi
}

// boolResultIndex returns the index of the only boolean result of fn, or -1.
func boolResultIndex(fn *ssa.Function) int {
	res := fn.Signature.Results()
	k := -1
	for i := 0; i < res.Len(); i++ {
		if b, ok := res.At(i).Type().Underlying().(*types.Basic); ok && b.Kind() == types.Bool {
			if k >= 0 {
				return -1
			}
			k = i
		}
	}
	return k
}

// Run returns a witness for the first hit, or nil when no hit is reachable.
func (w *Walker) Run(start Point) *Witness {
	type item struct {
		st     wstate
		parent int
		lit    *Lit
	}
	var items []item
	seen := map[wstate]bool{}
	push := func(b *ssa.BasicBlock, pred, from, parent int, lit *Lit, env string, fr *wframe) {
		st := wstate{b, pred, from, env, fr}
		if seen[st] {
			return
		}
		seen[st] = true
		items = append(items, item{st, parent, lit})
	}
	type frameKey struct {
		call   *ssa.Call
		parent *wframe
	}
	frames := map[frameKey]*wframe{}
	enter := func(call *ssa.Call, parent *wframe) *wframe {
		k := frameKey{call, parent}
		if f := frames[k]; f != nil {
			return f
		}
		d := 1
		if parent != nil {
			d = parent.depth + 1
		}
		f := &wframe{call, parent, d, (parent == nil || parent.tail) && helperIdx[call.Call.StaticCallee()].tail}
		frames[k] = f
		return f
	}
	inFrames := func(fr *wframe, h *ssa.Function) bool {
		for ; fr != nil; fr = fr.parent {
			if fr.call.Call.StaticCallee() == h {
				return true
			}
		}
		return false
	}
	// descriptions inside a frame are made for the frame's call site
	savedBind := descBind
	defer func() { descBind = savedBind }()
	bind := func(fr *wframe) {
		descBind = map[*ssa.Function]*ssa.Call{}
		for k, v := range savedBind {
			descBind[k] = v
		}
		for f := fr; f != nil; f = f.parent {
			if h := f.call.Call.StaticCallee(); descBind[h] == nil || f == fr {
				descBind[h] = f.call
			}
		}
	}
	// results of inlined helper calls, remembered along the path (tag \x03)
	callNo := map[*ssa.Call]int{}
	var vals []ssa.Value
	valNo := map[ssa.Value]int{}
	record := func(env string, call *ssa.Call, idx int, v ssa.Value) string { // G4: per result index
		ci, ok := callNo[call]
		if !ok {
			ci = len(callNo)
			callNo[call] = ci
		}
		vi, ok := valNo[v]
		if !ok {
			vi = len(vals)
			vals = append(vals, v)
			valNo[v] = vi
		}
		pre := fmt.Sprintf("\x03c%d.%d=", ci, idx)
		if i := strings.Index(env, pre); i >= 0 {
			j := strings.Index(env[i:], "\x02")
			env = env[:i] + env[i+j+1:]
		}
		return env + pre + fmt.Sprint(vi) + "\x02"
	}
	lookup := func(env string, call *ssa.Call, idx int) ssa.Value { // G4: per result index
		ci, ok := callNo[call]
		if !ok {
			return nil
		}
		pre := fmt.Sprintf("\x03c%d.%d=", ci, idx)
		i := strings.Index(env, pre)
		if i < 0 {
			return nil
		}
		rest := env[i+len(pre):]
		j := strings.Index(rest, "\x02")
		vi := 0
		fmt.Sscan(rest[:j], &vi)
		if vi < len(vals) {
			return vals[vi]
		}
		return nil
	}
	push(start.B, -1, start.I, -1, nil, "", nil)
	mkWitness := func(idx int, hit ssa.Instruction, extra *Lit) *Witness {
		wt := &Witness{Hit: hit}
		for i := idx; i >= 0; i = items[i].parent {
			wt.Blocks = append([]*ssa.BasicBlock{items[i].st.b}, wt.Blocks...)
			if items[i].lit != nil {
				wt.Lits = append([]Lit{*items[i].lit}, wt.Lits...)
			}
		}
		if extra != nil {
			wt.Lits = append(wt.Lits, *extra)
		}
		return wt
	}
	// edgeEnv applies the contradiction pruning for literal l of condition cond;
	// ok=false when the edge contradicts an earlier test on this path.
	edgeEnv := func(env string, cond ssa.Value, l Lit) (string, bool) {
		if st := w.isStable(l.Atom); st || pureCond(cond, 0) {
			tag := "\x00"
			if st {
				tag = "\x01"
			}
			yes, no := tag+l.Atom+"=T\x02", tag+l.Atom+"=F\x02"
			mine, other := yes, no
			if !l.Pos {
				mine, other = no, yes
			}
			if strings.Contains(env, other) {
				return env, false
			}
			if !strings.Contains(env, mine) {
				env += mine
			}
		}
		return env, true
	}
	// phiEdge resolves a phi defined in block b against the incoming edge
	phiEdge := func(v ssa.Value, b *ssa.BasicBlock, st wstate) ssa.Value {
		if ph, ok := v.(*ssa.Phi); ok && ph.Block() == b && st.pred >= 0 && st.pred < len(ph.Edges) && st.from == 0 {
			return ph.Edges[st.pred]
		}
		return v
	}
	for qi := 0; qi < len(items); qi++ {
		it := items[qi]
		b := it.st.b
		fr := it.st.fr
		bind(fr)
		stopped, clobbered := false, false
		for i := it.st.from; i < len(b.Instrs); i++ {
			ins := b.Instrs[i]
			if _, ok := ins.(*ssa.Phi); ok {
				continue
			}
			ret, isRet := ins.(*ssa.Return)
			// the return of an inlined new helper continues after the call
			if isRet && !(fr != nil && fr.tail) && (fr != nil || isNewHelper(b.Parent())) {
				if fr != nil {
					cont := after(fr.call)
					env := stableOnly(it.st.env)
					// G4: every result of the return taken, through result slots
					for ri := range ret.Results {
						rv := retVal(ret, ri)
						if rv == ret.Results[ri] {
							rv = phiEdge(rv, b, it.st)
						}
						env = record(env, fr.call, ri, rv)
					}
					push(cont.B, -1, cont.I, qi, nil, env, fr.parent)
				} else {
					for _, site := range helperIdx[b.Parent()].sites {
						cont := after(site)
						push(cont.B, -1, cont.I, qi, nil, stableOnly(it.st.env), nil)
					}
				}
				stopped = true
				break
			}
			// a return of the walked function (or of a tail-called helper) with a
			// non-constant boolean result: one visit per outcome
			if isRet && w.Visit != nil {
				if k := boolResultIndex(b.Parent()); k >= 0 && k < len(ret.Results) {
					v := phiEdge(retVal(ret, k), b, it.st)
					if _, isConst := constBool(v); !isConst {
						for _, outcome := range []bool{true, false} {
							l := litOf(v, outcome)
							if w.Edge != nil && !w.Edge(l) {
								continue
							}
							if _, ok := edgeEnv(it.st.env, v, l); !ok {
								continue
							}
							curRet.r, curRet.idx, curRet.outcome = ret, k, outcome
							res := w.Visit(ins)
							curRet.r = nil
							if res == wHit {
								return mkWitness(qi, ins, &l)
							}
						}
						stopped = true
						break
					} else if v != retVal(ret, k) {
						// constant selected by the incoming edge of a phi
						cv, _ := constBool(v)
						curRet.r, curRet.idx, curRet.outcome, curRet.konst = ret, k, cv, true
						res := w.Visit(ins)
						curRet.r, curRet.konst = nil, false
						if res == wHit {
							return mkWitness(qi, ins, nil)
						}
						stopped = true
						break
					}
				}
			}
			if w.Visit != nil {
				switch w.Visit(ins) {
				case wHit:
					return mkWitness(qi, ins, nil)
				case wStop:
					stopped = true
				}
			}
			if stopped || isRet {
				stopped = true
				break
			}
			if h := newHelperCallee(ins); h != nil && (fr == nil || fr.depth < 4) && !inFrames(fr, h) {
				// facts do not cross the frame boundary: the same helper may run twice with different arguments
				env := it.st.env
				if clobbered {
					env = stableOnly(env)
				}
				push(h.Blocks[0], -1, 0, qi, nil, stableOnly(env), enter(ins.(*ssa.Call), fr))
				stopped = true // the walk continues inside the helper
				break
			}
			if clobbers(ins) {
				clobbered = true
			}
		}
		if stopped || len(b.Instrs) == 0 {
			continue
		}
		if clobbered {
			it.st.env = stableOnly(it.st.env)
		}
		predIdx := func(s *ssa.BasicBlock) int {
			for k, p := range s.Preds {
				if p == b {
					return k
				}
			}
			return -1
		}
		last := b.Instrs[len(b.Instrs)-1]
		if ifi, ok := last.(*ssa.If); ok {
			cond := ifi.Cond
			// resolve a phi defined in this block against the incoming edge
			cond = phiEdge(cond, b, it.st)
			if un, ok := cond.(*ssa.UnOp); ok && un.Op == token.NOT {
				if ph, ok := un.X.(*ssa.Phi); ok && ph.Block() == b && it.st.pred >= 0 && it.st.pred < len(ph.Edges) && it.st.from == 0 {
					if c, ok := ph.Edges[it.st.pred].(*ssa.Const); ok && c.Value != nil && c.Value.Kind() == constant.Bool {
						cond = ssa.NewConst(constant.MakeBool(!constant.BoolVal(c.Value)), c.Type())
					}
				}
			}
			// a condition that is the result of an inlined helper call: the value it returned on this path
			flip := false
			var resolvedFor *ssa.Call
			var eqX, eqY ssa.Value // a comparison with a resolved operand
			var eqOp token.Token
			var eqNeg bool
			var eqCalls []*ssa.Call
			{
				base, neg := cond, false
				for {
					un, ok := base.(*ssa.UnOp)
					if !ok || un.Op != token.NOT {
						break
					}
					base, neg = un.X, !neg
				}
				if cl, ok := base.(*ssa.Call); ok && newHelperCallee(cl) != nil {
					if v := lookup(it.st.env, cl, 0); v != nil {
						cond, flip, resolvedFor = v, neg, cl
					}
				}
				// G4: result #i of an inlined helper call
				if ex, ok := base.(*ssa.Extract); ok {
					if cl, ok := ex.Tuple.(*ssa.Call); ok && newHelperCallee(cl) != nil {
						if v := lookup(it.st.env, cl, ex.Index); v != nil {
							cond, flip, resolvedFor = v, neg, cl
						}
					}
				}
				// G4: comparison of such a result with a constant, when the value
				// returned on this path is a constant too (x, nil / 0, false ...)
				if bo, ok := base.(*ssa.BinOp); ok && (bo.Op == token.EQL || bo.Op == token.NEQ) {
					resolveOp := func(v ssa.Value) ssa.Value {
						switch x := v.(type) {
						case *ssa.Extract:
							if cl, ok := x.Tuple.(*ssa.Call); ok && newHelperCallee(cl) != nil {
								if r := lookup(it.st.env, cl, x.Index); r != nil {
									return r
								}
							}
						case *ssa.Call:
							if newHelperCallee(x) != nil {
								if r := lookup(it.st.env, x, 0); r != nil {
									return r
								}
							}
						}
						return v
					}
					x, y := resolveOp(bo.X), resolveOp(bo.Y)
					cx, okx := x.(*ssa.Const)
					cy, oky := y.(*ssa.Const)
					if okx && oky && (x != bo.X || y != bo.Y) {
						eq, known := false, false
						switch {
						case cx.Value == nil && cy.Value == nil:
							eq, known = true, true // nil == nil (zero values of the same type)
						case cx.Value != nil && cy.Value != nil:
							eq, known = constant.Compare(cx.Value, token.EQL, cy.Value), true
						}
						if known {
							val := eq == (bo.Op == token.EQL)
							cond, flip, resolvedFor = ssa.NewConst(constant.MakeBool(val), bo.Type()), neg, nil
						}
					} else if x != bo.X || y != bo.Y {
						// the helper returned a computed value (`return v, err`): the caller's
						// `err != nil` is the test of that value, described for that call
						eqX, eqY, eqOp, eqNeg = x, y, bo.Op, neg
						for _, o := range []ssa.Value{bo.X, bo.Y} {
							if ex, ok := o.(*ssa.Extract); ok {
								o = ex.Tuple
							}
							if cl, ok := o.(*ssa.Call); ok && newHelperCallee(cl) != nil {
								eqCalls = append(eqCalls, cl)
							}
						}
					}
				}
			}
			for k, s := range b.Succs {
				outcome := (k == 0) != flip
				if c, ok := cond.(*ssa.Const); ok && c.Value != nil && c.Value.Kind() == constant.Bool {
					if constant.BoolVal(c.Value) != outcome {
						continue // infeasible
					}
					push(s, predIdx(s), 0, qi, nil, it.st.env, fr)
					continue
				}
				var l Lit
				if eqX != nil {
					saved := map[*ssa.Function]*ssa.Call{}
					for _, cl := range eqCalls {
						h := cl.Call.StaticCallee()
						saved[h] = descBind[h]
						descBind[h] = cl
					}
					l = litOfEq(eqX, eqY, eqOp, (k == 0) != eqNeg)
					for h, prev := range saved {
						if prev != nil {
							descBind[h] = prev
						} else {
							delete(descBind, h)
						}
					}
				} else if resolvedFor != nil {
					h := resolvedFor.Call.StaticCallee()
					prev, had := descBind[h]
					descBind[h] = resolvedFor
					l = litOf(cond, outcome)
					if had {
						descBind[h] = prev
					} else {
						delete(descBind, h)
					}
				} else {
					l = litOf(cond, outcome)
				}
				if w.Edge != nil && !w.Edge(l) {
					continue
				}
				env := it.st.env
				if s.Dominates(b) {
					env = loopReset(env) // loop back edge: values are redefined
				}
				if resolvedFor == nil && eqX == nil {
					var ok bool
					if env, ok = edgeEnv(env, cond, l); !ok {
						continue // contradicts an earlier test of the same atom
					}
				}
				push(s, predIdx(s), 0, qi, &l, env, fr)
			}
			continue
		}
		for _, s := range b.Succs {
			env := it.st.env
			if s.Dominates(b) {
				env = loopReset(env)
			}
			push(s, predIdx(s), 0, qi, nil, env, fr)
		}
	}
	return nil
}

// clobbers: the instruction may change memory (or consumes an event), so a
// condition over loaded values tested before it may evaluate differently
// after it.
func clobbers(ins ssa.Instruction) bool {
	switch x := ins.(type) {
	case *ssa.Store, *ssa.MapUpdate, *ssa.Send, *ssa.Select, *ssa.Go, *ssa.Defer, *ssa.RunDefers, *ssa.Next, *ssa.Panic:
		return true
	case *ssa.Call:
		if bi, ok := x.Call.Value.(*ssa.Builtin); ok {
			switch bi.Name() {
			case "len", "cap", "min", "max", "real", "imag", "complex":
				return false
			}
		}
		return true
	case *ssa.UnOp:
		return x.Op == token.ARROW
	}
	return false
}

// pureCond: the condition is built only from parameters, constants, globals,
// field/index selections, loads, arithmetic and len/cap - two conditions with
// the same description then have the same value unless a clobbering
// instruction lies between them. Phis, call results and locals are excluded
// (equal descriptions do not imply equal values for them).
func pureCond(v ssa.Value, depth int) bool {
	if depth > 12 {
		return false
	}
	switch x := v.(type) {
	case *ssa.Parameter, *ssa.Const, *ssa.Global, *ssa.FreeVar:
		return true
	case *ssa.FieldAddr:
		return pureCond(x.X, depth+1)
	case *ssa.Field:
		return pureCond(x.X, depth+1)
	case *ssa.IndexAddr: // non-constant indices are all rendered "_"
		return pureCond(x.X, depth+1) && isConst(x.Index)
	case *ssa.Index:
		return pureCond(x.X, depth+1) && isConst(x.Index)
	case *ssa.Lookup:
		return !x.CommaOk && pureCond(x.X, depth+1) && pureCond(x.Index, depth+1)
	case *ssa.UnOp:
		return x.Op != token.ARROW && pureCond(x.X, depth+1)
	case *ssa.BinOp:
		return pureCond(x.X, depth+1) && pureCond(x.Y, depth+1)
	case *ssa.Convert:
		return pureCond(x.X, depth+1)
	case *ssa.ChangeType:
		return pureCond(x.X, depth+1)
	case *ssa.ChangeInterface:
		return pureCond(x.X, depth+1)
	case *ssa.MakeInterface:
		return pureCond(x.X, depth+1)
	case *ssa.Call:
		if bi, ok := x.Call.Value.(*ssa.Builtin); ok && (bi.Name() == "len" || bi.Name() == "cap") && len(x.Call.Args) == 1 {
			return pureCond(x.Call.Args[0], depth+1)
		}
	}
	return false
}

// stableOnly drops the recorded outcomes of pure conditions (they may have
// been clobbered); entries of declared-stable atoms (tag \x01) and of inlined
// call results (tag \x03: SSA values) are kept.
func stableOnly(env string) string {
	if !strings.Contains(env, "\x00") {
		return env
	}
	var sb strings.Builder
	for _, part := range strings.SplitAfter(env, "\x02") {
		if strings.HasPrefix(part, "\x01") || strings.HasPrefix(part, "\x03") {
			sb.WriteString(part)
		}
	}
	return sb.String()
}

// loopReset: across a loop back edge SSA values are redefined too.
func loopReset(env string) string {
	if !strings.Contains(env, "\x00") && !strings.Contains(env, "\x03") {
		return env
	}
	var sb strings.Builder
	for _, part := range strings.SplitAfter(env, "\x02") {
		if strings.HasPrefix(part, "\x01") {
			sb.WriteString(part)
		}
	}
	return sb.String()
}

func (w *Walker) isStable(atom string) bool {
	for _, a := range w.Stable {
		if a == atom {
			return true
		}
	}
	return false
}

// entry returns the entry point of a function.
func entry(fn *ssa.Function) Point { return Point{fn.Blocks[0], 0} }

// after returns the point just after an instruction.
func after(ins ssa.Instruction) Point {
	b := ins.Block()
	for i, x := range b.Instrs {
		if x == ins {
			return Point{b, i + 1}
		}
	}
	return Point{b, len(b.Instrs)}
}

// LitPat matches literals. Atom is compared after whitespace-insensitive
// equality; a pattern ending in '*' is a prefix match.
type LitPat struct {
	Atom string
	Pos  bool
}

func atomMatch(pat, atom string) bool {
	if strings.Count(pat, "*") > 0 && globMatch(pat, atom) {
		return true
	}
	pre, suf := strings.HasPrefix(pat, "*"), strings.HasSuffix(pat, "*")
	switch {
	case pre && suf && len(pat) >= 2:
		return strings.Contains(atom, pat[1:len(pat)-1])
	case suf:
		return strings.HasPrefix(atom, strings.TrimSuffix(pat, "*"))
	case pre:
		return strings.HasSuffix(atom, strings.TrimPrefix(pat, "*"))
	}
	if pat == atom {
		return true
	}
	// equality atoms are symmetric
	if strings.Count(pat, " == ") == 1 && strings.HasPrefix(pat, "(") && strings.HasSuffix(pat, ")") {
		i := strings.Index(pat, " == ")
		return "("+pat[i+4:len(pat)-1]+" == "+pat[1:i]+")" == atom
	}
	return false
}

func (p LitPat) match(l Lit) bool { return p.Pos == l.Pos && atomMatch(p.Atom, l.Atom) }

func T(atom string) LitPat { return LitPat{atom, true} }
func F(atom string) LitPat { return LitPat{atom, false} }

// reachWithout reports a path from `from` to an instruction satisfying isTarget
// on which none of the literals in alts holds (nil when every path passes an
// edge carrying one of them). This is the must-pass-through check of E1.
func reachWithout(from Point, isTarget func(ssa.Instruction) bool, alts []LitPat) *Witness {
	w := &Walker{
		Visit: func(i ssa.Instruction) int {
			if isTarget(i) {
				return wHit
			}
			return wContinue
		},
		Edge: func(l Lit) bool {
			for _, a := range alts {
				if a.match(l) {
					return false
				}
			}
			return true
		},
	}
	return w.Run(from)
}

// reachAvoiding: is there a path from `from` to a target that does not
// execute any instruction satisfying `barrier`?
func reachAvoiding(from Point, isTarget, barrier func(ssa.Instruction) bool) *Witness {
	w := &Walker{
		Visit: func(i ssa.Instruction) int {
			if barrier(i) {
				return wStop
			}
			if isTarget(i) {
				return wHit
			}
			return wContinue
		},
	}
	return w.Run(from)
}

// ---- instruction queries ----

func eachInstr(fn *ssa.Function, f func(ssa.Instruction)) {
	if len(helperIdx) > 0 {
		if isNewHelper(fn) {
			return // analysed as part of its callers
		}
		eachInstrDeep(fn, f, map[*ssa.Function]bool{}, 0, true)
		return
	}
	for _, b := range fn.Blocks {
		for _, i := range b.Instrs {
			f(i)
		}
	}
}

// callCommon returns the call of a Call/Go/Defer instruction.
func callCommon(i ssa.Instruction) *ssa.CallCommon {
	switch x := i.(type) {
	case *ssa.Call:
		return &x.Call
	case *ssa.Go:
		return &x.Call
	case *ssa.Defer:
		return &x.Call
	}
	return nil
}

// isCallTo reports whether the instruction is a (static or interface) call of
// a callee with the given canonical name (see calleeName).
func isCallTo(i ssa.Instruction, names ...string) bool {
	c := callCommon(i)
	if c == nil {
		return false
	}
	n := calleeName(c)
	for _, want := range names {
		if atomMatch(want, n) {
			return true
		}
	}
	return false
}

func callsIn(fn *ssa.Function, names ...string) []ssa.Instruction {
	var out []ssa.Instruction
	eachInstr(fn, func(i ssa.Instruction) {
		if isCallTo(i, names...) {
			out = append(out, i)
		}
	})
	return out
}

// returnsOf lists the Return instructions of a function.
func returnsOf(fn *ssa.Function) []*ssa.Return {
	var out []*ssa.Return
	eachInstr(fn, func(i ssa.Instruction) {
		if r, ok := i.(*ssa.Return); ok {
			out = append(out, r)
		}
	})
	return out
}

func constBool(v ssa.Value) (val, ok bool) {
	c, isC := v.(*ssa.Const)
	if !isC || c.Value == nil || c.Value.Kind() != constant.Bool {
		return false, false
	}
	return constant.BoolVal(c.Value), true
}

func isNilConst(v ssa.Value) bool {
	c, ok := v.(*ssa.Const)
	return ok && c.IsNil()
}

// storesTo lists Store instructions in fn whose address is a FieldAddr of the
// named field (struct type name match by types, field by name).
func fieldStores(fn *ssa.Function, structName, field string) []*ssa.Store {
	var out []*ssa.Store
	eachInstr(fn, func(i ssa.Instruction) {
		st, ok := i.(*ssa.Store)
		if !ok {
			return
		}
		if fa, ok := st.Addr.(*ssa.FieldAddr); ok && fieldAddrIs(fa, structName, field) {
			out = append(out, st)
		}
	})
	return out
}

func fieldAddrIs(fa *ssa.FieldAddr, structName, field string) bool {
	pt, ok := fa.X.Type().Underlying().(*types.Pointer)
	if !ok {
		return false
	}
	st, ok := pt.Elem().Underlying().(*types.Struct)
	if !ok || st.Field(fa.Field).Name() != field {
		return false
	}
	if structName == "" {
		return true
	}
	return typeStr(pt.Elem()) == structName
}
