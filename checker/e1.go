package main

// E1 - path-condition rules: "every path from the entry of fn to an effect X
// passes an edge carrying one of the required literals" (must-pass-through on
// the SSA control-flow graph with branch literals), and "X is preceded on every
// path by a call Y" (barrier form).

import (
	"fmt"
	"go/token"
	"strings"

	"golang.org/x/tools/go/ssa"
)

// fn resolves an anchor; an unresolved anchor makes the check undecided.
func (c *Ctx) fn(p *Prog, pkg, recv, name string) *ssa.Function {
	if p == nil {
		return nil
	}
	f := p.Func(pkg, recv, name)
	if f == nil || f.Blocks == nil {
		c.Undecided(fmt.Sprintf("UNRESOLVED ANCHOR func %s (%s).%s [%s]", pkg, recv, name, c.curCfg))
		return nil
	}
	c.Analysed(fnName(f))
	return f
}

// retVal returns result i of a Return, looking through the spill slots that
// go/ssa introduces for functions with defers (named results stored to an
// Alloc just before RunDefers).
func retVal(r *ssa.Return, i int) ssa.Value {
	if i >= len(r.Results) {
		return nil
	}
	v := r.Results[i]
	u, ok := v.(*ssa.UnOp)
	if !ok || u.Op != token.MUL {
		return v
	}
	a, ok := u.X.(*ssa.Alloc)
	if !ok {
		return v
	}
	b := r.Block()
	for k := len(b.Instrs) - 1; k >= 0; k-- {
		if st, ok := b.Instrs[k].(*ssa.Store); ok && st.Addr == a {
			return st.Val
		}
	}
	return v
}

type target func(ssa.Instruction) bool

// retConstBool: a return whose result idx is the boolean constant val (and
// nothing else: a computed result that happens to be val is not matched).
func retConstBool(idx int, val bool) target {
	return func(i ssa.Instruction) bool {
		r, ok := i.(*ssa.Return)
		if !ok {
			return false
		}
		if curRet.r == r {
			return curRet.konst && curRet.idx == idx && curRet.outcome == val
		}
		v, isC := constBool(retVal(r, idx))
		return isC && v == val
	}
}

func retBool(idx int, val bool) target {
	return func(i ssa.Instruction) bool {
		r, ok := i.(*ssa.Return)
		if !ok {
			return false
		}
		if curRet.r == r && curRet.idx == idx {
			return curRet.outcome == val // the Walker is visiting this outcome of a non-constant result
		}
		v, isC := constBool(retVal(r, idx))
		return isC && v == val
	}
}

// retNil: a return whose result idx is the nil constant (e.g. a nil error).
func retNil(idx int) target {
	return func(i ssa.Instruction) bool {
		r, ok := i.(*ssa.Return)
		if !ok {
			return false
		}
		v := retVal(r, idx)
		return v != nil && isNilConst(v)
	}
}

// retNotNil: a return whose result idx is not the nil constant.
func retNotNil(idx int) target {
	return func(i ssa.Instruction) bool {
		r, ok := i.(*ssa.Return)
		if !ok {
			return false
		}
		v := retVal(r, idx)
		return v != nil && !isNilConst(v)
	}
}

func anyReturn(i ssa.Instruction) bool { _, ok := i.(*ssa.Return); return ok }

func callTo(names ...string) target {
	return func(i ssa.Instruction) bool { return isCallTo(i, names...) }
}

func countTargets(fn *ssa.Function, t target) int {
	n := 0
	eachInstr(fn, func(i ssa.Instruction) {
		if t(i) {
			n++
			return
		}
		// a non-constant boolean result stands for both outcomes
		if r, ok := i.(*ssa.Return); ok {
			if k := boolResultIndex(i.Parent()); k >= 0 && k < len(r.Results) {
				if _, isC := constBool(retVal(r, k)); !isC {
					for _, o := range []bool{true, false} {
						curRet.r, curRet.idx, curRet.outcome = r, k, o
						hit := t(i)
						curRet.r = nil
						if hit {
							n++
							return
						}
					}
				}
			}
		}
	})
	return n
}

func altsStr(alts []LitPat) string {
	var s []string
	for _, a := range alts {
		s = append(s, Lit{a.Atom, a.Pos}.String())
	}
	return strings.Join(s, " ∨ ")
}

// MustPass records the obligation "every path from fn's entry to a target
// carries one of alts". The obligation key names function, effect and the
// required literals.
func (c *Ctx) MustPass(p *Prog, fn *ssa.Function, rule, effect string, t target, alts ...LitPat) bool {
	if fn == nil {
		return false
	}
	key := fnName(fn) + ": " + effect + " ⇒ " + altsStr(alts)
	n := countTargets(fn, t)
	if n == 0 {
		c.Undecided(fmt.Sprintf("UNRESOLVED ANCHOR effect %q not found in %s (rule %s)", effect, fnName(fn), rule))
		return false
	}
	w := reachWithout(entry(fn), t, alts)
	if w != nil {
		return c.Check(rule, key, false, p.Pos(posOf(w.Hit, fn)), "effect reachable without the required condition: "+w.String(p))
	}
	return c.Check(rule, key, true, p.Pos(fn.Pos()), fmt.Sprintf("%d effect site(s), all paths carry the condition", n))
}

// MustPrecede records "every path from fn's entry to a target executes a
// barrier instruction first".
func (c *Ctx) MustPrecede(p *Prog, fn *ssa.Function, rule, effect, before string, t, barrier target) bool {
	if fn == nil {
		return false
	}
	key := fnName(fn) + ": " + effect + " preceded by " + before
	n := countTargets(fn, t)
	if n == 0 {
		c.Undecided(fmt.Sprintf("UNRESOLVED ANCHOR effect %q not found in %s (rule %s)", effect, fnName(fn), rule))
		return false
	}
	w := reachAvoiding(entry(fn), t, barrier)
	if w != nil {
		return c.Check(rule, key, false, p.Pos(posOf(w.Hit, fn)), "effect reachable without "+before+": "+w.String(p))
	}
	return c.Check(rule, key, true, p.Pos(fn.Pos()), fmt.Sprintf("%d effect site(s)", n))
}

// MustFollow records "after instruction `from`, every path to a target passes a
// barrier" (release/rollback pairing); `from` is typically a successful
// acquire. Returns through which the barrier was skipped are reported.
func (c *Ctx) MustFollow(p *Prog, fn *ssa.Function, rule, what string, from Point, t, barrier target, edge func(Lit) bool) bool {
	key := fnName(fn) + ": " + what
	w := (&Walker{
		Visit: func(i ssa.Instruction) int {
			if barrier(i) {
				return wStop
			}
			if t(i) {
				return wHit
			}
			return wContinue
		},
		Edge: edge,
	}).Run(from)
	if w != nil {
		return c.Check(rule, key, false, p.Pos(posOf(w.Hit, fn)), w.String(p))
	}
	return c.Check(rule, key, true, p.Pos(fn.Pos()), "")
}

func posOf(i ssa.Instruction, fn *ssa.Function) token.Pos {
	if i != nil && i.Pos().IsValid() {
		return i.Pos()
	}
	if i != nil {
		// Returns of spilled results etc.: nearest positioned instruction in block
		b := i.Block()
		for k := len(b.Instrs) - 1; k >= 0; k-- {
			if b.Instrs[k].Pos().IsValid() {
				return b.Instrs[k].Pos()
			}
		}
	}
	return fn.Pos()
}

// retDescs lists the canonical descriptions of result idx over all returns.
func retDescs(fn *ssa.Function, idx int) []string {
	var out []string
	for _, r := range returnsOf(fn) {
		if r.Block().Comment == "recover" {
			continue
		}
		if v := retVal(r, idx); v != nil {
			out = append(out, desc(v))
		}
	}
	return out
}

// argN returns argument k of a call, counting the receiver of an interface
// method call as argument 0 (as static method calls do).
func argN(cc *ssa.CallCommon, k int) ssa.Value {
	if cc.IsInvoke() {
		if k == 0 {
			return cc.Value
		}
		k--
	}
	if k < len(cc.Args) {
		return cc.Args[k]
	}
	return nil
}

// reachWithoutStable is reachWithout with path pruning on stable atoms.
func reachWithoutStable(from Point, isTarget func(ssa.Instruction) bool, alts []LitPat, stable []string) *Witness {
	w := &Walker{
		Visit: func(i ssa.Instruction) int {
			if isTarget(i) {
				return wHit
			}
			return wContinue
		},
		Edge: func(l Lit) bool {
			for _, a := range alts {
				if a.match(l) {
					return false
				}
			}
			return true
		},
		Stable: stable,
	}
	return w.Run(from)
}
