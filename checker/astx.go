package main

// AST/type helpers for the structural rules (E3, E7).

import (
	"go/ast"
	"go/token"
	"go/types"
	"sort"
	"strings"

	"golang.org/x/tools/go/packages"
)

func exprStr(e ast.Expr) string {
	if e == nil {
		return ""
	}
	return types.ExprString(e)
}

func unparen(e ast.Expr) ast.Expr {
	for {
		p, ok := e.(*ast.ParenExpr)
		if !ok {
			return e
		}
		e = p.X
	}
}

// flattenBin flattens a tree of the given binary operator (&& or ||).
func flattenBin(e ast.Expr, op token.Token) []ast.Expr {
	e = unparen(e)
	if b, ok := e.(*ast.BinaryExpr); ok && b.Op == op {
		return append(flattenBin(b.X, op), flattenBin(b.Y, op)...)
	}
	return []ast.Expr{e}
}

func exprSet(es []ast.Expr) []string {
	var out []string
	for _, e := range es {
		out = append(out, exprStr(unparen(e)))
	}
	sort.Strings(out)
	return out
}

// namedOf returns the (package-short, name) of the named type behind t
// (through pointers).
func namedOf(t types.Type) *types.Named {
	for {
		switch x := t.(type) {
		case *types.Pointer:
			t = x.Elem()
			continue
		case *types.Named:
			return x
		case *types.Alias:
			t = types.Unalias(t)
			continue
		}
		return nil
	}
}

func isNamed(t types.Type, pkgShort, name string) bool {
	n := namedOf(t)
	if n == nil || n.Obj().Name() != name {
		return false
	}
	if n.Obj().Pkg() == nil {
		return pkgShort == ""
	}
	return n.Obj().Pkg().Path() == pkgPath(pkgShort)
}

// compositeLits finds composite literals of a named struct type under node.
func compositeLits(pk *packages.Package, node ast.Node, pkgShort, name string) []*ast.CompositeLit {
	var out []*ast.CompositeLit
	ast.Inspect(node, func(n ast.Node) bool {
		cl, ok := n.(*ast.CompositeLit)
		if !ok {
			return true
		}
		if tv, ok := pk.TypesInfo.Types[cl]; ok && isNamed(tv.Type, pkgShort, name) {
			out = append(out, cl)
		}
		return true
	})
	return out
}

// kv returns the value of a keyed field in a composite literal.
func kv(cl *ast.CompositeLit, field string) ast.Expr {
	for _, e := range cl.Elts {
		if k, ok := e.(*ast.KeyValueExpr); ok {
			if id, ok := k.Key.(*ast.Ident); ok && id.Name == field {
				return k.Value
			}
		}
	}
	return nil
}

func kvKeys(cl *ast.CompositeLit) []string {
	var out []string
	for _, e := range cl.Elts {
		if k, ok := e.(*ast.KeyValueExpr); ok {
			if id, ok := k.Key.(*ast.Ident); ok {
				out = append(out, id.Name)
			}
		}
	}
	return out
}

// enclosingFunc returns the name of the FuncDecl containing pos in a file.
func enclosingFunc(f *ast.File, pos token.Pos) *ast.FuncDecl {
	for _, d := range f.Decls {
		if fd, ok := d.(*ast.FuncDecl); ok && fd.Pos() <= pos && pos <= fd.End() {
			return fd
		}
	}
	return nil
}

func funcDeclName(fd *ast.FuncDecl) string {
	if fd == nil {
		return "<file scope>"
	}
	if fd.Recv != nil && len(fd.Recv.List) == 1 {
		t := fd.Recv.List[0].Type
		s := exprStr(t)
		s = strings.TrimPrefix(s, "*")
		return s + "." + fd.Name.Name
	}
	return fd.Name.Name
}

// calleeObj resolves the called function object of a call expression.
func calleeObj(pk *packages.Package, call *ast.CallExpr) types.Object {
	fun := unparen(call.Fun)
	switch f := fun.(type) {
	case *ast.Ident:
		return pk.TypesInfo.Uses[f]
	case *ast.SelectorExpr:
		if sel, ok := pk.TypesInfo.Selections[f]; ok {
			return sel.Obj()
		}
		return pk.TypesInfo.Uses[f.Sel]
	case *ast.IndexExpr:
		if id, ok := f.X.(*ast.Ident); ok {
			return pk.TypesInfo.Uses[id]
		}
		if se, ok := f.X.(*ast.SelectorExpr); ok {
			return pk.TypesInfo.Uses[se.Sel]
		}
	}
	return nil
}

// objFullName renders a function/method object as pkgshort.Name or
// (pkgshort.T).Name.
func objFullName(o types.Object) string {
	if o == nil {
		return ""
	}
	if f, ok := o.(*types.Func); ok {
		sig := f.Type().(*types.Signature)
		if sig.Recv() != nil {
			n := namedOf(sig.Recv().Type())
			if n != nil {
				return "(" + shortPkg(n.Obj().Pkg()) + "." + n.Obj().Name() + ")." + f.Name()
			}
			return "(" + typeStr(sig.Recv().Type()) + ")." + f.Name()
		}
	}
	if o.Pkg() == nil {
		return o.Name()
	}
	return shortPkg(o.Pkg()) + "." + o.Name()
}

func sameStrings(a, b []string) bool {
	if len(a) != len(b) {
		return false
	}
	for i := range a {
		if a[i] != b[i] {
			return false
		}
	}
	return true
}

func sortedCopy(a []string) []string {
	b := append([]string(nil), a...)
	sort.Strings(b)
	return b
}

func contains(a []string, s string) bool {
	for _, x := range a {
		if x == s {
			return true
		}
	}
	return false
}
