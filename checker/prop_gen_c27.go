package main

// C27, generalisation of "endDTS only grows".
//
// The obligation is about the VALUE that reaches the field: a store
// `s.endDTS = v` in formatFMP4Segment.write keeps endDTS monotone iff
// v >= (old s.endDTS) whenever the store executes. Two ways to establish it:
//
//	guard form   every path to the store passes  old < v   (if v > s.endDTS { s.endDTS = v })
//	             or  !(v < old)  (if v >= s.endDTS ..., or `if v < s.endDTS { return }` before it);
//	             the engine already normalises >, >=, <=, inverted tests and early returns
//	             to these two atoms.
//	value form   v = max(..., s.endDTS, ...): the builtin max is >= each of its operands,
//	             so the stored value is >= the old one provided the operand IS the old
//	             value, i.e. nothing can have written s.endDTS between the load of the
//	             operand and the store. Premise checked: the load and the store are in one
//	             block, and every instruction between them is neither a store/map
//	             update/send/go/defer nor a call that could reach the segment (a call is
//	             allowed only when all its operands are of basic types - such a callee
//	             cannot be handed s or anything that points to it - or is a builtin).

import (
	"go/token"
	"go/types"

	"golang.org/x/tools/go/ssa"
)

// maxOperands flattens nested builtin max calls: max(a, max(b, c)) -> a, b, c.
func maxOperands(v ssa.Value, depth int) []ssa.Value {
	v = stripConv(v)
	if c, ok := v.(*ssa.Call); ok && depth < 4 {
		if bi, ok := c.Call.Value.(*ssa.Builtin); ok && bi.Name() == "max" {
			var out []ssa.Value
			for _, a := range c.Call.Args {
				out = append(out, maxOperands(a, depth+1)...)
			}
			return out
		}
	}
	return []ssa.Value{v}
}

// cannotReachMemory: the instruction neither writes memory itself nor hands a
// reference to a callee.
func cannotReachMemory(ins ssa.Instruction) bool {
	if !clobbers(ins) {
		return true
	}
	cl, ok := ins.(*ssa.Call)
	if !ok || cl.Call.IsInvoke() {
		return false
	}
	if _, ok := cl.Call.Value.(*ssa.Function); !ok {
		return false // closure or function value: may have captured anything
	}
	for _, a := range cl.Call.Args {
		if _, basic := a.Type().Underlying().(*types.Basic); !basic {
			return false
		}
	}
	return true
}

// storesAtLeastOld: the value stored by st is max(..) with an operand that is
// the value the destination held immediately before the store.
func storesAtLeastOld(st *ssa.Store) bool {
	ops := maxOperands(st.Val, 0)
	if len(ops) < 2 {
		return false
	}
	dst := desc(st.Addr)
	blk := st.Block()
	for _, o := range ops {
		ld, ok := o.(*ssa.UnOp)
		if !ok || ld.Op != token.MUL || ld.Block() != blk {
			continue
		}
		// same address: equal descriptions of a selection rooted at a parameter
		if _, isField := ld.X.(*ssa.FieldAddr); !isField || desc(ld.X) != dst || !pureCond(ld.X, 0) || !pureCond(st.Addr, 0) {
			continue
		}
		// nothing between the load and the store can have changed the field
		seen, clean := false, true
		for _, ins := range blk.Instrs {
			if ins == ssa.Instruction(ld) {
				seen = true
				continue
			}
			if ins == ssa.Instruction(st) {
				break
			}
			if seen && !cannotReachMemory(ins) {
				clean = false
			}
		}
		if seen && clean {
			return true
		}
	}
	return false
}
