package main

// Generic helpers added with the C06/C08/C09/C10/C14/C42 rule sets:
// dominator guards, a module-wide index of field stores and static callers,
// loop body extraction, constant extraction.

import (
	"fmt"
	"go/ast"
	"go/constant"
	"go/token"
	"go/types"
	"os"
	"reflect"
	"sort"
	"strings"

	"golang.org/x/tools/go/packages"
	"golang.org/x/tools/go/ssa"
)

// ---------------------------------------------------------------- guards

// guardB is a branch outcome that holds whenever a block is executed: the
// block is dominated by the successor edge of an If.
type guardB struct {
	Lit     Lit
	Cond    ssa.Value
	Outcome bool
}

// guardsOfBlock lists the branch literals that hold on every path from the
// entry to b (edges If->succ where succ has the If block as only predecessor
// and dominates b).
func guardsOfBlock(b *ssa.BasicBlock) []guardB {
	var out []guardB
	for d := b.Idom(); d != nil; d = d.Idom() {
		if len(d.Instrs) == 0 {
			continue
		}
		ifi, ok := d.Instrs[len(d.Instrs)-1].(*ssa.If)
		if !ok {
			continue
		}
		for k, s := range d.Succs {
			if len(s.Preds) != 1 {
				continue
			}
			if s == b || s.Dominates(b) {
				if d.Succs[0] == d.Succs[1] {
					continue
				}
				out = append(out, guardB{litOf(ifi.Cond, k == 0), ifi.Cond, k == 0})
			}
		}
	}
	return out
}

func guardsOf(i ssa.Instruction) []guardB { return guardsOfBlock(i.Block()) }

// hasGuard reports whether one of the patterns holds at the instruction.
func hasGuard(i ssa.Instruction, pats ...LitPat) bool {
	for _, g := range guardsOf(i) {
		for _, p := range pats {
			if p.match(g.Lit) {
				return true
			}
		}
	}
	return false
}

func guardStr(i ssa.Instruction) string {
	var s []string
	for _, g := range guardsOf(i) {
		s = append(s, g.Lit.String())
	}
	return "[" + strings.Join(s, " ∧ ") + "]"
}

// ---------------------------------------------------------------- values

// constString returns the value of a string constant.
func constStringB(v ssa.Value) (string, bool) {
	c, ok := stripConv(v).(*ssa.Const)
	if !ok || c.Value == nil || c.Value.Kind() != constant.String {
		return "", false
	}
	return constant.StringVal(c.Value), true
}

func constIntB(v ssa.Value) (int64, bool) {
	c, ok := v.(*ssa.Const)
	if !ok || c.Value == nil || c.Value.Kind() != constant.Int {
		return 0, false
	}
	n, exact := constant.Int64Val(c.Value)
	return n, exact
}

// fieldLoad: v is a load of struct field (through *T) or a Field of a struct
// value; returns the struct type string, the field name and the base value.
func fieldLoad(v ssa.Value) (structName, field string, base ssa.Value, ok bool) {
	v = stripConv(v)
	switch x := v.(type) {
	case *ssa.UnOp:
		if x.Op != token.MUL {
			return
		}
		fa, isFA := x.X.(*ssa.FieldAddr)
		if !isFA {
			return
		}
		pt := fa.X.Type().Underlying().(*types.Pointer)
		st := pt.Elem().Underlying().(*types.Struct)
		return typeStr(pt.Elem()), st.Field(fa.Field).Name(), fa.X, true
	case *ssa.Field:
		st := x.X.Type().Underlying().(*types.Struct)
		return typeStr(x.X.Type()), st.Field(x.Field).Name(), x.X, true
	}
	return
}

// calleeFn returns the statically resolved callee of a call instruction.
func calleeFn(i ssa.Instruction) *ssa.Function {
	c := callCommon(i)
	if c == nil {
		return nil
	}
	return c.StaticCallee()
}

func calleePkgPath(i ssa.Instruction) string {
	f := calleeFn(i)
	if f == nil {
		return ""
	}
	return funcPkgPath(f)
}

// ---------------------------------------------------------------- index

type modIndex struct {
	fieldStores map[string][]*ssa.Store             // "pkg.Struct.field" -> stores
	callers     map[*ssa.Function][]ssa.Instruction // static call sites (call/go/defer)
	valueUses   map[*ssa.Function]int               // uses of the function as a value (not a direct call)
}

// single-entry cache: keeping one index per loaded program would pin every
// mutant program (2+ GB each) in memory for the whole thorough run.
var (
	modIndexProg *Prog
	modIndexLast *modIndex
)

func (p *Prog) index() *modIndex {
	if modIndexProg == p && modIndexLast != nil {
		return modIndexLast
	}
	ix := &modIndex{fieldStores: map[string][]*ssa.Store{}, callers: map[*ssa.Function][]ssa.Instruction{}, valueUses: map[*ssa.Function]int{}}
	for _, fn := range p.ModFuncs() {
		eachInstr(fn, func(i ssa.Instruction) {
			if st, ok := i.(*ssa.Store); ok {
				if fa, ok := st.Addr.(*ssa.FieldAddr); ok {
					pt := fa.X.Type().Underlying().(*types.Pointer)
					s := pt.Elem().Underlying().(*types.Struct)
					k := typeStr(pt.Elem()) + "." + s.Field(fa.Field).Name()
					ix.fieldStores[k] = append(ix.fieldStores[k], st)
				}
			}
			if c := callCommon(i); c != nil {
				if f := c.StaticCallee(); f != nil {
					ix.callers[f] = append(ix.callers[f], i)
				}
			}
			// function used as a value
			var ops []*ssa.Value
			for _, op := range i.Operands(ops) {
				if op == nil || *op == nil {
					continue
				}
				if f, ok := (*op).(*ssa.Function); ok {
					if c := callCommon(i); c != nil && c.Value == f {
						continue
					}
					ix.valueUses[f]++
				}
			}
		})
	}
	modIndexProg, modIndexLast = p, ix
	return ix
}

// ---------------------------------------------------------------- loops

// rangeLoop describes a `for ... range X` lowered by go/ssa with a Range/Next
// pair (maps, strings).
type rangeLoop struct {
	Range  *ssa.Range
	Next   *ssa.Next
	Header *ssa.BasicBlock
	Body   map[*ssa.BasicBlock]bool
	Done   *ssa.BasicBlock
}

func rangeLoopsOf(fn *ssa.Function) []*rangeLoop {
	var out []*rangeLoop
	eachInstr(fn, func(i ssa.Instruction) {
		nx, ok := i.(*ssa.Next)
		if !ok {
			return
		}
		rg, ok := nx.Iter.(*ssa.Range)
		if !ok {
			return
		}
		h := nx.Block()
		if len(h.Succs) != 2 {
			return
		}
		l := &rangeLoop{Range: rg, Next: nx, Header: h, Body: map[*ssa.BasicBlock]bool{}, Done: h.Succs[1]}
		var walk func(b *ssa.BasicBlock)
		walk = func(b *ssa.BasicBlock) {
			if b == h || l.Body[b] {
				return
			}
			l.Body[b] = true
			for _, s := range b.Succs {
				walk(s)
			}
		}
		walk(h.Succs[0])
		// blocks reachable from the body that never come back to the header are
		// exits (returns, breaks); they stay in Body: rules look at them too.
		out = append(out, l)
	})
	return out
}

// ---------------------------------------------------------------- AST consts

// constOfExpr returns the constant value of an expression.
func constOfExpr(pk *packages.Package, e ast.Expr) constant.Value {
	if tv, ok := pk.TypesInfo.Types[e]; ok {
		return tv.Value
	}
	return nil
}

func stringConstOfExpr(pk *packages.Package, e ast.Expr) (string, bool) {
	v := constOfExpr(pk, e)
	if v == nil || v.Kind() != constant.String {
		return "", false
	}
	return constant.StringVal(v), true
}

// methodOf looks up a method (value or pointer receiver) declared on a named type.
func methodOf(n *types.Named, name string) *types.Func {
	for i := 0; i < n.NumMethods(); i++ {
		if m := n.Method(i); m.Name() == name {
			return m
		}
	}
	return nil
}

// jsonTag parses a struct tag: name, options, and whether the field is hidden.
func jsonTag(tag string) (name string, opts []string, hidden bool) {
	j := reflect.StructTag(tag).Get("json")
	if j == "-" {
		return "", nil, true
	}
	parts := strings.Split(j, ",")
	return parts[0], parts[1:], false
}

func sortedSet(m map[string]bool) []string {
	var out []string
	for k := range m {
		out = append(out, k)
	}
	sort.Strings(out)
	return out
}

// declOfFunc finds the syntax of an SSA function (declared functions only).
func (p *Prog) declOfFunc(fn *ssa.Function) (*ast.FuncDecl, *packages.Package) {
	if fn == nil || fn.Syntax() == nil {
		return nil, nil
	}
	fd, ok := fn.Syntax().(*ast.FuncDecl)
	if !ok {
		return nil, nil
	}
	return fd, p.ByPath[funcPkgPath(fn)]
}

// globalInit returns the value stored to a package-level variable by the
// package initialiser (single store).
func (p *Prog) globalInit(pkg, name string) ssa.Value {
	sp := p.SSAPkgs[pkgPath(pkg)]
	if sp == nil {
		return nil
	}
	g, ok := sp.Members[name].(*ssa.Global)
	if !ok {
		return nil
	}
	init := sp.Func("init")
	if init == nil {
		return nil
	}
	var val ssa.Value
	n := 0
	eachInstr(init, func(i ssa.Instruction) {
		if st, ok := i.(*ssa.Store); ok && st.Addr == g {
			val = st.Val
			n++
		}
	})
	if n != 1 {
		return nil
	}
	return val
}

// guardErrNil: at the instruction, component idx of the tuple is known to be
// nil (dominating `tuple#idx == nil` taken, or `!= nil` not taken).
func guardErrNil(at ssa.Instruction, tuple ssa.Value, idx int) bool {
	for _, g := range guardsOf(at) {
		bo, ok := g.Cond.(*ssa.BinOp)
		if !ok || (bo.Op != token.EQL && bo.Op != token.NEQ) {
			continue
		}
		if (bo.Op == token.EQL) != g.Outcome {
			continue
		}
		for _, pair := range [][2]ssa.Value{{bo.X, bo.Y}, {bo.Y, bo.X}} {
			ex, ok := pair[0].(*ssa.Extract)
			if ok && ex.Tuple == tuple && ex.Index == idx && isNilConst(pair[1]) {
				return true
			}
		}
	}
	return false
}

// descAll renders a value like desc, but a local variable with several
// stores is rendered as the set of everything stored into it.
func descAll(v ssa.Value) string { return descAllD(v, map[*ssa.Alloc]bool{}, 6) }

func descAllD(v ssa.Value, seen map[*ssa.Alloc]bool, depth int) string {
	v = stripConv(v)
	var a *ssa.Alloc
	if u, ok := v.(*ssa.UnOp); ok && u.Op == token.MUL {
		a, _ = u.X.(*ssa.Alloc)
	}
	if a == nil || singleStore(a) != nil || depth <= 0 {
		if ex, ok := v.(*ssa.Extract); ok {
			if call, ok := ex.Tuple.(*ssa.Call); ok {
				var as []string
				for _, x := range call.Call.Args {
					as = append(as, descAllD(x, seen, depth-1))
				}
				return calleeName(&call.Call) + "(" + strings.Join(as, ", ") + ")#" + itoa(ex.Index)
			}
		}
		if call, ok := v.(*ssa.Call); ok && depth > 0 {
			var as []string
			for _, x := range call.Call.Args {
				as = append(as, descAllD(x, seen, depth-1))
			}
			return calleeName(&call.Call) + "(" + strings.Join(as, ", ") + ")"
		}
		return desc(v)
	}
	if seen[a] {
		return "↺"
	}
	seen[a] = true
	defer delete(seen, a)
	var parts []string
	var collect func(fn *ssa.Function)
	collect = func(fn *ssa.Function) {
		eachInstr(fn, func(i ssa.Instruction) {
			if st, ok := i.(*ssa.Store); ok && st.Addr == a {
				parts = append(parts, descAllD(st.Val, seen, depth-1))
			}
		})
	}
	collect(a.Parent())
	sort.Strings(parts)
	return "{" + strings.Join(parts, " | ") + "}"
}

// ---------------------------------------------------------------- small-function path enumeration

type pathStep struct {
	Cond    ssa.Value
	Outcome bool
}

// enumAcyclicPaths enumerates every entry→exit path of a function that visits
// no block twice; f receives the branch outcomes along the path and the final
// block. Returns false when the cap is exceeded (the caller must treat that
// as undecided).
func enumAcyclicPaths(fn *ssa.Function, cap int, f func(steps []pathStep, last *ssa.BasicBlock)) bool {
	n := 0
	onPath := map[*ssa.BasicBlock]bool{}
	var steps []pathStep
	okAll := true
	var dfs func(b *ssa.BasicBlock)
	dfs = func(b *ssa.BasicBlock) {
		if !okAll || onPath[b] {
			return
		}
		if len(b.Succs) == 0 {
			n++
			if n > cap {
				okAll = false
				return
			}
			f(append([]pathStep(nil), steps...), b)
			return
		}
		onPath[b] = true
		defer delete(onPath, b)
		if ifi, ok := b.Instrs[len(b.Instrs)-1].(*ssa.If); ok {
			for k, s := range b.Succs {
				steps = append(steps, pathStep{ifi.Cond, k == 0})
				dfs(s)
				steps = steps[:len(steps)-1]
			}
			return
		}
		for _, s := range b.Succs {
			dfs(s)
		}
	}
	dfs(fn.Blocks[0])
	return okAll
}

// guardNotNil: at the instruction, v is known to be non-nil.
func guardNotNil(at ssa.Instruction, v ssa.Value) bool {
	for _, g := range guardsOf(at) {
		bo, ok := g.Cond.(*ssa.BinOp)
		if !ok || (bo.Op != token.EQL && bo.Op != token.NEQ) {
			continue
		}
		if (bo.Op == token.NEQ) != g.Outcome {
			continue
		}
		if (bo.X == v && isNilConst(bo.Y)) || (bo.Y == v && isNilConst(bo.X)) {
			return true
		}
	}
	return false
}

// ---------------------------------------------------------------- configuration type graph (E3)

// confNode is one json-visible position of the configuration type graph.
type confNode struct {
	Path  string     // e.g. Conf.authInternalUsers[].ips
	Type  types.Type // type at this position
	Field *types.Var // struct field that introduces it (nil for elements)
	Tag   string     // full struct tag of Field
	Depth int        // number of slice/map containers above this position
}

// walkConfTypes visits every json-visible position reachable from the named
// struct root (fields tagged json:"-" are skipped; pointers, slices, arrays and
// maps are descended into). stop(t) prevents descending below a type.
func walkConfTypes(root *types.Named, rootName string, stop func(t types.Type) bool, visit func(n confNode)) {
	seen := map[string]bool{}
	var rec func(path string, t types.Type, f *types.Var, tag string, depth int)
	rec = func(path string, t types.Type, f *types.Var, tag string, depth int) {
		visit(confNode{path, t, f, tag, depth})
		if stop != nil && stop(t) {
			return
		}
		switch u := t.Underlying().(type) {
		case *types.Pointer:
			rec(path+"*", u.Elem(), nil, "", depth)
		case *types.Slice:
			rec(path+"[]", u.Elem(), nil, "", depth+1)
		case *types.Array:
			rec(path+"[]", u.Elem(), nil, "", depth+1)
		case *types.Map:
			rec(path+"{}", u.Elem(), nil, "", depth+1)
		case *types.Struct:
			k := typeStr(t)
			if _, isNamed := t.(*types.Named); isNamed {
				if seen[k] {
					return
				}
				seen[k] = true
				defer delete(seen, k)
			}
			for i := 0; i < u.NumFields(); i++ {
				fl := u.Field(i)
				name, _, hidden := jsonTag(u.Tag(i))
				if hidden || !fl.Exported() {
					continue
				}
				if name == "" {
					name = fl.Name()
				}
				rec(path+"."+name, fl.Type(), fl, u.Tag(i), depth)
			}
		}
	}
	rec(rootName, root, nil, "", 0)
}

// hasMethod reports whether T or *T declares the method.
func hasMethod(t types.Type, name string) *types.Func {
	n, ok := t.(*types.Named)
	if !ok {
		return nil
	}
	return methodOf(n, name)
}

func isStdPkg(path string) bool {
	if path == "" {
		return true
	}
	first := path
	if i := strings.IndexByte(path, '/'); i >= 0 {
		first = path[:i]
	}
	return !strings.Contains(first, ".")
}

// staticReach returns the functions reachable from the roots through static
// calls (calls, go, defer, closures created) staying outside the standard
// library.
func staticReach(roots []*ssa.Function) []*ssa.Function {
	seen := map[*ssa.Function]bool{}
	var order []*ssa.Function
	var visit func(f *ssa.Function)
	visit = func(f *ssa.Function) {
		if f == nil || seen[f] || f.Blocks == nil || isStdPkg(funcPkgPath(f)) {
			return
		}
		seen[f] = true
		order = append(order, f)
		eachInstr(f, func(i ssa.Instruction) {
			if c := callCommon(i); c != nil {
				visit(c.StaticCallee())
			}
			if mc, ok := i.(*ssa.MakeClosure); ok {
				visit(mc.Fn.(*ssa.Function))
			}
		})
	}
	for _, r := range roots {
		visit(r)
	}
	return order
}

// dumpObls prints every obligation of a context when MTXCHECK_VERBOSE is set
// (developer aid).
func dumpObls(c *Ctx) {
	if os.Getenv("MTXCHECK_VERBOSE") == "" || c.quiet {
		return
	}
	for _, o := range c.Obls {
		st := "ok  "
		if !o.OK {
			st = "FAIL"
		}
		fmt.Printf("    %s %-38s %s  -- %s\n", st, o.Rule, trunc(o.Key, 150), trunc(o.Detail, 170))
	}
}
