package main

import (
	"go/token"
	"go/types"
	"strings"

	"golang.org/x/tools/go/ssa"
)

// C18.limit_reload - the reader limit survives a configuration reload.
//
// "len(readers) <= maxReaders (when non-zero)" is an invariant between the STATE of a
// path (path.readers) and its CONFIGURATION (path.conf.MaxReaders). C18.limit
// establishes it where the state grows (the insert in addReaderPost), and
// C18.who_may_write freezes who else touches the state. The other side of the
// relation can move too: path.conf is replaced while the path lives (hot reload).
// A reload that lowers MaxReaders below the number of attached readers breaks the
// invariant without touching addReaderPost at all. So, necessary:
//
//   limit_reload.vetted     the only way a new configuration reaches a living path is
//                           (a) the store to path.conf of a parameter of a path method
//                           (doReloadConf), (b) called with a value received from a
//                           channel field of the path, (c) which is sent to only with a
//                           parameter of a path method (reloadConf), (d) every call /
//                           go of which is dominated by `pathConfCanBeUpdated(old, X)`
//                           being true for the very X passed - directly, or through
//                           membership in a local set that is filled only under such a
//                           test. Each link is computed (who-may-store / who-may-send /
//                           call sites), none is named.
//   limit_reload.unchanged  pathConfCanBeUpdated(old, new) can be true only if
//                           old.MaxReaders == new.MaxReaders: every return that may be
//                           true is either `P.Equal(Q.Clone() with fields overwritten
//                           from P)` where MaxReaders is NOT among the overwritten
//                           fields (nor the whole clone replaced), or is reached only
//                           through the literal (old.MaxReaders == new.MaxReaders).
//                           Alternatively the path may accept a changed MaxReaders
//                           provided doReloadConf re-establishes the bound: after the
//                           store to path.conf every path to return passes an edge that
//                           implies it (new MaxReaders == 0, not (MaxReaders <
//                           len(readers)), len(readers) == 0, or the exhausted range of
//                           a loop over path.readers - which C18.who_may_write only
//                           accepts when every iteration detaches and closes the reader).
//
// Trusted: conf.Path.Equal is reflect.DeepEqual and Clone is a deep copy (C11).
// Not covered: configurations that reach the path at creation (createPath - there
// are no readers yet).

func init() {
	addMutants(
		// the seed: maxReaders declared hot-reloadable, nothing trims the readers
		Mutant{"C18", "maxreaders-hot-reloadable", "internal/core/path_manager.go",
			"	clone.Forward = newPathConf.Forward\n", "	clone.Forward = newPathConf.Forward\n	clone.MaxReaders = newPathConf.MaxReaders\n", "C18.limit_reload.unchanged"},
		// same class, other door: a configuration that was not vetted reaches the path
		Mutant{"C18", "unvetted-conf-reaches-path", "internal/core/path_manager.go",
			"			if pathConfCanBeUpdated(oldPathConf, newPathConf) {\n				pa.confName = newPathConf.Name", "			if oldPathConf != nil {\n				pa.confName = newPathConf.Name", "C18.limit_reload.vetted"},
		// the set of reloadable configurations is filled without the test
		Mutant{"C18", "reload-set-filled-unvetted", "internal/core/path_manager.go",
			"				if pathConfCanBeUpdated(pathConf, newPath) {\n					confsToReload[confName] = struct{}{}\n				} else {\n					confsToRecreate[confName] = struct{}{}\n				}",
			"				if pathConfCanBeUpdated(pathConf, newPath) || newPath.MaxReaders != pathConf.MaxReaders {\n					confsToReload[confName] = struct{}{}\n				} else {\n					confsToRecreate[confName] = struct{}{}\n				}", "C18.limit_reload.vetted"},
	)
}

const c18r4Rule = "C18.limit_reload"

// c18r4Positive resolves `!x` chains: the value tested and the outcome under which
// it is true.
func c18r4Positive(cond ssa.Value, outcome bool) (ssa.Value, bool) {
	for {
		u, ok := cond.(*ssa.UnOp)
		if !ok || u.Op != token.NOT {
			return cond, outcome
		}
		cond, outcome = u.X, !outcome
	}
}

// c18r4VettedBy: the instruction is dominated by `vet(_, x) == true` for the value x
// (compared by canonical description, so reloaded locals / helper parameters agree).
func c18r4VettedBy(at ssa.Instruction, vet *ssa.Function, x ssa.Value) bool {
	for _, g := range guardsOf(at) {
		v, out := c18r4Positive(g.Cond, g.Outcome)
		if !out {
			continue
		}
		cl, ok := v.(*ssa.Call)
		if !ok || cl.Call.StaticCallee() != vet {
			continue
		}
		if x == nil {
			return true
		}
		for _, a := range cl.Call.Args {
			if desc(a) == desc(x) {
				return true
			}
		}
	}
	return false
}

// c18r4VettedSet: the instruction is dominated by a successful comma-ok lookup in a
// map made locally whose every insert is dominated by vet(...) == true.
func c18r4VettedSet(at ssa.Instruction, vet *ssa.Function) (bool, string) {
	for _, g := range guardsOf(at) {
		v, out := c18r4Positive(g.Cond, g.Outcome)
		ex, ok := v.(*ssa.Extract)
		if !out || !ok || ex.Index != 1 {
			continue
		}
		lk, ok := ex.Tuple.(*ssa.Lookup)
		if !ok || !lk.CommaOk {
			continue
		}
		mm, ok := lk.X.(*ssa.MakeMap)
		if !ok {
			continue
		}
		n, bad := 0, ""
		for _, r := range *mm.Referrers() {
			switch u := r.(type) {
			case *ssa.MapUpdate:
				n++
				if !c18r4VettedBy(u, vet, nil) {
					bad = "an insert into the set is not dominated by " + fnName(vet) + "(…) == true"
				}
			case *ssa.Lookup, *ssa.DebugRef:
			default:
				if cc := callCommon(r); cc != nil && isCallTo(r, "len") {
					continue
				}
				bad = "the set escapes"
			}
		}
		if n > 0 && bad == "" {
			return true, ""
		}
		if bad != "" {
			return false, bad
		}
	}
	return false, ""
}

// c18r4VettedDelivery: the configuration x handed over at `site` was accepted by vet:
// the site is dominated by vet(_, x) == true or by a hit in a vetted set; or x is just
// passed through - a parameter of the enclosing function, or a variable captured by
// the enclosing function literal - and then every place the enclosing function is
// called from / the literal is started from must be a vetted delivery of the value
// bound there (a wrapper such as `func (pm) deliver(pa, c) { go func() { pa.reloadConf(c) }() }`
// is judged at its callers).
func c18r4VettedDelivery(ci *callerIndex, site ssa.Instruction, vet *ssa.Function, x ssa.Value, depth int) (bool, string) {
	if c18r4VettedBy(site, vet, x) {
		return true, ""
	}
	if ok, why := c18r4VettedSet(site, vet); ok || why != "" {
		return ok, why
	}
	fn := site.Parent()
	if depth > 4 {
		return false, "delivery chain too deep"
	}
	// captured variable of a function literal
	v := stripConv(x)
	if u, ok := v.(*ssa.UnOp); ok && u.Op == token.MUL {
		if fv, ok := u.X.(*ssa.FreeVar); ok {
			v = fv
		}
	}
	if fv, ok := v.(*ssa.FreeVar); ok {
		// (the enclosing function may be a new helper, which eachInstr does not walk by itself)
		var mc *ssa.MakeClosure
		if par := fn.Parent(); par != nil {
			for _, bl := range par.Blocks {
				for _, ins := range bl.Instrs {
					if m, ok := ins.(*ssa.MakeClosure); ok && m.Fn == ssa.Value(fn) {
						mc = m
					}
				}
			}
		}
		var b ssa.Value
		for k, f := range fn.FreeVars {
			if mc != nil && f == fv && k < len(mc.Bindings) {
				b = mc.Bindings[k]
			}
		}
		if mc == nil || b == nil {
			return false, "captured configuration cannot be resolved"
		}
		if a, isA := b.(*ssa.Alloc); isA {
			if sv := singleStore(a); sv != nil {
				b = sv
			} else {
				return false, "captured configuration variable is assigned more than once"
			}
		}
		n := 0
		for _, r := range *mc.Referrers() {
			cc := callCommon(r)
			if cc == nil || cc.Value != ssa.Value(mc) {
				if _, dbg := r.(*ssa.DebugRef); dbg {
					continue
				}
				return false, "the function literal escapes"
			}
			n++
			if ok, why := c18r4VettedDelivery(ci, r, vet, b, depth+1); !ok {
				return false, why
			}
		}
		return n > 0, "in " + fnName(fn.Parent())
	}
	// parameter of the enclosing function: judged at its callers
	if k := c18r4ParamIndex(fn, x); k >= 0 && fn.Parent() == nil {
		sites := ci.sites[fn]
		if ci.valueUse[fn] || len(sites) == 0 {
			return false, fnName(fn) + " forwards its parameter and is used as a value / never called"
		}
		for _, s2 := range sites {
			cc := callCommon(s2)
			if k >= len(cc.Args) {
				return false, "call shape"
			}
			if ok, why := c18r4VettedDelivery(ci, s2, vet, cc.Args[k], depth+1); !ok {
				return false, "via " + fnName(fn) + " called from " + fnName(s2.Parent()) + ": " + why
			}
		}
		return true, ""
	}
	return false, "not dominated by " + fnName(vet) + "(_, " + desc(x) + ") == true nor by a hit in a set filled only under it"
}

func c18r4ParamIndex(fn *ssa.Function, v ssa.Value) int {
	v = deref(v)
	for k, pa := range fn.Params {
		if v == ssa.Value(pa) {
			return k
		}
	}
	return -1
}

// c18r4RecvChan: v is a value received from a channel field of core.path (plain
// receive or the receive slot of a select state); returns the field name.
func c18r4RecvChan(v ssa.Value) (string, bool) {
	field := func(ch ssa.Value) (string, bool) {
		u, ok := ch.(*ssa.UnOp)
		if !ok {
			return "", false
		}
		fa, ok := u.X.(*ssa.FieldAddr)
		if !ok {
			return "", false
		}
		pt, ok := fa.X.Type().Underlying().(*types.Pointer)
		if !ok || typeStr(pt.Elem()) != "core.path" {
			return "", false
		}
		return fieldAddrName(fa), true
	}
	switch x := stripConv(v).(type) {
	case *ssa.UnOp:
		if x.Op == token.ARROW {
			return field(x.X)
		}
	case *ssa.Extract:
		if sel, ok := x.Tuple.(*ssa.Select); ok {
			for k, st := range sel.States {
				if st.Dir == types.RecvOnly && selectRecvSlot(sel, k) == x.Index {
					return field(st.Chan)
				}
			}
		}
	}
	return "", false
}

func c18r4LimitSurvivesReload(c *Ctx, p *Prog) {
	vet := c.fn(p, "internal/core", "", "pathConfCanBeUpdated")
	if vet == nil {
		return
	}
	ci := p.callerIndex()
	isPathMethod := func(fn *ssa.Function) bool {
		return fn.Signature.Recv() != nil && len(fn.Params) > 0 && strings.HasSuffix(typeStr(fn.Params[0].Type()), "core.path")
	}

	// ---- (a) who installs a configuration into a living path
	type slot struct {
		fn *ssa.Function
		k  int
	}
	var installers []slot
	chans := map[string]bool{}
	nStore := 0
	for _, fn := range p.ModFuncs() {
		for _, st := range fieldStores(fn, "core.path", "conf") {
			if _, fresh := st.Addr.(*ssa.FieldAddr).X.(*ssa.Alloc); fresh {
				continue // the object under construction (createPath): no readers yet
			}
			nStore++
			k := c18r4ParamIndex(fn, st.Val)
			ch, direct := c18r4RecvChan(deref(st.Val)) // the handler written in place in the event loop
			ok := isPathMethod(fn) && (k > 0 || direct)
			c.Check(c18r4Rule+".vetted", "path.conf replaced in "+fnName(fn)+": the new configuration is a parameter of a path method or a value received from a channel of the path (delivered, not computed)", ok, p.Pos(st.Pos()), desc(st.Val))
			if ok && direct {
				chans[ch] = true
				installers = append(installers, slot{fn, 0})
			} else if ok {
				installers = append(installers, slot{fn, k})
			}
		}
	}
	c.Floor(c18r4Rule+".vetted(stores)", nStore, 1)
	// ---- (b) called with a value received from a channel field of the path
	for _, in := range installers {
		if in.k == 0 {
			continue // received in place
		}
		sites := ci.sites[in.fn]
		c.Check(c18r4Rule+".vetted", fnName(in.fn)+" is only called, never used as a value", !ci.valueUse[in.fn] && len(sites) > 0, p.Pos(in.fn.Pos()), "")
		for _, s := range sites {
			cc := callCommon(s)
			ch, ok := "", false
			if in.k < len(cc.Args) {
				ch, ok = c18r4RecvChan(cc.Args[in.k])
			}
			c.Check(c18r4Rule+".vetted", fnName(s.Parent())+": "+fnName(in.fn)+" installs a configuration received from a channel of the path", ok, p.Pos(posOf(s, s.Parent())), "")
			if ok {
				chans[ch] = true
			}
		}
	}
	// ---- (c) who sends on that channel
	var deliverers []slot
	for _, fn := range p.ModFuncs() {
		if !strings.HasSuffix(funcPkgPath(fn), "/internal/core") {
			continue
		}
		eachInstr(fn, func(i ssa.Instruction) {
			type sv struct{ ch, val ssa.Value }
			var sends []sv
			switch x := i.(type) {
			case *ssa.Send:
				sends = append(sends, sv{x.Chan, x.X})
			case *ssa.Select:
				for _, st := range x.States {
					if st.Dir == types.SendOnly {
						sends = append(sends, sv{st.Chan, st.Send})
					}
				}
			}
			for _, s := range sends {
				u, ok := s.ch.(*ssa.UnOp)
				if !ok {
					continue
				}
				fa, ok := u.X.(*ssa.FieldAddr)
				if !ok {
					continue
				}
				pt, ok := fa.X.Type().Underlying().(*types.Pointer)
				if !ok || typeStr(pt.Elem()) != "core.path" || !chans[fieldAddrName(fa)] {
					continue
				}
				k := c18r4ParamIndex(fn, s.val)
				ok = isPathMethod(fn) && k > 0
				c.Check(c18r4Rule+".vetted", fnName(fn)+": the configuration sent on path."+fieldAddrName(fa)+" is the caller's argument", ok, p.Pos(posOf(i, fn)), desc(s.val))
				if ok {
					deliverers = append(deliverers, slot{fn, k})
				}
			}
		})
	}
	// ---- (d) every delivery is vetted
	nDel := 0
	for _, d := range deliverers {
		c.Check(c18r4Rule+".vetted", fnName(d.fn)+" is only called, never used as a value", !ci.valueUse[d.fn], p.Pos(d.fn.Pos()), "")
		seenSite := map[ssa.Instruction]bool{}
		for _, s := range ci.sites[d.fn] {
			if seenSite[s] {
				continue
			}
			seenSite[s] = true
			nDel++
			cc := callCommon(s)
			var x ssa.Value
			if d.k < len(cc.Args) {
				x = cc.Args[d.k]
			}
			ok, why := false, "no configuration argument"
			if x != nil {
				ok, why = c18r4VettedDelivery(ci, s, vet, x, 0)
			}
			c.Check(c18r4Rule+".vetted", fnName(s.Parent())+": "+fnName(d.fn)+"("+desc(x)+") hands a living path only a configuration that "+fnName(vet)+" accepted", ok, p.Pos(posOf(s, s.Parent())),
				"a configuration that was not compared with the one the path runs with can change maxReaders under the attached readers; guards: "+guardStr(s)+" "+why)
		}
	}
	c.Floor(c18r4Rule+".vetted", nDel, 1)

	// ---- pathConfCanBeUpdated(old, new) == true  =>  old.MaxReaders == new.MaxReaders
	unsafeWhy := ""
	safeRet := func(r *ssa.Return) bool {
		v := retVal(r, 0)
		if v == nil {
			return false
		}
		if b, isC := constBool(v); isC {
			return !b
		}
		cl, ok := deref(v).(*ssa.Call)
		if !ok || calleeName(&cl.Call) != "(*conf.Path).Equal" || len(cl.Call.Args) != 2 {
			return false
		}
		d0, d1 := desc(cl.Call.Args[0]), desc(cl.Call.Args[1])
		var clone, other string
		for _, pr := range [][2]string{{d0, d1}, {d1, d0}} {
			for _, q := range [][2]string{{"$0", "$1"}, {"$1", "$0"}} {
				if pr[0] == q[0] && pr[1] == "(conf.Path).Clone("+q[1]+")" {
					other, clone = pr[0], pr[1]
				}
			}
		}
		if clone == "" {
			return false
		}
		src := strings.TrimSuffix(strings.TrimPrefix(clone, "(conf.Path).Clone("), ")")
		safe := true
		eachInstr(vet, func(i ssa.Instruction) {
			st, ok := i.(*ssa.Store)
			if !ok {
				return
			}
			if desc(st.Addr) == clone || loadOf(st.Addr) != nil && desc(loadOf(st.Addr)) == clone {
				safe, unsafeWhy = false, "the whole clone is overwritten"
				return
			}
			fa, ok := st.Addr.(*ssa.FieldAddr)
			if !ok || desc(fa.X) != clone || fieldAddrName(fa) != "MaxReaders" {
				return
			}
			if desc(st.Val) == src+".MaxReaders" {
				return // copies the value it already has
			}
			safe, unsafeWhy = false, "MaxReaders of the clone is taken from "+desc(st.Val)+" before the comparison with "+other+": a change of maxReaders is accepted as hot-reloadable ("+p.Pos(st.Pos())+")"
		})
		return safe
	}
	w := (&Walker{
		Visit: func(i ssa.Instruction) int {
			r, ok := i.(*ssa.Return)
			if !ok {
				return wContinue
			}
			if r.Block().Comment == "recover" || safeRet(r) {
				return wStop
			}
			if retBool(0, true)(i) {
				return wHit
			}
			return wStop
		},
		Edge: func(l Lit) bool { return !(l.Pos && atomMatch("($0.MaxReaders == $1.MaxReaders)", l.Atom)) },
	}).Run(entry(vet))
	ok, detail := w == nil, ""
	if w != nil {
		detail = unsafeWhy + " " + w.String(p)
		// the path may still take it if it re-establishes the bound itself
		reest := len(installers) > 0
		for _, in := range installers {
			for _, st := range fieldStores(in.fn, "core.path", "conf") {
				np := "$" + itoa(in.k)
				alts := []LitPat{
					T("(" + np + ".MaxReaders == 0)"), T("($0.conf.MaxReaders == 0)"),
					F("(" + np + ".MaxReaders < len($0.readers))"), F("($0.conf.MaxReaders < len($0.readers))"),
					T("(len($0.readers) == 0)"), F("next(range($0.readers))#0"),
				}
				if w2 := reachWithout(after(st), anyReturn, alts); w2 != nil {
					reest = false
					detail += "; " + fnName(in.fn) + " does not re-establish len(readers) <= MaxReaders after installing the configuration: " + w2.String(p)
				}
			}
		}
		ok = reest
	}
	c.Check(c18r4Rule+".unchanged", fnName(vet)+": a configuration is hot-reloadable only with an unchanged MaxReaders (or the path re-establishes len(readers) <= MaxReaders when it installs it)", ok, p.Pos(vet.Pos()),
		"a reload that lowers maxReaders below the number of attached readers leaves the path over its limit for as long as they stay; addReaderPost only guards new readers. "+detail)
}
