package main

// Generic helpers added for C26-C31/C44 (rule agent C): edge literals between
// blocks, a must-pass walk with a free edge predicate, an interval evaluator
// over SSA integer expressions (E8) and small call/AST utilities.

import (
	"fmt"
	"go/ast"
	"go/constant"
	"go/token"
	"go/types"
	"math/big"
	"sort"
	"strings"

	"golang.org/x/tools/go/packages"
	"golang.org/x/tools/go/ssa"
)

// edgeLit returns the branch literal carried by the CFG edge pred->succ (ok
// false when pred does not end in an If or both successors are succ).
func edgeLit(pred, succ *ssa.BasicBlock) (Lit, bool) {
	if len(pred.Instrs) == 0 {
		return Lit{}, false
	}
	ifi, ok := pred.Instrs[len(pred.Instrs)-1].(*ssa.If)
	if !ok || len(pred.Succs) != 2 || pred.Succs[0] == pred.Succs[1] {
		return Lit{}, false
	}
	switch succ {
	case pred.Succs[0]:
		return litOf(ifi.Cond, true), true
	case pred.Succs[1]:
		return litOf(ifi.Cond, false), true
	}
	return Lit{}, false
}

// mustPassPred: every path from fn's entry to a target passes an edge whose
// literal satisfies blocks. Returns a witness of an offending path or nil.
func mustPassPred(fn *ssa.Function, t target, blocks func(Lit) bool) *Witness {
	w := &Walker{
		Visit: func(i ssa.Instruction) int {
			if t(i) {
				return wHit
			}
			return wContinue
		},
		Edge: func(l Lit) bool { return !blocks(l) },
	}
	return w.Run(entry(fn))
}

// checkMustPassPred records the obligation of mustPassPred under a caller
// supplied stable key.
func (c *Ctx) checkMustPassPred(p *Prog, fn *ssa.Function, rule, key string, t target, blocks func(Lit) bool) bool {
	if countTargets(fn, t) == 0 {
		c.Undecided("UNRESOLVED ANCHOR effect of \"" + key + "\" not found (rule " + rule + ")")
		return false
	}
	if w := mustPassPred(fn, t, blocks); w != nil {
		return c.Check(rule, key, false, p.Pos(posOf(w.Hit, fn)), "effect reachable without the required condition: "+w.String(p))
	}
	return c.Check(rule, key, true, p.Pos(fn.Pos()), "")
}

// constInt returns the integer value of a constant.
func constBig(v ssa.Value) (*big.Int, bool) {
	c, ok := v.(*ssa.Const)
	if !ok || c.Value == nil || c.Value.Kind() != constant.Int {
		return nil, false
	}
	b, ok := new(big.Int).SetString(c.Value.ExactString(), 10)
	return b, ok
}

// ---- E8: intervals ----

type ival struct{ lo, hi *big.Int }

func (a ival) String() string { return "[" + a.lo.String() + ", " + a.hi.String() + "]" }

func ivConst(n int64) ival { return ival{big.NewInt(n), big.NewInt(n)} }

func ivUnion(a, b ival) ival {
	r := ival{new(big.Int).Set(a.lo), new(big.Int).Set(a.hi)}
	if b.lo.Cmp(r.lo) < 0 {
		r.lo.Set(b.lo)
	}
	if b.hi.Cmp(r.hi) > 0 {
		r.hi.Set(b.hi)
	}
	return r
}

func (a ival) contains(n int64) bool {
	x := big.NewInt(n)
	return a.lo.Cmp(x) <= 0 && a.hi.Cmp(x) >= 0
}

func (a ival) within(b ival) bool { return a.lo.Cmp(b.lo) >= 0 && a.hi.Cmp(b.hi) <= 0 }

// intRange is the value range of a basic integer type for a given width of
// int/uint/uintptr (bits).
func intRange(t types.Type, intBits int) (ival, bool) {
	b, ok := t.Underlying().(*types.Basic)
	if !ok || b.Info()&types.IsInteger == 0 {
		return ival{}, false
	}
	bits, signed := 0, true
	switch b.Kind() {
	case types.Int, types.UntypedInt:
		bits = intBits
	case types.Int8:
		bits = 8
	case types.Int16:
		bits = 16
	case types.Int32:
		bits = 32
	case types.Int64:
		bits = 64
	case types.Uint, types.Uintptr:
		bits, signed = intBits, false
	case types.Uint8:
		bits, signed = 8, false
	case types.Uint16:
		bits, signed = 16, false
	case types.Uint32:
		bits, signed = 32, false
	case types.Uint64:
		bits, signed = 64, false
	default:
		return ival{}, false
	}
	one := big.NewInt(1)
	if signed {
		hi := new(big.Int).Lsh(one, uint(bits-1))
		lo := new(big.Int).Neg(hi)
		return ival{lo, hi.Sub(hi, one)}, true
	}
	hi := new(big.Int).Lsh(one, uint(bits))
	return ival{big.NewInt(0), hi.Sub(hi, one)}, true
}

// ivEval evaluates integer SSA expressions to intervals.
type ivEval struct {
	intBits int
	env     map[ssa.Value]ival // seeds (parameters, calls with known range)
	// overflow is called for every arithmetic/conversion node whose exact
	// result range does not fit its static type (the result is then widened to
	// the type's full range, as wrap-around may produce any value).
	overflow func(v ssa.Value, exact ival, typ ival)
	fits     func(v ssa.Value, exact ival, typ ival)
	memo     map[ssa.Value]*ival
	unknown  []ssa.Value
}

func (e *ivEval) eval(v ssa.Value) ival {
	if e.memo == nil {
		e.memo = map[ssa.Value]*ival{}
	}
	if r, ok := e.memo[v]; ok {
		if r == nil { // cycle: full range of the type
			full, _ := intRange(v.Type(), e.intBits)
			return full
		}
		return *r
	}
	e.memo[v] = nil
	r := e.eval1(v)
	e.memo[v] = &r
	return r
}

func (e *ivEval) full(v ssa.Value) ival {
	full, ok := intRange(v.Type(), e.intBits)
	if !ok {
		full = ival{big.NewInt(0), big.NewInt(0)}
	}
	e.unknown = append(e.unknown, v)
	return full
}

func (e *ivEval) clamp(v ssa.Value, exact ival) ival {
	typ, ok := intRange(v.Type(), e.intBits)
	if !ok {
		return exact
	}
	if exact.within(typ) {
		if e.fits != nil {
			e.fits(v, exact, typ)
		}
		return exact
	}
	if e.overflow != nil {
		e.overflow(v, exact, typ)
	}
	return typ
}

func (e *ivEval) eval1(v ssa.Value) ival {
	if r, ok := e.env[v]; ok {
		return r
	}
	switch x := v.(type) {
	case *ssa.Const:
		if b, ok := constBig(x); ok {
			return ival{b, new(big.Int).Set(b)}
		}
	case *ssa.Convert:
		if _, ok := intRange(x.X.Type(), e.intBits); ok {
			return e.clamp(x, e.eval(x.X))
		}
	case *ssa.ChangeType:
		return e.eval(x.X)
	case *ssa.Phi:
		var r *ival
		for _, ed := range x.Edges {
			a := e.eval(ed)
			if r == nil {
				r = &a
			} else {
				u := ivUnion(*r, a)
				r = &u
			}
		}
		if r != nil {
			return *r
		}
	case *ssa.BinOp:
		a, b := e.eval(x.X), e.eval(x.Y)
		switch x.Op {
		case token.ADD:
			return e.clamp(x, ival{new(big.Int).Add(a.lo, b.lo), new(big.Int).Add(a.hi, b.hi)})
		case token.SUB:
			return e.clamp(x, ival{new(big.Int).Sub(a.lo, b.hi), new(big.Int).Sub(a.hi, b.lo)})
		case token.MUL:
			cs := []*big.Int{new(big.Int).Mul(a.lo, b.lo), new(big.Int).Mul(a.lo, b.hi), new(big.Int).Mul(a.hi, b.lo), new(big.Int).Mul(a.hi, b.hi)}
			lo, hi := cs[0], cs[0]
			for _, c := range cs[1:] {
				if c.Cmp(lo) < 0 {
					lo = c
				}
				if c.Cmp(hi) > 0 {
					hi = c
				}
			}
			return e.clamp(x, ival{lo, hi})
		case token.QUO:
			// only for non-negative dividend and positive divisor
			if a.lo.Sign() >= 0 && b.lo.Sign() > 0 {
				return ival{new(big.Int).Quo(a.lo, b.hi), new(big.Int).Quo(a.hi, b.lo)}
			}
		case token.REM:
			if a.lo.Sign() >= 0 && b.lo.Sign() > 0 {
				hi := new(big.Int).Sub(b.hi, big.NewInt(1))
				if a.hi.Cmp(hi) < 0 {
					hi = new(big.Int).Set(a.hi)
				}
				return ival{big.NewInt(0), hi}
			}
		}
	case *ssa.Call:
		if bi, ok := x.Call.Value.(*ssa.Builtin); ok && len(x.Call.Args) == 2 && (bi.Name() == "min" || bi.Name() == "max") {
			a, b := e.eval(x.Call.Args[0]), e.eval(x.Call.Args[1])
			pick := func(p, q *big.Int) *big.Int {
				if (bi.Name() == "min") == (p.Cmp(q) <= 0) {
					return new(big.Int).Set(p)
				}
				return new(big.Int).Set(q)
			}
			return ival{pick(a.lo, b.lo), pick(a.hi, b.hi)}
		}
	}
	return e.full(v)
}

// ---- calls ----

// staticCallee returns the *ssa.Function statically called by an instruction.
func staticCallee(i ssa.Instruction) *ssa.Function {
	c := callCommon(i)
	if c == nil || c.IsInvoke() {
		return nil
	}
	switch f := c.Value.(type) {
	case *ssa.Function:
		return f
	case *ssa.MakeClosure:
		return f.Fn.(*ssa.Function)
	}
	return nil
}

// callSitesOf lists every call/go/defer instruction in the module that
// statically calls target, and every other reference to target as a value
// (address taken) as "escapes".
func callSitesOf(p *Prog, tgt *ssa.Function) (sites []ssa.Instruction, escapes []ssa.Instruction) {
	for _, fn := range p.ModFuncs() {
		eachInstr(fn, func(i ssa.Instruction) {
			if staticCallee(i) == tgt {
				sites = append(sites, i)
			}
			var ops []*ssa.Value
			for _, op := range i.Operands(ops) {
				if op == nil || *op == nil {
					continue
				}
				if f, ok := (*op).(*ssa.Function); ok && f == tgt {
					if cc := callCommon(i); cc != nil && cc.Value == f {
						continue
					}
					escapes = append(escapes, i)
				}
			}
		})
	}
	return
}

// ---- AST ----

// funcBodyOf returns the syntax node of an SSA function (FuncDecl or FuncLit)
// and its package.
func funcSyntax(p *Prog, fn *ssa.Function) (ast.Node, *packages.Package) {
	pk := p.ByPath[funcPkgPath(fn)]
	if fn.Syntax() == nil || pk == nil {
		return nil, nil
	}
	return fn.Syntax(), pk
}

// fileHasBuildConstraint: the file carries a //go:build line or a
// GOOS/GOARCH file-name suffix (so it may be absent in other configurations).
func fileHasBuildConstraint(p *Prog, f *ast.File) bool {
	name := p.Fset.Position(f.Pos()).Filename
	base := strings.TrimSuffix(name[strings.LastIndexByte(name, '/')+1:], ".go")
	for _, suf := range []string{"_linux", "_windows", "_darwin", "_freebsd", "_unix", "_amd64", "_arm", "_arm64", "_386"} {
		if strings.HasSuffix(base, suf) {
			return true
		}
	}
	for _, cg := range f.Comments {
		if cg.Pos() > f.Package {
			break
		}
		for _, cm := range cg.List {
			if strings.HasPrefix(cm.Text, "//go:build") || strings.HasPrefix(cm.Text, "// +build") {
				return true
			}
		}
	}
	return false
}

// fileOfFunc returns the *ast.File that declares fn.
func fileOfFunc(p *Prog, fn *ssa.Function) *ast.File {
	if !fn.Pos().IsValid() {
		return nil
	}
	return p.fileOf[p.Fset.Position(fn.Pos()).Filename]
}

// constStringVal returns the value of a constant string expression.
func constStringVal(pk *packages.Package, e ast.Expr) (string, bool) {
	tv, ok := pk.TypesInfo.Types[e]
	if !ok || tv.Value == nil || tv.Value.Kind() != constant.String {
		return "", false
	}
	return constant.StringVal(tv.Value), true
}

// ssaConstString returns the value of an SSA string constant.
func ssaConstString(v ssa.Value) (string, bool) {
	c, ok := v.(*ssa.Const)
	if !ok || c.Value == nil || c.Value.Kind() != constant.String {
		return "", false
	}
	return constant.StringVal(c.Value), true
}

// ---- E5: origin tracing of time.Time values (location class) ----

// tOrigin is one origin leaf of a time.Time value.
type tOrigin struct {
	Class string // local | zero | parsed | nonlocal | unknown
	What  string // stable description of the leaf (callee / construct)
	Why   string // reason for the class (table entries)
	Pos   token.Pos
	Fn    *ssa.Function
}

type fieldKey struct {
	typ   string
	field string
}

type timeTracer struct {
	p       *Prog
	stores  map[fieldKey][]ssa.Value // every value stored to (struct type, field) in the module
	gstores map[*ssa.Global][]ssa.Value
	sites   map[*ssa.Function][]ssa.Instruction
	escapes map[*ssa.Function]bool
	// third-party / opaque callees whose result class was established by reading
	table map[string]tOrigin
	seen  map[ssa.Value]bool
	out   []tOrigin
}

func newTimeTracer(p *Prog, table map[string]tOrigin) *timeTracer {
	t := &timeTracer{p: p, stores: map[fieldKey][]ssa.Value{}, gstores: map[*ssa.Global][]ssa.Value{},
		sites: map[*ssa.Function][]ssa.Instruction{}, escapes: map[*ssa.Function]bool{}, table: table}
	for _, fn := range p.ModFuncs() {
		eachInstr(fn, func(i ssa.Instruction) {
			if st, ok := i.(*ssa.Store); ok {
				switch a := st.Addr.(type) {
				case *ssa.FieldAddr:
					pt := a.X.Type().Underlying().(*types.Pointer)
					s := pt.Elem().Underlying().(*types.Struct)
					k := fieldKey{typeStr(pt.Elem()), s.Field(a.Field).Name()}
					t.stores[k] = append(t.stores[k], st.Val)
				case *ssa.Global:
					t.gstores[a] = append(t.gstores[a], st.Val)
				}
			}
			if f := staticCallee(i); f != nil {
				t.sites[f] = append(t.sites[f], i)
			}
			var ops []*ssa.Value
			for _, op := range i.Operands(ops) {
				if op == nil || *op == nil {
					continue
				}
				f, ok := (*op).(*ssa.Function)
				if mc, isMC := (*op).(*ssa.MakeClosure); isMC {
					f, ok = mc.Fn.(*ssa.Function), true
				}
				if !ok {
					continue
				}
				if cc := callCommon(i); cc != nil && cc.Value == *op {
					continue
				}
				t.escapes[f] = true
			}
		})
	}
	return t
}

func (t *timeTracer) leaf(class, what string, v ssa.Value) {
	o := tOrigin{Class: class, What: what}
	if i, ok := v.(ssa.Instruction); ok {
		o.Pos = i.Pos()
		o.Fn = i.Parent()
	} else if pr, ok := v.(*ssa.Parameter); ok {
		o.Pos = pr.Pos()
		o.Fn = pr.Parent()
	}
	t.out = append(t.out, o)
}

// Origins returns the origin leaves of v (deduplicated by class+what).
func (t *timeTracer) Origins(v ssa.Value) []tOrigin {
	t.seen = map[ssa.Value]bool{}
	t.out = nil
	t.trace(v)
	dedup := map[string]bool{}
	var out []tOrigin
	for _, o := range t.out {
		k := o.Class + "|" + o.What
		if !dedup[k] {
			dedup[k] = true
			out = append(out, o)
		}
	}
	sort.Slice(out, func(i, j int) bool { return out[i].Class+out[i].What < out[j].Class+out[j].What })
	return out
}

func (t *timeTracer) fieldLoad(structT types.Type, idx int, v ssa.Value) {
	s := structT.Underlying().(*types.Struct)
	k := fieldKey{typeStr(structT), s.Field(idx).Name()}
	vals := t.stores[k]
	if len(vals) == 0 {
		t.leaf("zero", "never-stored field "+k.typ+"."+k.field, v)
		return
	}
	for _, sv := range vals {
		t.trace(sv)
	}
}

func (t *timeTracer) trace(v ssa.Value) {
	v = stripConv(v)
	if t.seen[v] {
		return
	}
	t.seen[v] = true
	switch x := v.(type) {
	case *ssa.Const:
		t.leaf("zero", "zero time.Time", v)
	case *ssa.Phi:
		for _, e := range x.Edges {
			t.trace(e)
		}
	case *ssa.Extract:
		if cl, ok := x.Tuple.(*ssa.Call); ok {
			t.call(cl, x.Index)
			return
		}
		t.leaf("unknown", desc(v), v)
	case *ssa.Call:
		t.call(x, 0)
	case *ssa.Field:
		t.fieldLoad(x.X.Type(), x.Field, v)
	case *ssa.UnOp:
		if x.Op != token.MUL {
			t.leaf("unknown", desc(v), v)
			return
		}
		switch a := x.X.(type) {
		case *ssa.FieldAddr:
			// a literal under construction in this function: use its own stores
			if al, ok := a.X.(*ssa.Alloc); ok {
				found := false
				for _, r := range *al.Referrers() {
					fa, ok := r.(*ssa.FieldAddr)
					if !ok || fa.Field != a.Field {
						continue
					}
					for _, rr := range *fa.Referrers() {
						if st, ok := rr.(*ssa.Store); ok && st.Addr == ssa.Value(fa) {
							found = true
							t.trace(st.Val)
						}
					}
				}
				if found {
					return
				}
			}
			t.fieldLoad(a.X.Type().Underlying().(*types.Pointer).Elem(), a.Field, v)
		case *ssa.Alloc:
			n := 0
			for _, r := range *a.Referrers() {
				if st, ok := r.(*ssa.Store); ok && st.Addr == ssa.Value(a) {
					n++
					t.trace(st.Val)
				}
			}
			if n == 0 {
				t.leaf("zero", "zero time.Time", v)
			}
		case *ssa.FreeVar:
			t.freeVar(a, v)
		case *ssa.IndexAddr, *ssa.Global:
			t.leaf("unknown", desc(v), v)
		default:
			t.leaf("unknown", desc(v), v)
		}
	case *ssa.Parameter:
		fn := x.Parent()
		sites := t.sites[fn]
		if len(sites) == 0 || t.escapes[fn] {
			t.leaf("unknown", "parameter "+x.Name()+" of "+fnName(fn)+" (called indirectly)", v)
			return
		}
		k := paramIndex(x)
		for _, s := range sites {
			cc := callCommon(s)
			if k < len(cc.Args) {
				t.trace(cc.Args[k])
			}
		}
	default:
		t.leaf("unknown", desc(v), v)
	}
}

// freeVar resolves a captured variable to the stores made to it in the
// enclosing function and in sibling closures.
func (t *timeTracer) freeVar(fv *ssa.FreeVar, v ssa.Value) {
	fn := fv.Parent()
	par := fn.Parent()
	if par == nil {
		t.leaf("unknown", desc(v), v)
		return
	}
	idx := -1
	for k, f := range fn.FreeVars {
		if f == fv {
			idx = k
		}
	}
	found := false
	eachInstr(par, func(i ssa.Instruction) {
		mc, ok := i.(*ssa.MakeClosure)
		if !ok || mc.Fn != ssa.Value(fn) || idx < 0 || idx >= len(mc.Bindings) {
			return
		}
		if al, ok := mc.Bindings[idx].(*ssa.Alloc); ok {
			for _, r := range *al.Referrers() {
				if st, ok := r.(*ssa.Store); ok && st.Addr == ssa.Value(al) {
					found = true
					t.trace(st.Val)
				}
			}
		}
	})
	if !found {
		t.leaf("unknown", "captured variable "+fv.Name()+" of "+fnName(fn), v)
	}
}

func (t *timeTracer) call(cl *ssa.Call, res int) {
	name := calleeName(&cl.Call)
	// calls through a package-level function variable with a single function value
	if u, ok := cl.Call.Value.(*ssa.UnOp); ok && u.Op == token.MUL {
		if g, ok := u.X.(*ssa.Global); ok {
			vals := t.gstores[g]
			if len(vals) == 1 {
				if f, ok := vals[0].(*ssa.Function); ok {
					name = funcRefName(f)
				}
			}
		}
	}
	if o, ok := t.table[name]; ok {
		t.leaf(o.Class, name, cl)
		t.out[len(t.out)-1].Why = o.What
		return
	}
	// calls of a closure held in a local or captured variable
	_, isFn := cl.Call.Value.(*ssa.Function)
	if f := t.closureCallee(cl.Call.Value); f != nil && !isFn && !cl.Call.IsInvoke() && inModule(f) {
		n := 0
		for _, r := range returnsOf(f) {
			if r.Block().Comment == "recover" {
				continue
			}
			if rv := retVal(r, res); rv != nil {
				n++
				t.trace(rv)
			}
		}
		if n > 0 {
			return
		}
	}
	switch name {
	case "time.Now", "time.Unix", "time.UnixMilli", "time.UnixMicro":
		t.leaf("local", name, cl)
		return
	case "time.Parse", "time.ParseInLocation":
		t.leaf("parsed", name, cl)
		return
	case "time.Date":
		if desc(cl.Call.Args[7]) == "time.Local" {
			t.leaf("local", "time.Date(..., time.Local)", cl)
		} else {
			t.leaf("nonlocal", "time.Date(..., "+desc(cl.Call.Args[7])+")", cl)
		}
		return
	case "(time.Time).Local":
		t.leaf("local", name, cl)
		return
	case "(time.Time).In":
		if desc(cl.Call.Args[1]) == "time.Local" {
			t.leaf("local", "(time.Time).In(time.Local)", cl)
		} else {
			t.leaf("nonlocal", "(time.Time).In("+desc(cl.Call.Args[1])+")", cl)
		}
		return
	case "(time.Time).UTC":
		t.leaf("nonlocal", name, cl)
		return
	case "(time.Time).Add", "(time.Time).Round", "(time.Time).Truncate", "(time.Time).AddDate":
		t.trace(cl.Call.Args[0])
		return
	}
	if f := staticCallee(cl); f != nil && f.Blocks != nil && inModule(f) {
		n := 0
		for _, r := range returnsOf(f) {
			if r.Block().Comment == "recover" {
				continue
			}
			if rv := retVal(r, res); rv != nil {
				n++
				t.trace(rv)
			}
		}
		if n > 0 {
			return
		}
	}
	t.leaf("unknown", "call "+name, cl)
}

// closureCallee resolves a called function value that is a closure stored in
// a local variable or captured by the calling closure.
func (t *timeTracer) closureCallee(v ssa.Value) *ssa.Function {
	for depth := 0; depth < 4; depth++ {
		switch x := v.(type) {
		case *ssa.MakeClosure:
			return x.Fn.(*ssa.Function)
		case *ssa.Function:
			return x
		case *ssa.UnOp:
			if x.Op != token.MUL {
				return nil
			}
			v = x.X
		case *ssa.Alloc:
			var only ssa.Value
			n := 0
			for _, r := range *x.Referrers() {
				if st, ok := r.(*ssa.Store); ok && st.Addr == ssa.Value(x) {
					only = st.Val
					n++
				}
			}
			if n != 1 {
				return nil
			}
			v = only
		case *ssa.FreeVar:
			fn := x.Parent()
			par := fn.Parent()
			if par == nil {
				return nil
			}
			idx := -1
			for k, f := range fn.FreeVars {
				if f == x {
					idx = k
				}
			}
			var bound ssa.Value
			eachInstr(par, func(i ssa.Instruction) {
				if mc, ok := i.(*ssa.MakeClosure); ok && mc.Fn == ssa.Value(fn) && idx >= 0 && idx < len(mc.Bindings) {
					bound = mc.Bindings[idx]
				}
			})
			if bound == nil {
				return nil
			}
			v = bound
		default:
			return nil
		}
	}
	return nil
}

// mustPassConsistent is the path-sensitive form of the must-pass rule for
// small acyclic regions: it enumerates entry->target paths (each block at most
// once per path), discards paths whose branch literals contradict each other
// (the same atom taken with both polarities, as in `switch { case a && b: ...
// case a && !b: ... }` chains that re-evaluate a condition), and requires one
// of alts among the literals of every remaining path. Returns a description
// of an offending path, "" when none, and ok=false when the path cap is hit.
func mustPassConsistent(fn *ssa.Function, t target, alts []LitPat) (witness string, ok bool) {
	const capPaths = 200000
	n := 0
	assign := map[string]bool{}
	var order []Lit
	onPath := map[*ssa.BasicBlock]bool{}
	var dfs func(b *ssa.BasicBlock) bool
	dfs = func(b *ssa.BasicBlock) bool {
		if onPath[b] {
			return true
		}
		onPath[b] = true
		defer func() { onPath[b] = false }()
		for _, ins := range b.Instrs {
			if t(ins) {
				n++
				if n > capPaths {
					return false
				}
				sat := false
				for _, l := range order {
					for _, a := range alts {
						if a.match(l) {
							sat = true
						}
					}
				}
				if !sat {
					var ls []string
					for _, l := range order {
						ls = append(ls, l.String())
					}
					witness = "consistent path without the required condition: [" + strings.Join(ls, " ∧ ") + "]"
					return false
				}
				return true
			}
		}
		if len(b.Instrs) == 0 {
			return true
		}
		if ifi, isIf := b.Instrs[len(b.Instrs)-1].(*ssa.If); isIf {
			for k, s := range b.Succs {
				l := litOf(ifi.Cond, k == 0)
				if cv, isC := ifi.Cond.(*ssa.Const); isC && cv.Value != nil && cv.Value.Kind() == constant.Bool {
					if constant.BoolVal(cv.Value) != (k == 0) {
						continue
					}
				}
				ck, cpos := condKey(ifi.Cond, k == 0)
				prev, had := assign[ck]
				if had && prev != cpos {
					continue // contradictory: the very same value was taken the other way
				}
				if !had {
					assign[ck] = cpos
				}
				order = append(order, l)
				cont := dfs(s)
				order = order[:len(order)-1]
				if !had {
					delete(assign, ck)
				}
				if !cont {
					return false
				}
			}
			return true
		}
		for _, s := range b.Succs {
			if !dfs(s) {
				return false
			}
		}
		return true
	}
	done := dfs(fn.Blocks[0])
	if witness != "" {
		return witness, true
	}
	return "", done
}

// MustPassConsistent records the obligation of mustPassConsistent.
func (c *Ctx) MustPassConsistent(p *Prog, fn *ssa.Function, rule, effect string, t target, alts ...LitPat) bool {
	key := fnName(fn) + ": " + effect + " ⇒ " + altsStr(alts)
	if countTargets(fn, t) == 0 {
		c.Undecided("UNRESOLVED ANCHOR effect " + effect + " not found in " + fnName(fn) + " (rule " + rule + ")")
		return false
	}
	w, ok := mustPassConsistent(fn, t, alts)
	if !ok {
		c.Undecided("path cap exceeded in " + fnName(fn) + " (rule " + rule + ")")
		return false
	}
	return c.Check(rule, key, w == "", p.Pos(fn.Pos()), w)
}

// condKey identifies a branch condition by the identity of its SSA operands
// (not by their rendering: two calls with equal descriptions are different
// values), normalised like litOf so that re-evaluations of the same pure
// comparison share a key.
func condKey(cond ssa.Value, outcome bool) (string, bool) {
	vkey := func(v ssa.Value) string {
		if _, ok := v.(*ssa.Const); ok {
			return "c:" + desc(v)
		}
		return fmt.Sprintf("%p", v)
	}
	switch x := cond.(type) {
	case *ssa.UnOp:
		if x.Op == token.NOT {
			return condKey(x.X, !outcome)
		}
	case *ssa.BinOp:
		a, b := vkey(x.X), vkey(x.Y)
		switch x.Op {
		case token.EQL, token.NEQ:
			if a > b {
				a, b = b, a
			}
			pos := outcome
			if x.Op == token.NEQ {
				pos = !pos
			}
			return "==|" + a + "|" + b, pos
		case token.LSS:
			return "<|" + a + "|" + b, outcome
		case token.GTR:
			return "<|" + b + "|" + a, outcome
		case token.GEQ:
			return "<|" + a + "|" + b, !outcome
		case token.LEQ:
			return "<|" + b + "|" + a, !outcome
		}
	}
	return vkey(cond), outcome
}
