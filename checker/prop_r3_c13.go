package main

// C13 (round 3) - an in-place reload really reloads.
//
// Core.closeResources does not recreate a component when only hot-reloadable
// parameters changed; it hands the new values to the running component through
// a Reload* method instead (auth manager, record cleaner, playback server, path
// manager). The field-coverage rules of prop_c13.go stop at that call. "The
// component runs with the new values" additionally needs, inside the component:
//
//	reload_applied.stored    the payload of Reload* reaches a store into a field of
//	                         the component (directly, or through the request
//	                         channel of its run loop), i.e. it is not dropped;
//	reload_applied.no_stale  in every function that performs that store (or calls
//	                         the function that does), no value that was DERIVED
//	                         from the field before the store - a load of the field,
//	                         the result of a method that reads it, or anything
//	                         computed from those (a timer, a channel, a duration)
//	                         - is used after the store unless the field has been
//	                         read again in between. A use that is reachable from
//	                         the store without a fresh derivation operates on the
//	                         previous configuration: the reload is not applied.
//
// Seeded change C13_r3: recordcleaner.Cleaner.run created one time.Timer from
// c.cleanInterval() before its loop; `case cnf := <-c.chReloadConf: c.PathConfs =
// cnf` is followed by the next wait on timer.C, still armed with the interval of
// the old recordDeleteAfter values.

import (
	"fmt"
	"go/token"
	"go/types"
	"sort"
	"strings"

	"golang.org/x/tools/go/ssa"
)

type sinkR3c13 struct {
	st    *ssa.Store
	strct string // struct type name as rendered by typeStr, e.g. recordcleaner.Cleaner
	field string
	pkg   string
	via   string
}

// fieldOfAddrR3c13: addr is &x.F for a named struct type; returns (type, field).
func fieldOfAddrR3c13(addr ssa.Value) (string, string, bool) {
	fa, ok := addr.(*ssa.FieldAddr)
	if !ok {
		return "", "", false
	}
	pt, ok := fa.X.Type().Underlying().(*types.Pointer)
	if !ok {
		return "", "", false
	}
	if _, ok := types.Unalias(pt.Elem()).(*types.Named); !ok {
		return "", "", false
	}
	return typeStr(pt.Elem()), fieldAddrName(fa), true
}

// chanFieldR3c13: v is a load of a channel-typed struct field.
func chanFieldR3c13(v ssa.Value) (string, string, bool) {
	u, ok := stripConv(v).(*ssa.UnOp)
	if !ok {
		return "", "", false
	}
	return fieldOfAddrR3c13(u.X)
}

// traceReloadPayloadR3c13 follows the reload payload to the field stores it ends in.
func traceReloadPayloadR3c13(p *Prog, v ssa.Value, via string, depth int, seen map[ssa.Value]bool, out *[]sinkR3c13) {
	if v == nil || seen[v] || depth > 6 || v.Referrers() == nil {
		return
	}
	seen[v] = true
	recvFrom := func(strct, ch string) {
		for _, g := range p.ModFuncs() {
			for _, b := range g.Blocks {
				for _, ins := range b.Instrs {
					switch x := ins.(type) {
					case *ssa.Select:
						k := 0
						for _, st := range x.States {
							if st.Send != nil {
								continue
							}
							if s2, c2, ok := chanFieldR3c13(st.Chan); ok && s2 == strct && c2 == ch {
								if ex := extractOf(x, 2+k); ex != nil {
									traceReloadPayloadR3c13(p, ex, via+" → <-"+ch+" in "+fnName(g), depth+1, seen, out)
								}
							}
							k++
						}
					case *ssa.UnOp:
						if x.Op.String() == "<-" {
							if s2, c2, ok := chanFieldR3c13(x.X); ok && s2 == strct && c2 == ch {
								var val ssa.Value = x
								if x.CommaOk {
									val = extractOf(x, 0)
								}
								traceReloadPayloadR3c13(p, val, via+" → <-"+ch+" in "+fnName(g), depth+1, seen, out)
							}
						}
					}
				}
			}
		}
	}
	for _, r := range *v.Referrers() {
		switch x := r.(type) {
		case *ssa.Store:
			if x.Val != v {
				continue
			}
			if s, f, ok := fieldOfAddrR3c13(x.Addr); ok {
				pk := ""
				if x.Parent().Pkg != nil {
					pk = x.Parent().Pkg.Pkg.Path()
				}
				*out = append(*out, sinkR3c13{x, s, f, pk, via})
			}
		case *ssa.Send:
			if x.X == v {
				if s, ch, ok := chanFieldR3c13(x.Chan); ok {
					recvFrom(s, ch)
				}
			}
		case *ssa.Select:
			for _, st := range x.States {
				if st.Send == v {
					if s, ch, ok := chanFieldR3c13(st.Chan); ok {
						recvFrom(s, ch)
					}
				}
			}
		case *ssa.Call:
			callee := x.Call.StaticCallee()
			if callee == nil || callee.Blocks == nil || !inModule(callee) || x.Call.IsInvoke() {
				continue
			}
			for k, a := range x.Call.Args {
				if a == v && k < len(callee.Params) {
					traceReloadPayloadR3c13(p, callee.Params[k], via+" → "+fnName(callee), depth+1, seen, out)
				}
			}
		case *ssa.Phi, *ssa.ChangeType, *ssa.Convert, *ssa.MakeInterface, *ssa.ChangeInterface:
			traceReloadPayloadR3c13(p, r.(ssa.Value), via, depth+1, seen, out)
		}
	}
}

// fieldAccessSetsR3c13: which functions of the module read / write strct.field,
// directly or through static callees.
func fieldAccessSetsR3c13(p *Prog, strct, field string) (reads, writes map[*ssa.Function]bool, funcs []*ssa.Function) {
	reads, writes = map[*ssa.Function]bool{}, map[*ssa.Function]bool{}
	// the component's own code: methods of the struct and the closures inside them
	for _, g := range p.ModFuncs() {
		top := g
		for top.Parent() != nil {
			top = top.Parent()
		}
		if r := top.Signature.Recv(); r != nil {
			t := r.Type()
			if pt, ok := t.(*types.Pointer); ok {
				t = pt.Elem()
			}
			if typeStr(t) == strct {
				funcs = append(funcs, g)
			}
		}
	}
	inSet := map[*ssa.Function]bool{}
	for _, g := range funcs {
		inSet[g] = true
	}
	for _, g := range funcs {
		for _, b := range g.Blocks {
			for _, ins := range b.Instrs {
				fa, ok := ins.(*ssa.FieldAddr)
				if !ok {
					continue
				}
				if s, f, ok := fieldOfAddrR3c13(fa); !ok || s != strct || f != field {
					continue
				}
				for _, r := range *fa.Referrers() {
					if st, ok := r.(*ssa.Store); ok && st.Addr == ssa.Value(fa) {
						// initialising a freshly allocated object is construction, not a reload
						if _, fresh := fa.X.(*ssa.Alloc); !fresh {
							writes[g] = true
						}
					} else {
						reads[g] = true
					}
				}
			}
		}
	}
	// transitive closure over static calls (closures count for their own body only)
	for changed := true; changed; {
		changed = false
		for _, g := range funcs {
			for _, b := range g.Blocks {
				for _, ins := range b.Instrs {
					cl, ok := ins.(*ssa.Call)
					if !ok {
						continue
					}
					h := cl.Call.StaticCallee()
					if h == nil || !inSet[h] {
						continue
					}
					if reads[h] && !reads[g] {
						reads[g], changed = true, true
					}
					if writes[h] && !writes[g] {
						writes[g], changed = true, true
					}
				}
			}
		}
	}
	return reads, writes, funcs
}

func c13ReloadApplied(c *Ctx, p *Prog) {
	cr := c.fn(p, "internal/core", "Core", "closeResources")
	if cr == nil {
		return
	}
	// the in-place reload entry points used by the core
	var entries []*ssa.Function
	seenE := map[*ssa.Function]bool{}
	eachInstr(cr, func(i ssa.Instruction) {
		cl, ok := i.(*ssa.Call)
		if !ok {
			return
		}
		h := cl.Call.StaticCallee()
		if h == nil || !inModule(h) || h.Signature.Recv() == nil || !strings.HasPrefix(h.Name(), "Reload") || seenE[h] {
			return
		}
		seenE[h] = true
		entries = append(entries, h)
	})
	c.Floor("C13.reload_applied", len(entries), 4)
	sort.Slice(entries, func(i, j int) bool { return fnName(entries[i]) < fnName(entries[j]) })

	type fkey struct{ strct, field string }
	doneField := map[fkey]bool{}
	for _, m := range entries {
		c.Analysed(fnName(m))
		var sinks []sinkR3c13
		for k := 1; k < len(m.Params); k++ {
			traceReloadPayloadR3c13(p, m.Params[k], fnName(m), 0, map[ssa.Value]bool{}, &sinks)
		}
		var where []string
		for _, s := range sinks {
			where = append(where, s.strct+"."+s.field+" in "+fnName(s.st.Parent()))
		}
		c.Check("C13.reload_applied.stored", fnName(m)+": the new values reach a field of the running component (directly or through the request channel of its run loop)", len(sinks) > 0, p.Pos(m.Pos()), strings.Join(where, ", "))
		for _, s := range sinks {
			k := fkey{s.strct, s.field}
			if doneField[k] {
				continue
			}
			doneField[k] = true
			c13NoStale(c, p, s)
		}
	}
}

// c13NoStale: rule reload_applied.no_stale for one reloaded field.
func c13NoStale(c *Ctx, p *Prog, s sinkR3c13) {
	reads, writes, own := fieldAccessSetsR3c13(p, s.strct, s.field)
	isFieldAddr := func(v ssa.Value) bool {
		st, f, ok := fieldOfAddrR3c13(v)
		return ok && st == s.strct && f == s.field
	}
	n := 0
	for _, g := range own {
		if len(g.Blocks) == 0 {
			continue
		}
		// S points: stores of the field, calls of functions that store it
		var sPoints []ssa.Instruction
		isD := func(i ssa.Instruction) bool {
			switch x := i.(type) {
			case *ssa.FieldAddr:
				if !isFieldAddr(x) {
					return false
				}
				for _, r := range *x.Referrers() {
					if st, ok := r.(*ssa.Store); !ok || st.Addr != ssa.Value(x) {
						return true
					}
				}
			case *ssa.Call:
				if h := x.Call.StaticCallee(); h != nil && reads[h] {
					return true
				}
			}
			return false
		}
		for _, b := range g.Blocks {
			for _, ins := range b.Instrs {
				switch x := ins.(type) {
				case *ssa.Store:
					if fa, ok := x.Addr.(*ssa.FieldAddr); ok && isFieldAddr(fa) {
						if _, fresh := fa.X.(*ssa.Alloc); !fresh {
							sPoints = append(sPoints, ins)
						}
					}
				case *ssa.Call:
					if h := x.Call.StaticCallee(); h != nil && writes[h] {
						sPoints = append(sPoints, ins)
					}
				}
			}
		}
		if len(sPoints) == 0 {
			continue
		}
		n++
		// values derived from the field anywhere in g
		tainted := map[ssa.Value]bool{}
		var work []ssa.Value
		add := func(v ssa.Value) {
			if v != nil && !tainted[v] {
				tainted[v] = true
				work = append(work, v)
			}
		}
		isS := map[ssa.Instruction]bool{}
		for _, sp := range sPoints {
			isS[sp] = true
		}
		for _, b := range g.Blocks {
			for _, ins := range b.Instrs {
				// the result of a call that itself applies the reload is computed with the new value
				if v, ok := ins.(ssa.Value); ok && isD(ins) && !isS[ins] {
					add(v)
				}
			}
		}
		for len(work) > 0 {
			v := work[len(work)-1]
			work = work[:len(work)-1]
			if v.Referrers() == nil {
				continue
			}
			for _, r := range *v.Referrers() {
				switch x := r.(type) {
				case *ssa.Store:
					if x.Val == v {
						// a local variable (or a field/element of one) now holds the derived value
						base := x.Addr
						for {
							if fa, ok := base.(*ssa.FieldAddr); ok {
								base = fa.X
							} else if ia, ok := base.(*ssa.IndexAddr); ok {
								base = ia.X
							} else {
								break
							}
						}
						if a, ok := base.(*ssa.Alloc); ok {
							add(a)
						}
					}
				case ssa.Value:
					add(x)
				}
			}
		}
		uses := func(i ssa.Instruction) bool {
			// only instructions with an effect count (waiting on, passing on, branching on or
			// storing the derived value); selecting a field or converting it is not a use yet
			switch x := i.(type) {
			case *ssa.Select, *ssa.Send, *ssa.If, *ssa.MapUpdate, *ssa.Return, *ssa.Range, *ssa.Panic:
			case *ssa.UnOp:
				if x.Op != token.ARROW {
					return false
				}
			case *ssa.Store:
				return tainted[x.Val]
			case *ssa.Call, *ssa.Go, *ssa.Defer:
				// tearing down the object built from the old value (timer.Stop(), cancel(), x.Close()) is not a use of it
				cc := callCommon(i)
				name := ""
				if f := cc.StaticCallee(); f != nil {
					name = f.Name()
				} else if cc.IsInvoke() {
					name = cc.Method.Name()
				}
				switch name {
				case "Stop", "Close", "Cancel":
					return false
				}
				if _, isFn := cc.Value.Type().Underlying().(*types.Signature); isFn && cc.StaticCallee() == nil && !cc.IsInvoke() && len(cc.Args) == 0 && tainted[cc.Value] {
					return false // cancel()
				}
			default:
				return false
			}
			for _, op := range i.Operands(nil) {
				if op != nil && *op != nil && tainted[*op] {
					return true
				}
			}
			return false
		}
		var bad []string
		badPos := g.Pos()
		for _, sp := range sPoints {
			w := (&Walker{Visit: func(i ssa.Instruction) int {
				if isD(i) {
					return wStop // derived again from the new value
				}
				if uses(i) {
					return wHit
				}
				return wContinue
			}}).Run(after(sp))
			if w != nil {
				what := fmt.Sprintf("%T", w.Hit)
				if v, ok := w.Hit.(ssa.Value); ok {
					what = desc(v)
				}
				bad = append(bad, "after "+p.Pos(posOf(sp, g))+" the instruction at "+p.Pos(posOf(w.Hit, g))+" ("+what+") uses a value computed from the previous "+s.field+" without reading the field again: "+w.String(p))
				badPos = posOf(w.Hit, g)
			}
		}
		c.Check("C13.reload_applied.no_stale", fnName(g)+": once the reloaded "+s.strct+"."+s.field+" is stored, nothing derived from its previous value is used before it is derived again", len(bad) == 0, p.Pos(badPos), strings.Join(bad, "; "))
	}
	c.Check("C13.reload_applied.no_stale", s.strct+"."+s.field+": at least one function applies the reload", n > 0, p.Pos(s.st.Pos()), "")
}
