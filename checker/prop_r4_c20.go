package main

import (
	"golang.org/x/tools/go/ssa"
)

// C20.*.closed_when_open - "... any open pair is closed when the path closes" (and,
// for the server-side holders, when the reader / connection goes away).
//
// The who_may_call / call_guard rules say where the stop closure MAY run and under
// which literal (the one that means "the pair is open": holder != nil, session state
// == play, ...). They are satisfied by a closing function that runs the closure too
// rarely. This is the converse, per (closing function, holder):
//
//	every path from the start of the closing function to a return either calls the
//	stop closure held in the field, or passes the edge on which the "pair is open"
//	literal is FALSE (holder == nil, state != play). With no literal in the table the
//	call is unconditional.
//
// So the call may be moved, wrapped in a helper, or reordered with its neighbours,
// but it may not be put under an additional condition (a publisher is attached, a
// source exists, ...): on the paths where that condition fails an open pair survives
// its owner - the start command keeps running and the stop command never runs.
// For path.run the walk starts after the event loop (runInner) returned: the teardown
// is what closes the pairs that are open at that moment. The stream-paired holder
// (onUnavailableHook) is closed through setNotAvailable, its literal is stream != nil.

func init() {
	addMutants(
		// the seed: the runOnDemand pair is closed only while a publisher is attached
		Mutant{"C20", "undemand-at-teardown-only-with-publisher", "internal/core/path.go",
			"		} else if source, ok2 := pa.source.(defs.Publisher); ok2 {\n			source.Close()\n		}\n	}\n\n	if pa.onUnDemandHook != nil {\n		pa.onUnDemandHook(\"path destroyed\")\n	}\n",
			"		} else if source, ok2 := pa.source.(defs.Publisher); ok2 {\n			if pa.onUnDemandHook != nil {\n				pa.onUnDemandHook(\"path destroyed\")\n			}\n\n			source.Close()\n		}\n	}\n", "C20.demand.closed_when_open"},
		// same class, the stream-paired holder
		Mutant{"C20", "unavailable-at-teardown-only-with-source", "internal/core/path.go",
			"	if pa.stream != nil {\n		pa.setNotAvailable()\n	}\n\n	pa.Log(logger.Debug, \"destroyed: %v\", err)", "	if pa.stream != nil && pa.source != nil {\n		pa.setNotAvailable()\n	}\n\n	pa.Log(logger.Debug, \"destroyed: %v\", err)", "C20.available.closed_when_open"},
		// same class, a server-side holder
		Mutant{"C20", "rtsp-unread-only-with-stream", "internal/servers/rtsp/session.go",
			"	if s.rsession.State() == gortsplib.ServerSessionStatePlay {\n		s.onUnreadHook()\n	}\n\n	if s.mpegtsDemuxer != nil {", "	if s.rsession.State() == gortsplib.ServerSessionStatePlay && s.stream != nil {\n		s.onUnreadHook()\n	}\n\n	if s.mpegtsDemuxer != nil {", "C20.server_holder.closed_when_open"},
	)
}

// c20r4ClosedWhenOpen: in fn, from `from`, every path to a return runs `closes` or
// passes an edge on which `open` is false. open == nil: unconditional.
func c20r4ClosedWhenOpen(c *Ctx, p *Prog, fn *ssa.Function, from Point, rule, holder string, closes func(ssa.Instruction) bool, open *LitPat) {
	key := fnName(fn) + ": every return is preceded by the stop closure of " + holder
	if open != nil {
		key += " unless " + Lit{open.Atom, !open.Pos}.String() + " (the pair is not open)"
	}
	// a closing function that can refuse (last result `error`, e.g. rtsp onPause in
	// MPEG-TS demux mode) has closed nothing when it reports the error: only its
	// successful returns count
	errIdx := -1
	if res := fn.Signature.Results(); res.Len() > 0 && typeStr(res.At(res.Len()-1).Type()) == "error" {
		errIdx = res.Len() - 1
	}
	w := (&Walker{
		Visit: func(i ssa.Instruction) int {
			if closes(i) {
				return wStop
			}
			if r, ok := i.(*ssa.Return); ok && r.Block().Comment != "recover" {
				if errIdx >= 0 && !retNil(errIdx)(i) {
					return wStop
				}
				return wHit
			}
			return wContinue
		},
		Edge: func(l Lit) bool {
			// the edge on which the "open" literal is false
			return !(open != nil && l.Pos != open.Pos && atomMatch(open.Atom, l.Atom))
		},
	}).Run(from)
	c.Check(rule, key, w == nil, p.Pos(fn.Pos()),
		"a stop closure that runs only under an additional condition leaves the pair open when its owner goes away: the start command keeps running and the stop command never runs. "+w.String(p))
}

// c20r4FieldCall: a call of the closure held in <recv>.<field>.
func c20r4FieldCall(strct, field string) func(ssa.Instruction) bool {
	return func(i ssa.Instruction) bool {
		cc := callCommon(i)
		if cc == nil || cc.IsInvoke() {
			return false
		}
		u, ok := cc.Value.(*ssa.UnOp)
		if !ok {
			return false
		}
		fa, ok := u.X.(*ssa.FieldAddr)
		return ok && fieldAddrIs(fa, strct, field)
	}
}

// c20r4TeardownStart: the point of path.run after which the teardown runs (after the
// event loop returned), or the entry when the loop is not a separate call.
func c20r4TeardownStart(run *ssa.Function) Point {
	if ri := callsIn(run, "(*core.path).runInner"); len(ri) == 1 {
		if ri[0].Parent() == run {
			return after(ri[0])
		}
	}
	return entry(run)
}
