package main

// Walker.RunG4 - a copy of Walker.Run (ssax.go) with ONE extension, marked
// "G4:" below (engine change request: fold it into Run and delete this file).
//
// Run remembers, along a path, which value an inlined new helper returned, but
// only for helpers with a single result; the caller's `if helper(..)` is then
// the test of that value. Go helpers extracted from a handler typically return
// (value, ok) or (value, error). RunG4 remembers EVERY result of the return
// that was taken (looking through the result slots of functions with defers,
// retVal), and resolves
//   - a condition that is result #i of an inlined helper call (`v, ok := h(); if !ok`),
//   - a comparison of such a result with nil / a constant when the returned
//     value is itself a constant (`v, err := h(); if err != nil` on the path
//     where h returned `x, nil`),
// so the infeasible combinations "h returned false, caller saw true" are not
// walked. Everything else is Run, unchanged.

import (
	"fmt"
	"go/constant"
	"go/token"
	"strings"

	"golang.org/x/tools/go/ssa"
)

// RunG4: see the file comment.
func (w *Walker) RunG4(start Point) *Witness {
	type item struct {
		st     wstate
		parent int
		lit    *Lit
	}
	var items []item
	seen := map[wstate]bool{}
	push := func(b *ssa.BasicBlock, pred, from, parent int, lit *Lit, env string, fr *wframe) {
		st := wstate{b, pred, from, env, fr}
		if seen[st] {
			return
		}
		seen[st] = true
		items = append(items, item{st, parent, lit})
	}
	type frameKey struct {
		call   *ssa.Call
		parent *wframe
	}
	frames := map[frameKey]*wframe{}
	enter := func(call *ssa.Call, parent *wframe) *wframe {
		k := frameKey{call, parent}
		if f := frames[k]; f != nil {
			return f
		}
		d := 1
		if parent != nil {
			d = parent.depth + 1
		}
		f := &wframe{call, parent, d, (parent == nil || parent.tail) && helperIdx[call.Call.StaticCallee()].tail}
		frames[k] = f
		return f
	}
	inFrames := func(fr *wframe, h *ssa.Function) bool {
		for ; fr != nil; fr = fr.parent {
			if fr.call.Call.StaticCallee() == h {
				return true
			}
		}
		return false
	}
	// descriptions inside a frame are made for the frame's call site
	savedBind := descBind
	defer func() { descBind = savedBind }()
	bind := func(fr *wframe) {
		descBind = map[*ssa.Function]*ssa.Call{}
		for k, v := range savedBind {
			descBind[k] = v
		}
		for f := fr; f != nil; f = f.parent {
			if h := f.call.Call.StaticCallee(); descBind[h] == nil || f == fr {
				descBind[h] = f.call
			}
		}
	}
	// results of inlined helper calls, remembered along the path (tag \x03)
	callNo := map[*ssa.Call]int{}
	var vals []ssa.Value
	valNo := map[ssa.Value]int{}
	record := func(env string, call *ssa.Call, idx int, v ssa.Value) string { // G4: per result index
		ci, ok := callNo[call]
		if !ok {
			ci = len(callNo)
			callNo[call] = ci
		}
		vi, ok := valNo[v]
		if !ok {
			vi = len(vals)
			vals = append(vals, v)
			valNo[v] = vi
		}
		pre := fmt.Sprintf("\x03c%d.%d=", ci, idx)
		if i := strings.Index(env, pre); i >= 0 {
			j := strings.Index(env[i:], "\x02")
			env = env[:i] + env[i+j+1:]
		}
		return env + pre + fmt.Sprint(vi) + "\x02"
	}
	lookup := func(env string, call *ssa.Call, idx int) ssa.Value { // G4: per result index
		ci, ok := callNo[call]
		if !ok {
			return nil
		}
		pre := fmt.Sprintf("\x03c%d.%d=", ci, idx)
		i := strings.Index(env, pre)
		if i < 0 {
			return nil
		}
		rest := env[i+len(pre):]
		j := strings.Index(rest, "\x02")
		vi := 0
		fmt.Sscan(rest[:j], &vi)
		if vi < len(vals) {
			return vals[vi]
		}
		return nil
	}
	push(start.B, -1, start.I, -1, nil, "", nil)
	mkWitness := func(idx int, hit ssa.Instruction, extra *Lit) *Witness {
		wt := &Witness{Hit: hit}
		for i := idx; i >= 0; i = items[i].parent {
			wt.Blocks = append([]*ssa.BasicBlock{items[i].st.b}, wt.Blocks...)
			if items[i].lit != nil {
				wt.Lits = append([]Lit{*items[i].lit}, wt.Lits...)
			}
		}
		if extra != nil {
			wt.Lits = append(wt.Lits, *extra)
		}
		return wt
	}
	// edgeEnv applies the contradiction pruning for literal l of condition cond;
	// ok=false when the edge contradicts an earlier test on this path.
	edgeEnv := func(env string, cond ssa.Value, l Lit) (string, bool) {
		if st := w.isStable(l.Atom); st || pureCond(cond, 0) {
			tag := "\x00"
			if st {
				tag = "\x01"
			}
			yes, no := tag+l.Atom+"=T\x02", tag+l.Atom+"=F\x02"
			mine, other := yes, no
			if !l.Pos {
				mine, other = no, yes
			}
			if strings.Contains(env, other) {
				return env, false
			}
			if !strings.Contains(env, mine) {
				env += mine
			}
		}
		return env, true
	}
	// phiEdge resolves a phi defined in block b against the incoming edge
	phiEdge := func(v ssa.Value, b *ssa.BasicBlock, st wstate) ssa.Value {
		if ph, ok := v.(*ssa.Phi); ok && ph.Block() == b && st.pred >= 0 && st.pred < len(ph.Edges) && st.from == 0 {
			return ph.Edges[st.pred]
		}
		return v
	}
	for qi := 0; qi < len(items); qi++ {
		it := items[qi]
		b := it.st.b
		fr := it.st.fr
		bind(fr)
		stopped, clobbered := false, false
		for i := it.st.from; i < len(b.Instrs); i++ {
			ins := b.Instrs[i]
			if _, ok := ins.(*ssa.Phi); ok {
				continue
			}
			ret, isRet := ins.(*ssa.Return)
			// the return of an inlined new helper continues after the call
			if isRet && !(fr != nil && fr.tail) && (fr != nil || isNewHelper(b.Parent())) {
				if fr != nil {
					cont := after(fr.call)
					env := stableOnly(it.st.env)
					// G4: every result of the return taken, through result slots
					for ri := range ret.Results {
						rv := retVal(ret, ri)
						if rv == ret.Results[ri] {
							rv = phiEdge(rv, b, it.st)
						}
						env = record(env, fr.call, ri, rv)
					}
					push(cont.B, -1, cont.I, qi, nil, env, fr.parent)
				} else {
					for _, site := range helperIdx[b.Parent()].sites {
						cont := after(site)
						push(cont.B, -1, cont.I, qi, nil, stableOnly(it.st.env), nil)
					}
				}
				stopped = true
				break
			}
			// a return of the walked function (or of a tail-called helper) with a
			// non-constant boolean result: one visit per outcome
			if isRet && w.Visit != nil {
				if k := boolResultIndex(b.Parent()); k >= 0 && k < len(ret.Results) {
					v := phiEdge(retVal(ret, k), b, it.st)
					if _, isConst := constBool(v); !isConst {
						for _, outcome := range []bool{true, false} {
							l := litOf(v, outcome)
							if w.Edge != nil && !w.Edge(l) {
								continue
							}
							if _, ok := edgeEnv(it.st.env, v, l); !ok {
								continue
							}
							curRet.r, curRet.idx, curRet.outcome = ret, k, outcome
							res := w.Visit(ins)
							curRet.r = nil
							if res == wHit {
								return mkWitness(qi, ins, &l)
							}
						}
						stopped = true
						break
					} else if v != retVal(ret, k) {
						// constant selected by the incoming edge of a phi
						cv, _ := constBool(v)
						curRet.r, curRet.idx, curRet.outcome, curRet.konst = ret, k, cv, true
						res := w.Visit(ins)
						curRet.r, curRet.konst = nil, false
						if res == wHit {
							return mkWitness(qi, ins, nil)
						}
						stopped = true
						break
					}
				}
			}
			if w.Visit != nil {
				switch w.Visit(ins) {
				case wHit:
					return mkWitness(qi, ins, nil)
				case wStop:
					stopped = true
				}
			}
			if stopped || isRet {
				stopped = true
				break
			}
			if h := newHelperCallee(ins); h != nil && (fr == nil || fr.depth < 4) && !inFrames(fr, h) {
				// facts do not cross the frame boundary: the same helper may run twice with different arguments
				env := it.st.env
				if clobbered {
					env = stableOnly(env)
				}
				push(h.Blocks[0], -1, 0, qi, nil, stableOnly(env), enter(ins.(*ssa.Call), fr))
				stopped = true // the walk continues inside the helper
				break
			}
			if clobbers(ins) {
				clobbered = true
			}
		}
		if stopped || len(b.Instrs) == 0 {
			continue
		}
		if clobbered {
			it.st.env = stableOnly(it.st.env)
		}
		predIdx := func(s *ssa.BasicBlock) int {
			for k, p := range s.Preds {
				if p == b {
					return k
				}
			}
			return -1
		}
		last := b.Instrs[len(b.Instrs)-1]
		if ifi, ok := last.(*ssa.If); ok {
			cond := ifi.Cond
			// resolve a phi defined in this block against the incoming edge
			cond = phiEdge(cond, b, it.st)
			if un, ok := cond.(*ssa.UnOp); ok && un.Op == token.NOT {
				if ph, ok := un.X.(*ssa.Phi); ok && ph.Block() == b && it.st.pred >= 0 && it.st.pred < len(ph.Edges) && it.st.from == 0 {
					if c, ok := ph.Edges[it.st.pred].(*ssa.Const); ok && c.Value != nil && c.Value.Kind() == constant.Bool {
						cond = ssa.NewConst(constant.MakeBool(!constant.BoolVal(c.Value)), c.Type())
					}
				}
			}
			// a condition that is the result of an inlined helper call: the value it returned on this path
			flip := false
			var resolvedFor *ssa.Call
			{
				base, neg := cond, false
				for {
					un, ok := base.(*ssa.UnOp)
					if !ok || un.Op != token.NOT {
						break
					}
					base, neg = un.X, !neg
				}
				if cl, ok := base.(*ssa.Call); ok && newHelperCallee(cl) != nil {
					if v := lookup(it.st.env, cl, 0); v != nil {
						cond, flip, resolvedFor = v, neg, cl
					}
				}
				// G4: result #i of an inlined helper call
				if ex, ok := base.(*ssa.Extract); ok {
					if cl, ok := ex.Tuple.(*ssa.Call); ok && newHelperCallee(cl) != nil {
						if v := lookup(it.st.env, cl, ex.Index); v != nil {
							cond, flip, resolvedFor = v, neg, cl
						}
					}
				}
				// G4: comparison of such a result with a constant, when the value
				// returned on this path is a constant too (x, nil / 0, false ...)
				if bo, ok := base.(*ssa.BinOp); ok && (bo.Op == token.EQL || bo.Op == token.NEQ) {
					resolveOp := func(v ssa.Value) ssa.Value {
						switch x := v.(type) {
						case *ssa.Extract:
							if cl, ok := x.Tuple.(*ssa.Call); ok && newHelperCallee(cl) != nil {
								if r := lookup(it.st.env, cl, x.Index); r != nil {
									return r
								}
							}
						case *ssa.Call:
							if newHelperCallee(x) != nil {
								if r := lookup(it.st.env, x, 0); r != nil {
									return r
								}
							}
						}
						return v
					}
					x, y := resolveOp(bo.X), resolveOp(bo.Y)
					cx, okx := x.(*ssa.Const)
					cy, oky := y.(*ssa.Const)
					if okx && oky && (x != bo.X || y != bo.Y) {
						eq, known := false, false
						switch {
						case cx.Value == nil && cy.Value == nil:
							eq, known = true, true // nil == nil (zero values of the same type)
						case cx.Value != nil && cy.Value != nil:
							eq, known = constant.Compare(cx.Value, token.EQL, cy.Value), true
						}
						if known {
							val := eq == (bo.Op == token.EQL)
							cond, flip, resolvedFor = ssa.NewConst(constant.MakeBool(val), bo.Type()), neg, nil
						}
					}
				}
			}
			for k, s := range b.Succs {
				outcome := (k == 0) != flip
				if c, ok := cond.(*ssa.Const); ok && c.Value != nil && c.Value.Kind() == constant.Bool {
					if constant.BoolVal(c.Value) != outcome {
						continue // infeasible
					}
					push(s, predIdx(s), 0, qi, nil, it.st.env, fr)
					continue
				}
				var l Lit
				if resolvedFor != nil {
					h := resolvedFor.Call.StaticCallee()
					prev, had := descBind[h]
					descBind[h] = resolvedFor
					l = litOf(cond, outcome)
					if had {
						descBind[h] = prev
					} else {
						delete(descBind, h)
					}
				} else {
					l = litOf(cond, outcome)
				}
				if w.Edge != nil && !w.Edge(l) {
					continue
				}
				env := it.st.env
				if s.Dominates(b) {
					env = loopReset(env) // loop back edge: values are redefined
				}
				if resolvedFor == nil {
					var ok bool
					if env, ok = edgeEnv(env, cond, l); !ok {
						continue // contradicts an earlier test of the same atom
					}
				}
				push(s, predIdx(s), 0, qi, &l, env, fr)
			}
			continue
		}
		for _, s := range b.Succs {
			env := it.st.env
			if s.Dominates(b) {
				env = loopReset(env)
			}
			push(s, predIdx(s), 0, qi, nil, env, fr)
		}
	}
	return nil
}

// mustPassPredWalkG4 is mustPassPred (helpers_C.go) on RunG4.
func mustPassPredWalkG4(fn *ssa.Function, t target, blocks func(Lit) bool) *Witness {
	w := &Walker{
		Visit: func(i ssa.Instruction) int {
			if t(i) {
				return wHit
			}
			return wContinue
		},
		Edge: func(l Lit) bool { return !blocks(l) },
	}
	return w.RunG4(entry(fn))
}

// checkMustPassPredG4 is checkMustPassPred (helpers_C.go) on RunG4.
func (c *Ctx) checkMustPassPredG4(p *Prog, fn *ssa.Function, rule, key string, t target, blocks func(Lit) bool) bool {
	if countTargets(fn, t) == 0 {
		c.Undecided("UNRESOLVED ANCHOR effect of \"" + key + "\" not found (rule " + rule + ")")
		return false
	}
	if w := mustPassPredWalkG4(fn, t, blocks); w != nil {
		return c.Check(rule, key, false, p.Pos(posOf(w.Hit, fn)), "effect reachable without the required condition: "+w.String(p))
	}
	return c.Check(rule, key, true, p.Pos(fn.Pos()), "")
}
