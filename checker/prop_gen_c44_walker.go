package main

// RunG4 was a copy of Walker.Run extended to remember every result of an
// inlined helper (tuples, result slots); the extension now lives in Walker.Run
// (ssax.go) and RunG4 is kept as a name.

import (
	"golang.org/x/tools/go/ssa"
)

// RunG4: see the file comment.
func (w *Walker) RunG4(start Point) *Witness { return w.Run(start) }

// mustPassPredWalkG4 is mustPassPred (helpers_C.go) on RunG4.
func mustPassPredWalkG4(fn *ssa.Function, t target, blocks func(Lit) bool) *Witness {
	w := &Walker{
		Visit: func(i ssa.Instruction) int {
			if t(i) {
				return wHit
			}
			return wContinue
		},
		Edge: func(l Lit) bool { return !blocks(l) },
	}
	return w.RunG4(entry(fn))
}

// checkMustPassPredG4 is checkMustPassPred (helpers_C.go) on RunG4.
func (c *Ctx) checkMustPassPredG4(p *Prog, fn *ssa.Function, rule, key string, t target, blocks func(Lit) bool) bool {
	if countTargets(fn, t) == 0 {
		c.Undecided("UNRESOLVED ANCHOR effect of \"" + key + "\" not found (rule " + rule + ")")
		return false
	}
	if w := mustPassPredWalkG4(fn, t, blocks); w != nil {
		return c.Check(rule, key, false, p.Pos(posOf(w.Hit, fn)), "effect reachable without the required condition: "+w.String(p))
	}
	return c.Check(rule, key, true, p.Pos(fn.Pos()), "")
}
