package main

import (
	"go/ast"
	"go/token"

	"golang.org/x/tools/go/ssa"
)

// C01 - internal authentication decides exactly per configured users.
// Decides: the shape of the decision procedure on all paths. Does not decide
// regexp / CIDR / hash arithmetic inside stdlib and argon2.

const (
	aIPEmpty   = "(len($2.IPs) == 0)"
	aIPIn      = "(conf.IPNetworks).Contains($2.IPs, $1.IP)"
	aPerm      = "auth.matchesPermission($2.Permissions, $1)"
	aAny       = `($2.User == "any")`
	aCustom    = "dyn:$1.CustomVerifyFunc($2.User, $2.Pass)"
	aCustomNil = "($1.CustomVerifyFunc == nil)"
	aUserOK    = "(conf.Credential).Check($2.User, $1.Credentials.User)"
	aPassOK    = "(conf.Credential).Check($2.Pass, $1.Credentials.Pass)"

	aActEq     = "($1.Action == $0[_].Action)"
	aPathEmpty = `($0[_].Path == "")`
	aPathEq    = "($1.Path == $0[_].Path)"
	aPathTilde = `strings.HasPrefix($0[_].Path, "~")`
	aReOK      = "(regexp.Compile($0[_].Path[1:])#1 == nil)"
	aReMatch   = "(*regexp.Regexp).MatchString(regexp.Compile($0[_].Path[1:])#0, $1.Path)"
)

func init() {
	register(Property{ID: "C01", Level: "other", Run: runC01,
		Technique: "static analysis: must-pass-through path conditions on the SSA control-flow graph (go/ssa), guarded-by lock rule",
		Text:      "Decides, for every path through authenticateWithUser / matchesPermission / Credential.Check / authenticateInternal / Authenticate, that an admitting return carries the IP, permission and credential tests with exactly the stated operands, that a rejecting return follows a failed test, that AskCredentials is the documented conjunction and that InternalUsers is accessed under the manager mutex; and (round 4) that the network a configured IP/CIDR text is turned into (conf.IPNetwork.UnmarshalJSON, module code) pairs the address with the mask of the same text aligned to the same bytes: for an address cut to IPv4 with To4() the mask is the trailing 4 bytes (or all) of the parsed mask for every length ParseCIDR can return, so that IPv4-mapped IPv6 CIDRs keep their prefix length. This is the shape of the decision procedure on all paths (what tests sample); it is not a proof of the iff over values because regexp, CIDR and hash arithmetic are library code.",
		Note:      "trusted: go/types+go/ssa construction; regexp, net, crypto/subtle, argon2 semantics; rules are matched on resolved callees and canonical operand paths"})
	addMutants(
		Mutant{"C01", "drop-ip-test", "internal/auth/manager.go",
			"if len(u.IPs) != 0 && !u.IPs.Contains(req.IP) {\n\t\treturn false\n\t}\n", "", "C01.with_user.ip"},
		Mutant{"C01", "pass-checked-against-user", "internal/auth/manager.go",
			"!u.Pass.Check(req.Credentials.Pass)", "!u.Pass.Check(req.Credentials.User)", "C01.with_user.cred"},
		Mutant{"C01", "action-not-compared", "internal/auth/manager.go",
			"if perm.Action == req.Action {\n\t\t\tif perm.Action", "if perm.Action == req.Action || perm.Path == \"\" {\n\t\t\tif perm.Action", "C01.perm"},
		Mutant{"C01", "ask-ignores-token", "internal/auth/manager.go",
			`req.Credentials.Pass == "" && token == "",`, `req.Credentials.Pass == "",`, "C01.ask_credentials"},
		Mutant{"C01", "empty-user-accepts-any", "internal/conf/credential.go",
			"if d != \"\" {\n\t\treturn subtle", "if d != \"\" && guess != \"\" {\n\t\treturn subtle", "C01.credential"},
		Mutant{"C01", "unlocked-users-read", "internal/auth/manager.go",
			"\tm.mutex.RLock()\n\tdefer m.mutex.RUnlock()\n\n\tfor _, u := range m.InternalUsers", "\tfor _, u := range m.InternalUsers", "C01.guarded_by"},
		Mutant{"C01", "regex-on-wrong-operand", "internal/auth/manager.go",
			"regexp.MatchString(req.Path)", "regexp.MatchString(perm.Path)", "C01.perm"},
		// round 4: the configured network is not the one the text denotes
		Mutant{"C01", "ipv4-mask-leading-bytes", "internal/conf/ip_network.go",
			"ipnet.Mask[len(ipnet.Mask)-4 : len(ipnet.Mask)]", "ipnet.Mask[:net.IPv4len]", "C01.ip_network.mask"},
		Mutant{"C01", "ipv4-mask-cut-assuming-16-bytes", "internal/conf/ip_network.go",
			"ipnet.Mask[len(ipnet.Mask)-4 : len(ipnet.Mask)]", "ipnet.Mask[12:]", "C01.ip_network.mask"},
		Mutant{"C01", "ipv6-address-with-ipv4-mask", "internal/conf/ip_network.go",
			"IP: ip, Mask: net.CIDRMask(128, 128)", "IP: ip, Mask: net.CIDRMask(32, 32)", "C01.ip_network.mask"},
		Mutant{"C01", "cidr-prefix-dropped-for-ipv4", "internal/conf/ip_network.go",
			"Mask: ipnet.Mask[len(ipnet.Mask)-4 : len(ipnet.Mask)]", "Mask: net.CIDRMask(32, 32)", "C01.ip_network.mask"},
		Mutant{"C01", "network-contains-compares-addresses-only", "internal/conf/ip_network.go",
			"	return ipnet.Contains(ip)", "	return ipnet.IP.Equal(ip)", "C01.ip_network.contains"},
	)
}

func runC01(c *Ctx) {
	p := c.Main()
	if p == nil {
		return
	}
	c.Explain = "E1 must-pass-through rules over the SSA CFG of auth.(*Manager).authenticateWithUser, auth.matchesPermission, " +
		"conf.Credential.Check, auth.(*Manager).{Authenticate,authenticateInternal}: every path to an admitting return carries the IP, " +
		"permission and credential literals with exactly the stated operands; every rejecting return carries a failed test; " +
		"AskCredentials is the four-way conjunction; InternalUsers is accessed under Manager.mutex. " +
		"Not decided: regexp/CIDR/hash arithmetic in stdlib/argon2 (trusted)."
	c.Assume = []string{"regexp, net.IPNet.Contains, crypto/subtle, argon2 behave as documented"}

	defer dumpObls(c)
	c.Explain += " Round 4 (prop_r4_c01.go, C01.ip_network.*): abstract evaluation of every (IP, Mask) pair conf.IPNetwork.UnmarshalJSON stores, for both mask lengths net.ParseCIDR returns (4; 16 for IPv6 and IPv4-mapped IPv6 text): the mask is the parsed network's own, whole or - for an address normalised with To4() - its TRAILING 4 bytes; a bare address gets CIDRMask(32,32) only when known IPv4, else CIDRMask(128,128); the text parsed is the decoded JSON string; IPNetwork.Contains is net.IPNet.Contains of that pair."
	// --- the networks of a user entry are what the configuration text denotes
	c.c01IPNetworkR4(p)

	// --- authenticateWithUser
	wu := c.fn(p, "internal/auth", "Manager", "authenticateWithUser")
	if wu != nil {
		adm := retBool(0, true)
		c.MustPass(p, wu, "C01.with_user.ip", "return true", adm, T(aIPEmpty), T(aIPIn))
		c.MustPass(p, wu, "C01.with_user.perm", "return true", adm, T(aPerm))
		c.MustPass(p, wu, "C01.with_user.cred", "return true", adm, T(aAny), T(aCustom), T(aUserOK))
		c.MustPass(p, wu, "C01.with_user.cred", "return true", adm, T(aAny), T(aCustom), T(aPassOK))
		// the custom verifier replaces the check only when it is set
		c.MustPass(p, wu, "C01.with_user.cred", "return true", adm, T(aAny), F(aCustomNil), T(aPassOK))
		// only-if direction: a rejecting return follows a failed test
		c.MustPass(p, wu, "C01.with_user.reject_only_on_failed_test", "return false", retBool(0, false),
			F(aIPIn), F(aPerm), F(aCustom), F(aUserOK), F(aPassOK))
		// (returns whose result is computed - `return u.Pass.Check(..)` - are walked once per
		// outcome under the corresponding literal by the engine: no constant-only restriction)
	}

	// --- matchesPermission
	mp := c.fn(p, "internal/auth", "", "matchesPermission")
	if mp != nil {
		adm := retBool(0, true)
		c.MustPass(p, mp, "C01.perm.action", "return true", adm, T(aActEq))
		pathAlts := []LitPat{T(aPathEmpty), T(aReMatch), T(aPathEq)}
		for _, act := range []string{"publish", "read", "playback"} {
			alts := append([]LitPat{F(`($0[_].Action == "` + act + `")`)}, pathAlts...)
			c.MustPass(p, mp, "C01.perm.path", "return true", adm, alts...)
		}
		// the regexp alternative is taken only for '~' paths that compile
		c.MustPass(p, mp, "C01.perm.regex", "return true via MatchString", func(i ssa.Instruction) bool {
			return adm(i) && blockHasPredLit(i.Block(), aReMatch)
		}, T(aPathTilde))
		c.MustPass(p, mp, "C01.perm.regex", "return true via MatchString", func(i ssa.Instruction) bool {
			return adm(i) && blockHasPredLit(i.Block(), aReMatch)
		}, T(aReOK))
	}

	// --- Credential.Check: the four modes
	ck := c.fn(p, "internal/conf", "Credential", "Check")
	if ck != nil {
		accepted := map[string]string{
			"(crypto/subtle.ConstantTimeCompare($0[7:], conf.sha256Base64($1)) == 1)":               "sha256",
			"phi((github.com/matthewhartstonge/argon2.VerifyEncoded($1, $0[7:])#1 == nil) | false)": "argon2",
			"(crypto/subtle.ConstantTimeCompare($0, $1) == 1)":                                      "plain",
			"true": "empty credential",
		}
		seen := map[string]bool{}
		for _, d := range retDescs(ck, 0) {
			_, ok := accepted[d]
			seen[d] = true
			c.Check("C01.credential.mode", fnName(ck)+": return "+d, ok, p.Pos(ck.Pos()), "return expression is one of the four documented comparison modes")
		}
		for d, mode := range accepted {
			c.Check("C01.credential.mode_present", fnName(ck)+": mode "+mode, seen[d], p.Pos(ck.Pos()), "expected return expression: "+d)
		}
		c.MustPass(p, ck, "C01.credential.empty_accepts_any", "return true", retConstBool(0, true), T(`($0 == "")`))
		c.MustPass(p, ck, "C01.credential.empty_accepts_any", "return true", retConstBool(0, true), F("(conf.Credential).IsSha256($0)"))
		c.MustPass(p, ck, "C01.credential.empty_accepts_any", "return true", retConstBool(0, true), F("(conf.Credential).IsArgon2($0)"))
		retWith := func(sub string) target {
			return func(i ssa.Instruction) bool {
				r, ok := i.(*ssa.Return)
				return ok && retVal(r, 0) != nil && containsStr(desc(retVal(r, 0)), sub)
			}
		}
		c.MustPass(p, ck, "C01.credential.mode_guard", "sha256 comparison", retWith("sha256Base64"), T("(conf.Credential).IsSha256($0)"))
		c.MustPass(p, ck, "C01.credential.mode_guard", "argon2 comparison", retWith("argon2.VerifyEncoded"), T("(conf.Credential).IsArgon2($0)"))
		c.MustPass(p, ck, "C01.credential.mode_guard", "plain comparison", retWith("ConstantTimeCompare($0, $1)"), F(`($0 == "")`))
	}

	// --- authenticateInternal: success reports the supplied user, under a user entry that admitted
	ai := c.fn(p, "internal/auth", "Manager", "authenticateInternal")
	if ai != nil {
		c.MustPass(p, ai, "C01.internal.admit", "return nil error", retNil(1),
			T("(*auth.Manager).authenticateWithUser($0, $1, $0.InternalUsers[_])"))
		for _, r := range returnsOf(ai) {
			if r.Block().Comment == "recover" || !retNil(1)(r) {
				continue
			}
			d := desc(retVal(r, 0))
			c.Check("C01.internal.reports_supplied_user", fnName(ai)+": success returns "+d, d == "$1.Credentials.User", p.Pos(posOf(r, ai)), "")
		}
		c.MustPass(p, ai, "C01.internal.reject", "return error", retNotNil(1), F("*< len($0.InternalUsers))"))
	}

	// --- Authenticate: dispatch and AskCredentials
	au := c.fn(p, "internal/auth", "Manager", "Authenticate")
	if au != nil {
		c.MustPass(p, au, "C01.authenticate.dispatch", "call authenticateInternal", callTo("(*auth.Manager).authenticateInternal"), T(`($0.Method == "internal")`))
		c.MustPass(p, au, "C01.authenticate.success", "return nil error", retNil(1), T("*(*auth.Manager).authenticateInternal($0, $1)#1*"))
	}
	fd, pk := p.FuncDecl("internal/auth", "Manager", "Authenticate")
	if fd == nil {
		c.Undecided("UNRESOLVED ANCHOR syntax of Manager.Authenticate")
	} else {
		lits := compositeLits(pk, fd, "internal/auth", "Error")
		c.Floor("C01.ask_credentials", len(lits), 1)
		for _, cl := range lits {
			got := exprSet(flattenBin(kv(cl, "AskCredentials"), token.LAND))
			want := sortedCopy([]string{"req.EnableAskCredentials", `req.Credentials.User == ""`, `req.Credentials.Pass == ""`, `token == ""`})
			c.Check("C01.ask_credentials", "auth.Error literal in Manager.Authenticate: AskCredentials conjuncts", sameStrings(got, want),
				p.Pos(cl.Pos()), "got "+joinS(got)+" want "+joinS(want))
		}
		// `req` must be the request parameter and `token` the getToken local
		c.Check("C01.ask_credentials", "Manager.Authenticate: req is the parameter", paramNamed(fd, "req"), p.Pos(fd.Pos()), "")
	}

	// --- E9c guarded-by: Manager.InternalUsers under Manager.mutex
	n := 0
	for _, fn := range p.ModFuncs() {
		var acc []ssa.Instruction
		eachInstr(fn, func(i ssa.Instruction) {
			fa, ok := i.(*ssa.FieldAddr)
			if !ok || !fieldAddrIs(fa, "auth.Manager", "InternalUsers") {
				return
			}
			if _, fresh := fa.X.(*ssa.Alloc); fresh {
				return // object under construction, not yet shared
			}
			acc = append(acc, i)
		})
		if len(acc) == 0 {
			continue
		}
		c.Analysed(fnName(fn))
		for _, a := range acc {
			n++
			write := false
			for _, r := range *a.(*ssa.FieldAddr).Referrers() {
				if st, ok := r.(*ssa.Store); ok && st.Addr == a.(ssa.Value) {
					write = true
				}
			}
			locks := []string{"(*sync.RWMutex).Lock"}
			if !write {
				locks = append(locks, "(*sync.RWMutex).RLock")
			}
			aa := a
			c.MustPrecede(p, fn, "C01.guarded_by", map[bool]string{true: "write", false: "read"}[write]+" of Manager.InternalUsers",
				"Manager.mutex lock", func(i ssa.Instruction) bool { return i == aa }, func(i ssa.Instruction) bool {
					if !isCallTo(i, locks...) {
						return false
					}
					cc := callCommon(i)
					return len(cc.Args) > 0 && containsStr(desc(cc.Args[0]), ".mutex")
				})
		}
	}
	c.Floor("C01.guarded_by", n, 2)
}

// blockHasPredLit: the block is entered through the true edge of a
// condition with the given atom.
func blockHasPredLit(b *ssa.BasicBlock, atom string) bool {
	for _, pr := range b.Preds {
		if len(pr.Instrs) == 0 {
			continue
		}
		if ifi, ok := pr.Instrs[len(pr.Instrs)-1].(*ssa.If); ok && pr.Succs[0] == b {
			if l := litOf(ifi.Cond, true); l.Pos && l.Atom == atom {
				return true
			}
		}
	}
	return false
}

func containsStr(s, sub string) bool {
	return len(sub) == 0 || (len(s) >= len(sub) && indexOf(s, sub) >= 0)
}

func indexOf(s, sub string) int {
	for i := 0; i+len(sub) <= len(s); i++ {
		if s[i:i+len(sub)] == sub {
			return i
		}
	}
	return -1
}

func joinS(a []string) string {
	s := "["
	for i, x := range a {
		if i > 0 {
			s += "; "
		}
		s += x
	}
	return s + "]"
}

func paramNamed(fd *ast.FuncDecl, name string) bool {
	for _, f := range fd.Type.Params.List {
		for _, n := range f.Names {
			if n.Name == name {
				return true
			}
		}
	}
	return false
}
