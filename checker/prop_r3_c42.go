package main

import (
	"go/types"
	"sort"
	"strings"

	"golang.org/x/tools/go/ssa"
)

// C42.delivered - the string a static source / forward destination actually
// connects to is the resolver's result FOR THE CURRENT OPERANDS.
//
// resolveSource / resolveDest being correct is not enough: the property speaks
// about the client query (of the request that triggered this start), the path
// name and its groups. The value stored into the sink field
// (defs.StaticSourceRunParams.ResolvedSource, <forward/x>.Dest.Dest) must
// therefore originate, on every path, from
//   (a) a call of the resolver (whose arguments C42.provenance binds to the
//       handler's own template / groups / query), evaluated for this run, or
//   (b) a struct field used as a cache of such a call - then the cache must be
//       coherent: every store to it is a resolver result or the empty string,
//       and every store (outside construction) to a field of the same struct
//       that the resolver call reads (Conf, Matches, query, PathName) is followed,
//       before the storing function returns, by a reset/refresh of the cache.
// Anything else (a value resolved for an earlier start, a raw template, ...) is
// a violation: the placeholder would be replaced by a value that is not the
// current one.

type c42Sink struct {
	what     string
	resolver *ssa.Function
	stores   []*ssa.Store
}

// c42VarStores: the values assigned to the local variable behind an Alloc,
// including assignments made inside nested closures that capture it.
func c42VarStores(a *ssa.Alloc) []ssa.Value {
	var out []ssa.Value
	for _, r := range *a.Referrers() {
		if st, ok := r.(*ssa.Store); ok && st.Addr == ssa.Value(a) {
			out = append(out, st.Val)
		}
	}
	var inClosures func(fn *ssa.Function)
	inClosures = func(fn *ssa.Function) {
		for _, an := range fn.AnonFuncs {
			for _, fv := range an.FreeVars {
				if rootBinding(fv) != ssa.Value(a) {
					continue
				}
				for _, r := range *fv.Referrers() {
					if st, ok := r.(*ssa.Store); ok && st.Addr == ssa.Value(fv) {
						out = append(out, st.Val)
					}
				}
			}
			inClosures(an)
		}
	}
	if a.Parent() != nil {
		inClosures(a.Parent())
	}
	return out
}

// c42Origins returns the leaves a string value is made of, looking through
// local variables (also captured ones), phis and representation-only conversions.
func c42Origins(v ssa.Value) []ssa.Value {
	var out []ssa.Value
	seen := map[ssa.Value]bool{}
	var walk func(v ssa.Value, d int)
	walk = func(v ssa.Value, d int) {
		if v == nil || seen[v] || d > 12 {
			if d > 12 {
				out = append(out, v)
			}
			return
		}
		seen[v] = true
		switch x := v.(type) {
		case *ssa.Phi:
			for _, e := range x.Edges {
				walk(e, d+1)
			}
		case *ssa.ChangeType:
			walk(x.X, d+1)
		case *ssa.UnOp:
			addr := x.X
			if fv, ok := addr.(*ssa.FreeVar); ok {
				addr = rootBinding(fv)
			}
			if a, ok := addr.(*ssa.Alloc); ok {
				vals := c42VarStores(a)
				if len(vals) == 0 {
					out = append(out, v)
				}
				for _, s := range vals {
					walk(s, d+1)
				}
				return
			}
			out = append(out, v)
		case *ssa.FreeVar: // captured by value
			if b := rootBinding(x); b != ssa.Value(x) {
				walk(b, d+1)
				return
			}
			out = append(out, v)
		case *ssa.Call:
			// the result of a new helper (`func (h *DestHandler) resolvedDest() string`)
			// originates from what the helper returns
			if h := newHelperCallee(x); h != nil && h.Signature.Results().Len() == 1 {
				if rs := helperReturnsG4(h); len(rs) > 0 {
					for _, r := range rs {
						walk(retVal(r, 0), d+1)
					}
					return
				}
			}
			out = append(out, v)
		case *ssa.Extract:
			if cl, ok := x.Tuple.(*ssa.Call); ok {
				if h := newHelperCallee(cl); h != nil {
					if rs := helperReturnsG4(h); len(rs) > 0 {
						for _, r := range rs {
							walk(retVal(r, x.Index), d+1)
						}
						return
					}
				}
			}
			out = append(out, v)
		case *ssa.Parameter:
			// a parameter of a new helper originates from the arguments of its call sites
			if info := helperIdx[x.Parent()]; info != nil && len(info.sites) > 0 {
				if k := paramIndex(x); k >= 0 {
					for _, site := range info.sites {
						if k < len(site.Call.Args) {
							walk(site.Call.Args[k], d+1)
						}
					}
					return
				}
			}
			out = append(out, v)
		default:
			out = append(out, v)
		}
	}
	walk(v, 0)
	return out
}

// c42FieldOf: v is a load of a struct field; returns "pkg.Struct", field name.
func c42FieldOf(v ssa.Value) (string, string, bool) {
	u, ok := v.(*ssa.UnOp)
	if !ok {
		return "", "", false
	}
	fa, ok := u.X.(*ssa.FieldAddr)
	if !ok {
		return "", "", false
	}
	pt, ok := fa.X.Type().Underlying().(*types.Pointer)
	if !ok {
		return "", "", false
	}
	st, ok := pt.Elem().Underlying().(*types.Struct)
	if !ok {
		return "", "", false
	}
	return typeStr(pt.Elem()), st.Field(fa.Field).Name(), true
}

// c42OperandFields: the fields of struct strct that a resolver call reads
// (first selector of each argument path rooted at a value of that struct type).
func c42OperandFields(call *ssa.Call, strct string) map[string]bool {
	out := map[string]bool{}
	var walk func(v ssa.Value, d int)
	walk = func(v ssa.Value, d int) {
		if v == nil || d > 8 {
			return
		}
		switch x := v.(type) {
		case *ssa.UnOp:
			walk(x.X, d+1)
		case *ssa.FieldAddr:
			if pt, ok := x.X.Type().Underlying().(*types.Pointer); ok && typeStr(pt.Elem()) == strct {
				out[pt.Elem().Underlying().(*types.Struct).Field(x.Field).Name()] = true
				return
			}
			walk(x.X, d+1)
		case *ssa.Field:
			walk(x.X, d+1)
		case *ssa.ChangeType:
			walk(x.X, d+1)
		}
	}
	for _, a := range call.Call.Args {
		walk(a, 0)
	}
	return out
}

func c42Delivered(c *Ctx, p *Prog, src, dst *ssa.Function) {
	ix := p.index()
	var sinks []c42Sink
	if src != nil {
		sinks = append(sinks, c42Sink{"defs.StaticSourceRunParams.ResolvedSource", src, ix.fieldStores["defs.StaticSourceRunParams.ResolvedSource"]})
	}
	if dst != nil {
		var keys []string
		for k := range ix.fieldStores {
			// the Dest structs of the forwarder sub-packages (forward/rtmp.Dest.Dest, ...)
			if strings.HasPrefix(k, "forward/") && strings.HasSuffix(k, ".Dest.Dest") {
				keys = append(keys, k)
			}
		}
		sort.Strings(keys)
		c.Floor("C42.delivered.dest_kinds", len(keys), 4)
		for _, k := range keys {
			sinks = append(sinks, c42Sink{k, dst, ix.fieldStores[k]})
		}
	}
	isResolverCall := func(v ssa.Value, r *ssa.Function) (*ssa.Call, bool) {
		cl, ok := v.(*ssa.Call)
		if !ok || cl.Call.StaticCallee() != r {
			return nil, false
		}
		return cl, true
	}
	checkedCache := map[string]bool{}
	for _, sk := range sinks {
		if len(sk.stores) == 0 {
			c.Check("C42.delivered", sk.what+" is assigned somewhere", false, "-", "the resolved string never reaches the connector")
			continue
		}
		for _, st := range sk.stores {
			fn := st.Parent()
			key := sk.what + " set in " + fnName(fn)
			good := true
			var why []string
			for _, o := range c42Origins(st.Val) {
				if _, ok := isResolverCall(o, sk.resolver); ok {
					continue
				}
				strct, field, isField := c42FieldOf(o)
				if !isField {
					good = false
					why = append(why, "originates from "+desc(o))
					continue
				}
				// (b) a cache field
				ck := strct + "." + field
				filled := false
				for _, fs := range ix.fieldStores[ck] {
					for _, fo := range c42Origins(fs.Val) {
						if _, ok := isResolverCall(fo, sk.resolver); ok {
							filled = true
						}
					}
				}
				if !filled {
					good = false
					why = append(why, "originates from "+desc(o)+" (field "+ck+"), which never holds a resolver result")
					continue
				}
				why = append(why, "read from the cache field "+ck)
				if checkedCache[ck] {
					continue
				}
				checkedCache[ck] = true
				c42CacheCoherent(c, p, ix, sk, strct, field)
			}
			c.Check("C42.delivered", key+": the value is the result of "+fnName(sk.resolver)+" evaluated for this run (or a coherent cache of it)", good, p.Pos(posOf(st, fn)), strings.Join(why, "; "))
		}
	}
}

// c42CacheCoherent: rule (b) above for the cache field strct.field.
func c42CacheCoherent(c *Ctx, p *Prog, ix *modIndex, sk c42Sink, strct, field string) {
	ck := strct + "." + field
	operands := map[string]bool{}
	isFill := func(v ssa.Value) bool {
		ok := true
		for _, o := range c42Origins(v) {
			if s, isC := constStringB(o); isC && s == "" {
				continue
			}
			if cl, isCall := o.(*ssa.Call); isCall && cl.Call.StaticCallee() == sk.resolver {
				for f := range c42OperandFields(cl, strct) {
					operands[f] = true
				}
				continue
			}
			ok = false
		}
		return ok
	}
	for _, st := range ix.fieldStores[ck] {
		c.Check("C42.delivered.cache", "store to the cache "+ck+" in "+fnName(st.Parent())+" is a resolver result or the empty string", isFill(st.Val), p.Pos(posOf(st, st.Parent())), desc(st.Val))
	}
	var ops []string
	for f := range operands {
		ops = append(ops, f)
	}
	sort.Strings(ops)
	if len(ops) == 0 {
		c.Check("C42.delivered.cache", ck+": the cache is filled by a resolver call on fields of "+strct, false, "-", "no fill found")
		return
	}
	isReset := func(i ssa.Instruction) bool {
		s, ok := i.(*ssa.Store)
		if !ok {
			return false
		}
		fa, ok := s.Addr.(*ssa.FieldAddr)
		return ok && fieldAddrIs(fa, strct, field)
	}
	for _, f := range ops {
		for _, st := range ix.fieldStores[strct+"."+f] {
			if fa, ok := st.Addr.(*ssa.FieldAddr); ok {
				if _, fresh := fa.X.(*ssa.Alloc); fresh {
					continue // object under construction
				}
			}
			fn := st.Parent()
			sst := st
			w := walkTo(after(st), anyReturn, isReset, nil)
			if w != nil && reachAvoiding(entry(fn), func(i ssa.Instruction) bool { return i == ssa.Instruction(sst) }, isReset) == nil {
				w = nil // reset on every path before the store, in the same activation
			}
			c.Check("C42.delivered.cache", fnName(fn)+": the store to "+strct+"."+f+" (an operand of the cached resolution) is followed by a reset/refresh of "+ck+" before returning", w == nil, p.Pos(posOf(st, fn)),
				"otherwise the next run connects to a string resolved for the previous "+f+"; "+w.String(p))
		}
	}
}
