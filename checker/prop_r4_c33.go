package main

import (
	"sort"

	"golang.org/x/tools/go/ssa"
)

// C33.atomic - one push is one critical section.
//
// The property speaks about "any sequence of received subgroups": pushes made
// by several goroutines (one per incoming stream) form a sequence only because
// Reorderer.Push holds r.mu from its first look at the state to its last
// change of it. The per-access lock rule (C33.guarded_by) does not see a lock
// that is released and taken again in the middle: every access is still made
// under the lock, but the decision taken before the gap (this id is newer than
// cur, the limits are exceeded, flush up to this id) is acted upon after
// another push may have changed the state - flushUpTo then moves curGroupID
// backwards, delivers an older group after a newer one and a retransmitted
// group twice.
//
// Rule, for Push and every module function in its static call extent: after an
// instruction that RELEASES Reorderer.mu - a plain (*sync.Mutex).Unlock on the
// field, or a static call of a function that releases it (directly, deferred,
// or through its own callees) - no instruction that TOUCHES the reorderer's
// state (an address of pending / pendingBytes / curGroupID / initialized is
// taken, or a function that does so is called) is reachable in the function's
// CFG. A release followed only by the return (explicit unlock before each
// return instead of a defer, or a branch that logs without the lock and
// returns without looking at the state again) satisfies the rule; a deferred
// Unlock in the function itself runs at its exit and is not a release "in the
// middle". The release may sit in a helper of any depth; the helper is not
// inlined by name but summarised (releases / touches) over the static call
// graph, so the rule does not depend on how the code is split into functions.
//
// Not covered: a protocol that re-validates every decision after re-locking
// would be reported (none exists; it would have to be reviewed by hand), calls
// through function values / interfaces are not followed (Parent.Log cannot
// reach the unexported state).

var c33StateFields = []string{"pending", "pendingBytes", "curGroupID", "initialized"}

type c33Atomic struct {
	releases map[*ssa.Function]bool
	touches  map[*ssa.Function]bool
}

func c33IsMuOp(i ssa.Instruction, names ...string) bool {
	cc := callCommon(i)
	if cc == nil || cc.IsInvoke() || len(cc.Args) == 0 {
		return false
	}
	fa, ok := cc.Args[0].(*ssa.FieldAddr)
	if !ok || !fieldAddrIs(fa, c33Reord, "mu") {
		return false
	}
	n := calleeName(cc)
	for _, w := range names {
		if n == w {
			return true
		}
	}
	return false
}

func c33TouchesDirect(i ssa.Instruction) bool {
	fa, ok := i.(*ssa.FieldAddr)
	if !ok {
		return false
	}
	for _, f := range c33StateFields {
		if fieldAddrIs(fa, c33Reord, f) {
			return true
		}
	}
	return false
}

func c33StaticCallee(i ssa.Instruction) *ssa.Function {
	cc := callCommon(i)
	if cc == nil {
		return nil
	}
	f := cc.StaticCallee()
	if f == nil || !inModule(f) || len(f.Blocks) == 0 {
		return nil
	}
	return f
}

// summarise computes, to a fixpoint over the static call graph below root,
// which functions release the mutex / touch the state.
func (a *c33Atomic) summarise(root *ssa.Function) []*ssa.Function {
	var order []*ssa.Function
	seen := map[*ssa.Function]bool{}
	var visit func(f *ssa.Function)
	visit = func(f *ssa.Function) {
		if seen[f] {
			return
		}
		seen[f] = true
		order = append(order, f)
		for _, b := range f.Blocks {
			for _, i := range b.Instrs {
				if _, isGo := i.(*ssa.Go); isGo {
					continue // another goroutine: not part of this push
				}
				if g := c33StaticCallee(i); g != nil {
					visit(g)
				}
				// immediately applied / deferred function literals
				if mc, ok := i.(*ssa.MakeClosure); ok {
					if g, ok := mc.Fn.(*ssa.Function); ok && len(g.Blocks) > 0 {
						visit(g)
					}
				}
			}
		}
	}
	visit(root)
	for changed := true; changed; {
		changed = false
		for _, f := range order {
			rel, tch := a.releases[f], a.touches[f]
			for _, b := range f.Blocks {
				for _, i := range b.Instrs {
					if _, isGo := i.(*ssa.Go); isGo {
						continue
					}
					// a deferred Unlock of a callee runs when the callee returns: in the middle of the push
					if c33IsMuOp(i, "(*sync.Mutex).Unlock", "(*sync.RWMutex).Unlock") {
						rel = true
					}
					if c33TouchesDirect(i) {
						tch = true
					}
					if g := c33StaticCallee(i); g != nil {
						rel = rel || a.releases[g]
						tch = tch || a.touches[g]
					}
				}
			}
			if rel != a.releases[f] || tch != a.touches[f] {
				a.releases[f], a.touches[f] = rel, tch
				changed = true
			}
		}
	}
	return order
}

// releaseEvent: executing i (to completion) may leave r.mu released at some
// point. The function's own deferred Unlock is not an event.
func (a *c33Atomic) releaseEvent(i ssa.Instruction) bool {
	switch i.(type) {
	case *ssa.Call:
		if c33IsMuOp(i, "(*sync.Mutex).Unlock", "(*sync.RWMutex).Unlock") {
			return true
		}
		if g := c33StaticCallee(i); g != nil {
			return a.releases[g]
		}
	}
	return false
}

func (a *c33Atomic) touchEvent(i ssa.Instruction) bool {
	if c33TouchesDirect(i) {
		return true
	}
	if _, ok := i.(*ssa.Call); ok {
		if g := c33StaticCallee(i); g != nil {
			return a.touches[g]
		}
	}
	return false
}

// firstTouchAfter returns a state-touching instruction reachable after i in
// the CFG of i's function, or nil.
func (a *c33Atomic) firstTouchAfter(i ssa.Instruction) ssa.Instruction {
	b := i.Block()
	idx := instrIndex(i)
	for k := idx + 1; k < len(b.Instrs); k++ {
		if a.touchEvent(b.Instrs[k]) {
			return b.Instrs[k]
		}
	}
	seen := map[*ssa.BasicBlock]bool{}
	work := append([]*ssa.BasicBlock{}, b.Succs...)
	for len(work) > 0 {
		x := work[len(work)-1]
		work = work[:len(work)-1]
		if seen[x] {
			continue
		}
		seen[x] = true
		for _, j := range x.Instrs {
			if x == b && j == i {
				break // back at the release through a loop: instructions before it
			}
			if a.touchEvent(j) {
				return j
			}
		}
		work = append(work, x.Succs...)
	}
	return nil
}

func c33AtomicRule(c *Ctx, p *Prog, push *ssa.Function) {
	a := &c33Atomic{releases: map[*ssa.Function]bool{}, touches: map[*ssa.Function]bool{}}
	extent := a.summarise(push)
	sort.SliceStable(extent, func(i, j int) bool { return fnName(extent[i]) < fnName(extent[j]) })
	n := 0
	for _, f := range extent {
		if !a.touches[f] && !a.releases[f] {
			continue
		}
		n++
		var bad, touch ssa.Instruction
		for _, b := range f.Blocks {
			for _, i := range b.Instrs {
				if bad == nil && a.releaseEvent(i) {
					if t := a.firstTouchAfter(i); t != nil {
						bad, touch = i, t
					}
				}
			}
		}
		pos, detail := p.Pos(f.Pos()), ""
		if bad != nil {
			pos = p.Pos(posOf(bad, f))
			what := "(*sync.Mutex).Unlock"
			if g := c33StaticCallee(bad); g != nil {
				what = "call of " + fnName(g) + ", which releases Reorderer.mu"
			}
			detail = what + " is followed at " + p.Pos(posOf(touch, f)) + " by an access to the reorderer state (" + touch.String() + "): the decision taken before the lock was released (id newer than cur / limit exceeded / flush up to this id) is applied to a state that a concurrent Push may have changed - curGroupID can move backwards, groups are handed on out of order or twice"
		}
		c.Check("C33.atomic", fnName(f)+": no reorderer state is accessed after Reorderer.mu has been released inside the push", bad == nil, pos, detail)
	}
	c.Floor("C33.atomic", n, 2)
}
