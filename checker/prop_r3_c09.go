package main

// C09 (round 3) - a list of structs given through MTX_<LIST>_<n>_<FIELD>
// variables is the list a YAML file would give: item n at position n.
//
// env.loadEnvInternal builds such a list with reflect.Append, which places an
// item at position Len(list). "Position == n" therefore holds only if the items
// are visited by a counter that starts at 0 and advances by one, the key of the
// visited item is the decimal rendering of that very counter, existing positions
// (preloaded from the file) are overwritten in place at Index(counter), an item
// is appended only when the counter is not an existing position, and the visit
// does not stop while the environment still has keys for the current counter.
//
//	list_index.counter      the position I used for Index()/Len() comparisons is phi(0, I+1)
//	list_index.key          the prefix handed to the recursive load of the item is
//	                        prefix + "_" + decimal(I) for the same I
//	list_index.in_place     every Index() on the destination list uses I
//	list_index.append_only_new  reflect.Append is reached only past !(I < Len(list)) (or on a list that does not exist yet)
//	list_index.exhaustive   the loop is left with a nil error only past !envHasAtLeastAKeyWithPrefix(env, key(I))
//
// Seeded change C09_r3 collected the indexes that occur in the keys as STRINGS,
// sorted them lexicographically (0,1,10,11,2,…) and appended in that order.

import (
	"fmt"
	"go/token"
	"strings"

	"golang.org/x/tools/go/ssa"
)

// concatLeavesR3c09 flattens a string concatenation into its operands.
func concatLeavesR3c09(v ssa.Value, out *[]ssa.Value) {
	if bo, ok := v.(*ssa.BinOp); ok && bo.Op == token.ADD {
		concatLeavesR3c09(bo.X, out)
		concatLeavesR3c09(bo.Y, out)
		return
	}
	*out = append(*out, v)
}

// decimalOfR3c09: v is the base-10 rendering of an integer value; returns it.
func decimalOfR3c09(v ssa.Value) (ssa.Value, bool) {
	cl, ok := v.(*ssa.Call)
	if !ok {
		return nil, false
	}
	switch calleeName(&cl.Call) {
	case "strconv.Itoa":
		return stripConv(cl.Call.Args[0]), true
	case "strconv.FormatInt", "strconv.FormatUint":
		if n, ok := constIntB(cl.Call.Args[1]); ok && n == 10 {
			return stripConv(cl.Call.Args[0]), true
		}
	}
	return nil, false
}

// itemKeyR3c09: k == $1 + "_" + decimal(I) (any association, or
// fmt.Sprintf("%s_%d", $1, I)); returns I.
func itemKeyR3c09(k ssa.Value) (ssa.Value, bool) {
	if cl, ok := k.(*ssa.Call); ok && calleeName(&cl.Call) == "fmt.Sprintf" && len(cl.Call.Args) == 2 {
		if f, ok := constStringB(cl.Call.Args[0]); ok && f == "%s_%d" {
			el := variadicElems(cl.Call.Args[1])
			if len(el) == 2 && el[0] != nil && el[1] != nil && desc(el[0]) == "$1" {
				return stripConv(el[1]), true
			}
		}
		return nil, false
	}
	var leaves []ssa.Value
	concatLeavesR3c09(k, &leaves)
	// merge adjacent constants
	var parts []string
	var idx ssa.Value
	for _, l := range leaves {
		if s, ok := constStringB(l); ok {
			if n := len(parts); n > 0 && strings.HasPrefix(parts[n-1], "const:") {
				parts[n-1] += s
			} else {
				parts = append(parts, "const:"+s)
			}
			continue
		}
		if i, ok := decimalOfR3c09(l); ok {
			idx = i
			parts = append(parts, "dec")
			continue
		}
		parts = append(parts, desc(l))
	}
	if len(parts) == 3 && parts[0] == "$1" && parts[1] == "const:_" && parts[2] == "dec" {
		return idx, true
	}
	return nil, false
}

func c09ListIndex(c *Ctx, p *Prog) {
	fn := c.fn(p, "internal/conf/env", "", "loadEnvInternal")
	if fn == nil {
		return
	}
	key := fnName(fn) + " (list of structs): "
	apps := callsIn(fn, "reflect.Append")
	c.Floor("C09.list_index", len(apps), 1)
	for n, ai := range apps {
		a, ok := ai.(*ssa.Call)
		if !ok || len(a.Call.Args) != 2 {
			continue
		}
		k := key
		if n > 0 {
			k = fmt.Sprintf("%s[append %d] ", key, n+1)
		}
		dest := desc(a.Call.Args[0])
		items := variadicElems(a.Call.Args[1])
		if len(items) != 1 || items[0] == nil {
			c.Check("C09.list_index.key", k+"one item is appended at a time", false, p.Pos(a.Pos()), desc(a))
			continue
		}
		item := desc(items[0])
		// the recursive load that filled the item
		var rec *ssa.Call
		for _, ri := range callsIn(fn, "conf/env.loadEnvInternal") {
			r := ri.(*ssa.Call)
			if len(r.Call.Args) == 3 && desc(r.Call.Args[2]) == item {
				rec = r
			}
		}
		if rec == nil {
			c.Check("C09.list_index.key", k+"the appended item was filled by a recursive load with its own key prefix", false, p.Pos(a.Pos()), "no loadEnvInternal(env, …, "+item+")")
			continue
		}
		idx, okKey := itemKeyR3c09(rec.Call.Args[1])
		c.Check("C09.list_index.key", k+"the key prefix of an item is prefix + \"_\" + decimal(position)", okKey, p.Pos(rec.Pos()), "prefix argument: "+desc(rec.Call.Args[1])+" - the position used for the list and the number in the key must be the same integer")
		if !okKey {
			continue
		}
		// the position is a counter from 0 in steps of 1
		ph, isPhi := idx.(*ssa.Phi)
		asc := false
		if isPhi && len(ph.Edges) == 2 {
			var hasInit, hasStep bool
			for _, e := range ph.Edges {
				e = stripConv(e)
				if z, ok := constIntB(e); ok && z == 0 {
					hasInit = true
				}
				if bo, ok := e.(*ssa.BinOp); ok && bo.Op == token.ADD {
					x, y := stripConv(bo.X), stripConv(bo.Y)
					if one, ok := constIntB(y); ok && one == 1 && x == ssa.Value(ph) {
						hasStep = true
					}
					if one, ok := constIntB(x); ok && one == 1 && y == ssa.Value(ph) {
						hasStep = true
					}
				}
			}
			asc = hasInit && hasStep
		}
		c.Check("C09.list_index.counter", k+"items are visited by a position counter that starts at 0 and advances by 1 (reflect.Append places an item at Len(list); it lands at its index only in this order)", asc, p.Pos(rec.Pos()), "position: "+desc(idx))
		if !asc {
			continue
		}
		// every Index() on the destination uses the counter
		nIdx := 0
		for _, ii := range callsIn(fn, "(reflect.Value).Index") {
			ic := callCommon(ii)
			if len(ic.Args) != 2 || desc(ic.Args[0]) != dest {
				continue
			}
			nIdx++
			c.Check("C09.list_index.in_place", k+"an existing position is read / overwritten at Index(position counter)", stripConv(ic.Args[1]) == idx, p.Pos(ii.Pos()), desc(ic.Args[1]))
		}
		c.Check("C09.list_index.in_place", k+"items preloaded from the file are merged in place (Index on the destination list)", nIdx >= 2, p.Pos(a.Pos()), fmt.Sprintf("%d Index calls on %s", nIdx, dest))
		// append only when the counter is not an existing position
		lt := "(" + desc(idx) + " < (reflect.Value).Len(" + dest + "))"
		head := Point{ph.Block(), 0}
		isA := func(i ssa.Instruction) bool { return i == ssa.Instruction(a) }
		alts := []LitPat{F(lt), T("(reflect.Value).IsZero($2)"), T("(reflect.Value).IsNil($2)")}
		// the same test kept in a boolean variable: exists := !prv.IsZero() && I < Len (branch taken
		// when false), or missing := prv.IsZero() || !(I < Len) (branch taken when true)
		absent := func(l Lit) bool {
			return l.Pos && (l.Atom == "(reflect.Value).IsZero($2)" || l.Atom == "(reflect.Value).IsNil($2)")
		}
		for _, b := range fn.Blocks {
			for _, ins := range b.Instrs {
				bp, ok := ins.(*ssa.Phi)
				if !ok {
					break
				}
				if len(bp.Edges) != 2 {
					continue
				}
				for e := 0; e < 2; e++ {
					cb, isC := constBool(bp.Edges[e])
					el, okL := phiEdgeLit(bp, e)
					if !isC || !okL || !absent(el) {
						continue
					}
					other := litOf(bp.Edges[1-e], true)
					if !cb && other.Atom == lt && other.Pos {
						alts = append(alts, F(desc(bp))) // exists == false
					}
					if cb && other.Atom == lt && !other.Pos {
						alts = append(alts, T(desc(bp))) // missing == true
					}
				}
			}
		}
		w := reachWithout(head, isA, alts)
		c.Check("C09.list_index.append_only_new", k+"reflect.Append is reached only when the position counter is not below Len(list) (or the list does not exist yet)", w == nil, p.Pos(a.Pos()), w.String(p))
		// the loop is not left while the environment has keys for the current position
		has := "conf/env.envHasAtLeastAKeyWithPrefix($0, " + desc(rec.Call.Args[1]) + ")"
		w2 := reachWithout(head, retNil(0), []LitPat{F(has)})
		c.Check("C09.list_index.exhaustive", k+"the visit ends successfully only when no variable carries the key prefix of the current position", w2 == nil && succOnLit(fn, has, false) != nil, p.Pos(rec.Pos()), "required edge !"+has+"; "+w2.String(p))
	}
}
