package main

import (
	"golang.org/x/tools/go/ssa"
)

// C19.close_timer.armed_when_empty - "... stop after the close delay once no reader
// remains".
//
// The close timer of an on-demand source / runOnDemand command is armed by
// onDemand*ScheduleClose. Two places arm it: the on-ready handlers (no reader yet,
// C19.close_timer.armed_on_ready) and the handler of a reader's remove request, for the
// moment the LAST reader goes. Readers do not only leave through that handler: the
// path itself empties path.readers when the stream goes away (setNotAvailable, e.g. the
// on-demand publisher disconnects first) - and none of those teardown sites looks at
// the on-demand state. The state stays `ready` with zero readers; what arms the timer
// is the remove request that each kicked reader still sends afterwards. The design
// therefore needs the handler to decide "no reader remains" from the STATE it finds
// (len(readers) == 0 ∧ on-demand ∧ state ready), not from whether this request
// removed somebody:
//
//	in the remove-reader handler, every path from the entry to a return either calls
//	onDemand<K>ScheduleClose / onDemand<K>Stop, or passes an edge that rules the
//	situation out: len(readers) != 0, not HasOnDemand<K>, state<K> != ready
//	(for K = Publisher also HasOnDemandStaticSource: the two kinds exclude each other,
//	conf validation allows runOnDemand only with source 'publisher').
//
// A return reached under "author not attached" (or any other condition that does not
// imply one of the above) is a path on which an on-demand source with no reader is
// left running for ever: nothing else will arm the timer, and because the state is not
// `initial` a later request is put on hold without starting anything.
//
// Not covered: a design that re-evaluates at the teardown sites instead (then this
// rule has to move there); interleavings with timer expiry.

func init() {
	addMutants(
		// the seed: requests of readers that the path already detached are ignored
		Mutant{"C19", "remove-of-detached-reader-ignored", "internal/core/path.go",
			"	if _, ok := pa.readers[req.Author]; ok {\n		pa.executeRemoveReader(req.Author)\n	}\n	close(req.Res)\n\n	if len(pa.readers) == 0 {",
			"	if _, ok := pa.readers[req.Author]; !ok {\n		close(req.Res)\n		return\n	}\n\n	pa.executeRemoveReader(req.Author)\n	close(req.Res)\n\n	if len(pa.readers) == 0 {", "C19.close_timer.armed_when_empty"},
		// same class: the evaluation is tied to another fact that the teardown falsifies
		Mutant{"C19", "close-armed-only-while-publisher-attached", "internal/core/path.go",
			"		} else if pa.conf.HasOnDemandPublisher() {\n			if pa.onDemandPublisherState == pathOnDemandStateReady {\n				pa.onDemandPublisherScheduleClose()",
			"		} else if pa.conf.HasOnDemandPublisher() && pa.source != nil {\n			if pa.onDemandPublisherState == pathOnDemandStateReady {\n				pa.onDemandPublisherScheduleClose()", "C19.close_timer.armed_when_empty"},
	)
}

func c19r4ArmedWhenEmpty(c *Ctx, p *Prog) {
	fn := pathFn(c, p, "doRemoveReader")
	if fn == nil {
		return
	}
	const rule = "C19.close_timer.armed_when_empty"
	for _, kind := range []string{"StaticSource", "Publisher"} {
		has := "(conf.Path).HasOnDemand" + kind + "($0.conf)"
		ready := "($0.onDemand" + kind + "State == 2)"
		excused := func(l Lit) bool {
			if !l.Pos && (atomMatch("(len($0.readers) == 0)", l.Atom) || atomMatch(has, l.Atom) || atomMatch(ready, l.Atom)) {
				return true
			}
			// the other kind is configured (mutually exclusive)
			return kind == "Publisher" && l.Pos && atomMatch("(conf.Path).HasOnDemandStaticSource($0.conf)", l.Atom)
		}
		arms := callTo("(*core.path).onDemand"+kind+"ScheduleClose", "(*core.path).onDemand"+kind+"Stop")
		if countTargets(fn, arms) == 0 {
			c.Check(rule, fnName(fn)+": arms the close timer of the on-demand "+kind+" when no reader remains", false, p.Pos(fn.Pos()), "no call of onDemand"+kind+"ScheduleClose in the handler of a reader's remove request")
			continue
		}
		w := (&Walker{
			Visit: func(i ssa.Instruction) int {
				if arms(i) {
					return wStop
				}
				if _, ok := i.(*ssa.Return); ok {
					return wHit
				}
				return wContinue
			},
			Edge: func(l Lit) bool { return !excused(l) },
		}).Run(entry(fn))
		c.Check(rule, fnName(fn)+": whenever it returns with len(readers) == 0 ∧ HasOnDemand"+kind+" ∧ state ready, onDemand"+kind+"ScheduleClose was called - whether or not the author was still attached", w == nil, p.Pos(fn.Pos()),
			"readers that the path detached itself (setNotAvailable when the on-demand publisher / source went away first) send their remove request afterwards; it is the only event that arms the close timer then. A return that skips the evaluation leaves the on-demand state ready with no reader and no timer: the source / runOnDemand command is never stopped and a later request is put on hold without a start. "+w.String(p))
	}
}
