package main

// C42 on range-over-func loops (DESIGN.md section 11).
//
// `for i := len(m)-1; i >= 1; i-- { s = subst(s, "$G"+itoa(i), m[i]) }` can be
// written `for i, g := range slices.Backward(m) { if i == 0 { break }; s =
// subst(s, "$G"+itoa(i), g) }`. go/ssa compiles the body of a range-over-func
// loop into a synthetic closure (Synthetic "range-over-func yield") that the
// iterator calls once per element; the variables the body assigns (s) stop
// being SSA registers and become heap cells (an Alloc captured by the
// closure, read and written through loads and stores). Two things change for
// the rules:
//
//  1. VALUE FLOW goes through a memory cell instead of phis. A load of a cell
//     stands for any value stored to it (in the function or in the closures
//     capturing it): altsG4 expands it (cellStoresG4). That alone is
//     flow-insensitive, so two flow facts are checked on every cell the chain
//     runs through (c42CellDiscipline):
//       - the cell is only loaded, stored and captured by range-over-func yield
//         closures that are handed directly to the iterator call (its address
//         goes nowhere else), and
//       - every load of it is consumed at once: all users are in the block of
//         the load and no store to the cell and no iterator call lies between
//         the load and the user. Hence a substitution always works on the
//         CURRENT content and the return delivers the CURRENT content: the cell
//         holds "template with the substitutions executed so far applied in
//         execution order", which is what the SSA chain expressed.
//     "substituted last" for a result that is stored into a cell: from the store
//     on, no store to the cell and no iterator call that was given a closure
//     over the cell is reachable, and the loads that are reachable flow only to
//     the return (c42QueryLastCell). (The synthetic yield function panics when
//     it is called after its loop was left, so a retained closure cannot run
//     the body later.)
//
//  2. THE GROUP LOOP has no counter phi. For the yield closure y(i, g) of
//     `range slices.Backward(matches)` the library contract (trusted, like
//     strings.ReplaceAll) is: y is called with (i, matches[i]) for i =
//     len(matches)-1, len(matches)-2, ..., 0, in this order, until it returns
//     false. So
//       - start len(matches)-1 and step -1 hold iff the iterator is
//         slices.Backward of the resolver's matches parameter and the group
//         index is y's first parameter itself (offset 0);
//       - "runs exactly while index >= 1": the substitution is guarded by
//         index >= 1 - where, index being a slice index (>= 0), `i != 0` is the
//         same test as `i >= 1` - and every return of y yields true (continue)
//         unless it is guarded by index < 1 (i == 0 is the last element
//         anyway, so break and continue are the same there); a `break` under
//         any other condition would skip the smaller groups;
//       - the replacement is y's second parameter (= matches[i]) or matches[i].

import (
	"go/constant"
	"go/token"

	"golang.org/x/tools/go/ssa"
)

const c42YieldSynthetic = "range-over-func yield"

func isYieldClosureG4(f *ssa.Function) bool {
	return f != nil && f.Parent() != nil && f.Synthetic == c42YieldSynthetic
}

// cellOfAddrG4: the local variable (Alloc) behind an address, through the free
// variables of closures.
func cellOfAddrG4(addr ssa.Value) *ssa.Alloc {
	if fv, ok := addr.(*ssa.FreeVar); ok {
		addr = rootBinding(fv)
	}
	a, _ := addr.(*ssa.Alloc)
	return a
}

// capturedCellG4: the Alloc is bound by at least one MakeClosure.
func capturedCellG4(a *ssa.Alloc) bool {
	if a == nil || a.Referrers() == nil {
		return false
	}
	for _, r := range *a.Referrers() {
		if _, ok := r.(*ssa.MakeClosure); ok {
			return true
		}
	}
	return false
}

// cellOfLoadG4: v is a load of a captured local variable (directly or inside a
// closure capturing it).
func cellOfLoadG4(v ssa.Value) *ssa.Alloc {
	u, ok := v.(*ssa.UnOp)
	if !ok || u.Op != token.MUL {
		return nil
	}
	a := cellOfAddrG4(u.X)
	if !capturedCellG4(a) {
		return nil
	}
	return a
}

// yieldCallG4 describes one range-over-func loop: iter(yield).
type yieldCallG4 struct {
	y    *ssa.Function
	mc   *ssa.MakeClosure
	call *ssa.Call // the call of the iterator with the yield closure
}

// yieldLoopsG4: the range-over-func loops written directly in fn.
func yieldLoopsG4(fn *ssa.Function) []yieldCallG4 {
	var out []yieldCallG4
	for _, b := range fn.Blocks {
		for _, i := range b.Instrs {
			mc, ok := i.(*ssa.MakeClosure)
			if !ok {
				continue
			}
			y, ok := mc.Fn.(*ssa.Function)
			if !ok || !isYieldClosureG4(y) || y.Blocks == nil {
				continue
			}
			yc := yieldCallG4{y: y, mc: mc}
			n := 0
			for _, r := range *mc.Referrers() {
				if _, isDbg := r.(*ssa.DebugRef); isDbg {
					continue
				}
				n++
				if call, isCall := r.(*ssa.Call); isCall && !call.Call.IsInvoke() && len(call.Call.Args) == 1 && call.Call.Args[0] == ssa.Value(mc) && call.Call.Value != ssa.Value(mc) {
					yc.call = call
				}
			}
			if n != 1 {
				yc.call = nil // the closure value goes somewhere else as well
			}
			out = append(out, yc)
		}
	}
	return out
}

// yieldLoopOfG4: the loop whose body is y (nil call when y is not handed
// directly and only to an iterator call).
func yieldLoopOfG4(y *ssa.Function) (yieldCallG4, bool) {
	if !isYieldClosureG4(y) {
		return yieldCallG4{}, false
	}
	for _, yc := range yieldLoopsG4(y.Parent()) {
		if yc.y == y {
			return yc, yc.call != nil
		}
	}
	return yieldCallG4{}, false
}

// isSlicesBackwardOfG4: the iterator of the loop is slices.Backward(x); returns x.
func slicesBackwardArgG4(yc yieldCallG4) (ssa.Value, bool) {
	if yc.call == nil {
		return nil, false
	}
	it, ok := yc.call.Call.Value.(*ssa.Call)
	if !ok || it.Call.IsInvoke() || len(it.Call.Args) != 1 {
		return nil, false
	}
	f := it.Call.StaticCallee()
	if f == nil {
		return nil, false
	}
	if o := f.Origin(); o != nil {
		f = o
	}
	if f.Pkg == nil || f.Pkg.Pkg.Path() != "slices" || f.Name() != "Backward" {
		return nil, false
	}
	return it.Call.Args[0], true
}

// cellStoresG4: the values stored to a captured variable, in its function and in
// the closures capturing it.
func cellStoresG4(a *ssa.Alloc) []ssa.Value { return c42VarStores(a) }

// cellLoadsSeenG4 collects the cell loads altsG4 expanded (reset by the caller).
var cellLoadsSeenG4 map[*ssa.UnOp]*ssa.Alloc

func constBoolG4(v ssa.Value) (bool, bool) {
	c, ok := v.(*ssa.Const)
	if !ok || c.Value == nil || c.Value.Kind() != constant.Bool {
		return false, false
	}
	return constant.BoolVal(c.Value), true
}

// touchesCellG4: the instruction may change the cell or run a loop body that
// may: a store to it, or a call that is handed a closure capturing it.
func touchesCellG4(i ssa.Instruction, a *ssa.Alloc) bool {
	if st, ok := i.(*ssa.Store); ok {
		return cellOfAddrG4(st.Addr) == a
	}
	cc := callCommon(i)
	if cc == nil {
		return false
	}
	ops := append([]ssa.Value{cc.Value}, cc.Args...)
	for _, op := range ops {
		mc, ok := op.(*ssa.MakeClosure)
		if !ok {
			continue
		}
		for _, bnd := range mc.Bindings {
			if cellOfAddrG4(bnd) == a {
				return true
			}
		}
	}
	return false
}

// c42CellDiscipline: see the file comment, item 1. why == "" when it holds.
func c42CellDiscipline(a *ssa.Alloc) string {
	// every function that can reach the cell: its own and the yield closures over it
	type ref struct {
		addr ssa.Value
		fn   *ssa.Function
	}
	// the variable is assigned before anything else happens to it (a cell is
	// zero-initialised implicitly; an empty string is not part of the chain)
	{
		b, first := a.Block(), ssa.Instruction(nil)
		past := false
	scanInit:
		for _, i := range b.Instrs {
			if i == ssa.Instruction(a) {
				past = true
				continue
			}
			if !past {
				continue
			}
			for _, op := range i.Operands(nil) {
				if op != nil && *op == ssa.Value(a) {
					if _, isDbg := i.(*ssa.DebugRef); !isDbg {
						first = i
						break scanInit
					}
				}
			}
		}
		if st, ok := first.(*ssa.Store); !ok || st.Addr != ssa.Value(a) {
			return "the variable is not assigned right where it is declared (its zero value \"\" would enter the chain)"
		}
	}
	work := []ref{{a, a.Parent()}}
	for n := 0; n < len(work) && n < 32; n++ {
		w := work[n]
		refs := w.addr.Referrers()
		if refs == nil {
			continue
		}
		for _, r := range *refs {
			switch u := r.(type) {
			case *ssa.DebugRef:
			case *ssa.Store:
				if u.Addr != w.addr {
					return "the address of the variable is stored"
				}
			case *ssa.UnOp:
				if u.Op != token.MUL {
					return "unexpected use of the variable"
				}
				// consumed at once
				b := u.Block()
				at := -1
				for k, x := range b.Instrs {
					if x == ssa.Instruction(u) {
						at = k
					}
				}
				for _, ur := range *u.Referrers() {
					if _, isDbg := ur.(*ssa.DebugRef); isDbg {
						continue
					}
					if ur.Block() != b {
						return "a value read from the variable is used in a later block (it may be stale)"
					}
					if _, isPhi := ur.(*ssa.Phi); isPhi {
						return "a value read from the variable is used in a later block (it may be stale)"
					}
					for k := at + 1; k < len(b.Instrs) && b.Instrs[k] != ur; k++ {
						if touchesCellG4(b.Instrs[k], a) {
							return "the variable is written between a read and the use of the value read (stale value)"
						}
					}
				}
			case *ssa.MakeClosure:
				y, _ := u.Fn.(*ssa.Function)
				yc, ok := yieldLoopOfG4(y)
				if !ok || yc.mc != u {
					return "the variable is captured by a closure that is not the body of a range-over-func loop handed directly to its iterator"
				}
				for k, bnd := range u.Bindings {
					if bnd == w.addr && k < len(y.FreeVars) {
						work = append(work, ref{y.FreeVars[k], y})
					}
				}
			default:
				return "the address of the variable escapes"
			}
		}
	}
	return ""
}

// c42QueryLastCell: the result of call is stored into captured variables only;
// see the file comment. handled is false when no use of the call is such a
// store (the SSA rule flowsOnlyToReturnG4 decides then).
func c42QueryLastCell(fn *ssa.Function, call *ssa.Call) (handled, ok bool) {
	var stores []*ssa.Store
	for _, r := range *call.Referrers() {
		switch u := r.(type) {
		case *ssa.DebugRef:
		case *ssa.Store:
			if a := cellOfAddrG4(u.Addr); u.Val == ssa.Value(call) && capturedCellG4(a) {
				stores = append(stores, u)
				continue
			}
			return false, false
		default:
			if len(stores) > 0 {
				return true, false // stored and used otherwise
			}
			return false, false
		}
	}
	if len(stores) == 0 {
		return false, false
	}
	for _, st := range stores {
		if st.Parent() != fn {
			return true, false // substituted inside a loop body: the next iteration rescans it
		}
		a := cellOfAddrG4(st.Addr)
		if c42CellDiscipline(a) != "" {
			return true, false
		}
		seen := map[*ssa.BasicBlock]bool{}
		good := true
		var scan func(b *ssa.BasicBlock, from int)
		scan = func(b *ssa.BasicBlock, from int) {
			for k := from; k < len(b.Instrs); k++ {
				i := b.Instrs[k]
				if touchesCellG4(i, a) {
					good = false
					return
				}
				if ld, isLoad := i.(*ssa.UnOp); isLoad && cellOfLoadG4(ld) == a {
					for _, ur := range *ld.Referrers() {
						switch ur.(type) {
						case *ssa.Return, *ssa.DebugRef:
						default:
							good = false
							return
						}
					}
				}
			}
			for _, s := range b.Succs {
				if !seen[s] {
					seen[s] = true
					scan(s, 0)
				}
			}
		}
		p := after(st)
		scan(p.B, p.I)
		if !good {
			return true, false
		}
	}
	return true, true
}

// c42LowerLit classifies a branch literal against "index >= 1", the index
// being ctr+off: +1 the literal is exactly index >= 1, -1 it is exactly
// index < 1, 0 anything else. nonneg: the index is known to be >= 0 (a slice
// index handed out by an iterator), which makes index != 0 the same test.
func c42LowerLit(g guardG4, ctr rvalG4, off int64, nonneg bool) int {
	bo, ok := g.Cond.v.(*ssa.BinOp)
	if !ok {
		return 0
	}
	x, dx := c42Affine(rvalG4{bo.X, g.Cond.env})
	y, dy := c42Affine(rvalG4{bo.Y, g.Cond.env})
	op := bo.Op
	if _, isK := constIntB(x.v); isK && sameG4(y, ctr) { // constant on the left: mirror
		x, dx, y, dy = y, dy, x, dx
		switch op {
		case token.LSS:
			op = token.GTR
		case token.GTR:
			op = token.LSS
		case token.LEQ:
			op = token.GEQ
		case token.GEQ:
			op = token.LEQ
		}
	}
	k, isK := constIntB(y.v)
	if !isK || !sameG4(x, ctr) {
		return 0
	}
	// (ctr + dx) op (k + dy)  <=>  index op k + dy - dx + off
	k = k + dy - dx + off
	sign := 0
	switch {
	case op == token.GEQ && k == 1, op == token.GTR && k == 0:
		sign = 1
	case op == token.LSS && k == 1, op == token.LEQ && k == 0:
		sign = -1
	case nonneg && op == token.NEQ && k == 0:
		sign = 1
	case nonneg && op == token.EQL && k == 0:
		sign = -1
	}
	if !g.Outcome {
		sign = -sign
	}
	return sign
}

// c42YieldReturnsOK: every return of the loop body continues the loop (true)
// unless it is guarded by index < 1.
func c42YieldReturnsOK(y *ssa.Function, ctr rvalG4, off int64) (bool, string) {
	n := 0
	for _, b := range y.Blocks {
		for _, i := range b.Instrs {
			r, ok := i.(*ssa.Return)
			if !ok || len(r.Results) != 1 {
				continue
			}
			n++
			if v, isK := constBoolG4(r.Results[0]); isK && v {
				continue
			}
			under := false
			for _, g := range guardsG4(r, nil) {
				if c42LowerLit(g, ctr, off, off >= 0) == -1 {
					under = true
				}
			}
			if !under {
				return false, "the loop is left (break/return) under a condition other than index < 1"
			}
		}
	}
	return n > 0, ""
}
