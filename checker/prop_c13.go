package main

import (
	"go/ast"
	"go/token"
	"go/types"
	"sort"
	"strings"

	"golang.org/x/tools/go/packages"
)

// C13 - hot reload applies every changed parameter to running components.
// E3 field coverage between Core.createResources (what a component USES) and
// Core.closeResources (what its close predicate COMPARES).

func init() {
	register(Property{ID: "C13", Level: "proof", Run: runC13,
		Technique: "static analysis: field-coverage comparison over the type-checked AST of Core.createResources / Core.closeResources (use-set vs compare-set per component, dependency closure, ordering)",
		Text:      "For each of the components created in Core.createResources, every conf.Conf field read while creating it (condition, literal, helper arguments) is either compared in the component's close predicate in Core.closeResources (directly, or through an or-ed predicate of another component) or handed to an in-place Reload* call guarded by the negated predicate; every other component it references is in the closure of its predicate; dependants are closed before and created after their dependencies; every predicate contains newConf == nil; clause 2 (unchanged => kept): every compared field is used by the component and no pointer-typed field is compared by identity. Obligations = (component, field) and (component, dependency) pairs, all discharged or listed as findings. For the components reloaded in place (every Reload* method called by Core.closeResources) it is also decided on the SSA that the payload reaches a field of the component (not dropped) and that, in each function applying it, no value derived from the previous content of that field (an interval, a timer, a channel built from it) is used after the store without the field being read again - so the running service does not keep a schedule or state computed from the old configuration. Not decided: that everything re-derived is complete (state kept in other fields of the component).",
		Note:      "trusted: go/types; the component's Initialize() reads only the fields set in its literal (the literal is the component's whole configuration); reflect.DeepEqual / slices.Equal semantics"})
	addMutants(
		Mutant{"C13", "drop-hls-cdnsecret-compare", "internal/core/core.go",
			"		newConf.HLSCDNSecret != currentConf.HLSCDNSecret ||\n", "", "C13.use_covered"},
		Mutant{"C13", "api-uses-uncompared-field", "internal/core/core.go",
			"			Started:        started,\n			Address:        currentConf.APIAddress,", "			Started:        started,\n			Address:        currentConf.APIAddress + currentConf.PPROFAddress,", "C13.use_covered"},
		Mutant{"C13", "pathmanager-forgets-metrics", "internal/core/core.go",
			"		newConf.RTSPEncryption != currentConf.RTSPEncryption ||\n		closeMetrics ||\n		closeAuthManager ||", "		newConf.RTSPEncryption != currentConf.RTSPEncryption ||\n		closeAuthManager ||", "C13.dep_covered"},
		Mutant{"C13", "srt-never-closed-on-shutdown", "internal/core/core.go",
			"	closeSRTServer := newConf == nil ||\n		newConf.SRT != currentConf.SRT ||", "	closeSRTServer := newConf.SRT != currentConf.SRT ||", "C13.closes_on_shutdown"},
		Mutant{"C13", "close-order-metrics-before-rtsp", "internal/core/core.go",
			"	if closeAPI {\n			p.api.Close()\n			p.api = nil\n		}\n	}\n", "	if closeAPI {\n			p.api.Close()\n			p.api = nil\n		}\n	}\n\n	if closeMetrics && p.metrics != nil {\n		p.metrics.Close()\n		p.metrics = nil\n	}\n", "C13.close_order"},
		Mutant{"C13", "webrtc-close-block-removed", "internal/core/core.go",
			"	if closeWebRTCServer && p.webRTCServer != nil {\n		p.webRTCServer.Close()\n		p.webRTCServer = nil\n	}\n", "", "C13"},
		Mutant{"C13", "cleaner-single-timer-not-rearmed-on-reload", "internal/recordcleaner/cleaner.go",
			"	for {\n		select {\n		case <-time.After(c.cleanInterval()):\n			c.doRun()\n",
			"	timer := time.NewTimer(c.cleanInterval())\n	defer timer.Stop()\n\n	for {\n		select {\n		case <-timer.C:\n			c.doRun()\n			timer.Reset(c.cleanInterval())\n", "C13.reload_applied.no_stale"},
		Mutant{"C13", "cleaner-interval-computed-once", "internal/recordcleaner/cleaner.go",
			"	for {\n		select {\n		case <-time.After(c.cleanInterval()):\n			c.doRun()\n",
			"	interval := c.cleanInterval()\n\n	for {\n		select {\n		case <-time.After(interval):\n			c.doRun()\n", "C13.reload_applied.no_stale"},
		Mutant{"C13", "playback-reload-dropped", "internal/playback/server.go",
			"	defer s.mutex.Unlock()\n	s.PathConfs = pathConfs\n", "	defer s.mutex.Unlock()\n	_ = pathConfs\n", "C13.reload_applied.stored"},
		Mutant{"C13", "hot-reload-unguarded-dropped", "internal/core/core.go",
			"	if !closePathManager && !reflect.DeepEqual(newConf.Paths, currentConf.Paths) {\n		p.pathManager.ReloadPathConfs(newConf.Paths)\n	}\n", "", "C13.use_covered"},
	)
}

type c13comp struct {
	field    string               // Core field name (e.g. rtspsServer)
	use      map[string]token.Pos // conf fields used at creation
	deps     map[string]bool      // other component fields referenced
	parentP  bool                 // Parent: p  (logs through the core logger)
	createAt token.Pos
	flag     string // closeX
	closeAt  token.Pos
}

type c13flag struct {
	name    string
	cmp     map[string]token.Pos // fields compared directly
	derived map[string]bool      // fields compared through a helper call
	inc     []string             // other flags or-ed in
	hasNil  bool                 // newConf == nil
	ptrCmp  []string             // pointer-typed fields compared with !=
	hot     map[string]bool      // fields passed to Reload* under !closeX
	pos     token.Pos
	other   []string // unrecognised disjuncts
}

func runC13(c *Ctx) {
	p := c.Main()
	if p == nil {
		return
	}
	c.Explain = "USE(X) = currentConf.F selectors inside the creation block of component X in Core.createResources; DEP(X) = p.<component> selectors and `Parent: p` there; CMP(X) = fields compared in closeX := ... in Core.closeResources; INC(X) = or-ed close flags; HOT(X) = newConf.F selectors in an if guarded by !closeX. Rules: USE ⊆ CMP* ∪ HOT (closure over INC); DEP ⊆ INC*; newConf == nil in every flag; close block exists per component; dependants closed before / created after dependencies; CMP ⊆ USE* ; no pointer identity comparison. Not decided: what Initialize() does with the fields."
	c.Assume = []string{"a component's behaviour depends on the configuration only through the conf fields read in its creation block"}
	c.Explain += " reload_applied (go/ssa, prop_r3_c13.go): for every Reload* method Core.closeResources calls, stored: its payload parameter flows (through selects/sends on a struct-field channel, received by the component's run loop, and static calls) into a Store to a field F of the component; no_stale: in every function of the component's package that stores F or calls a function that does, a walk from that point reaches no instruction with an operand derived (data flow from loads of F and from results of functions reading F, through locals) from F, unless a new read of F is passed first."

	// an in-place reload really reloads (prop_r3_c13.go)
	c13ReloadApplied(c, p)

	cr, pk := p.FuncDecl("internal/core", "Core", "createResources")
	cl, _ := p.FuncDecl("internal/core", "Core", "closeResources")
	if cr == nil || cl == nil {
		c.Undecided("UNRESOLVED ANCHOR Core.createResources / Core.closeResources")
		return
	}
	c.Analysed("internal/core.Core.createResources")
	c.Analysed("internal/core.Core.closeResources")
	coreT := p.NamedType("internal/core", "Core")
	confT := p.NamedType("internal/conf", "Conf")
	if coreT == nil || confT == nil {
		c.Undecided("UNRESOLVED ANCHOR types core.Core / conf.Conf")
		return
	}
	isCoreSel := func(e ast.Expr) (string, bool) {
		se, ok := e.(*ast.SelectorExpr)
		if !ok {
			return "", false
		}
		if tv, ok := pk.TypesInfo.Types[se.X]; ok && namedOf(tv.Type) == coreT {
			if sel, ok := pk.TypesInfo.Selections[se]; ok && sel.Kind() == types.FieldVal {
				return se.Sel.Name, true
			}
		}
		return "", false
	}
	isConfSel := func(e ast.Expr, recvName string) (string, bool) {
		se, ok := e.(*ast.SelectorExpr)
		if !ok {
			return "", false
		}
		id, ok := se.X.(*ast.Ident)
		if !ok || id.Name != recvName {
			return "", false
		}
		if tv, ok := pk.TypesInfo.Types[se.X]; ok && namedOf(tv.Type) == confT {
			if sel, ok := pk.TypesInfo.Selections[se]; ok && sel.Kind() == types.FieldVal {
				return se.Sel.Name, true
			}
		}
		return "", false
	}

	// ---------- closeResources: flags
	flags := map[string]*c13flag{}
	var flagOrder []string
	for _, st := range cl.Body.List {
		as, ok := st.(*ast.AssignStmt)
		if !ok || as.Tok != token.DEFINE || len(as.Lhs) != 1 || len(as.Rhs) != 1 {
			continue
		}
		id, ok := as.Lhs[0].(*ast.Ident)
		if !ok || !strings.HasPrefix(id.Name, "close") {
			continue
		}
		fl := &c13flag{name: id.Name, cmp: map[string]token.Pos{}, derived: map[string]bool{}, hot: map[string]bool{}, pos: as.Pos()}
		for _, d := range flattenBin(as.Rhs[0], token.LOR) {
			c13disjunct(pk, d, fl, isConfSel)
		}
		flags[id.Name] = fl
		flagOrder = append(flagOrder, id.Name)
	}
	c.Floor("C13.flags", len(flags), 16)
	// hot reload blocks: if !closeX && ... { ... newConf.F ... }
	for _, st := range cl.Body.List {
		ifs, ok := st.(*ast.IfStmt)
		if !ok {
			continue
		}
		for _, cj := range flattenBin(ifs.Cond, token.LAND) {
			un, ok := unparen(cj).(*ast.UnaryExpr)
			if !ok || un.Op != token.NOT {
				continue
			}
			id, ok := unparen(un.X).(*ast.Ident)
			if !ok || flags[id.Name] == nil {
				continue
			}
			// the body must hand newConf.F to a method of the component
			ast.Inspect(ifs.Body, func(n ast.Node) bool {
				call, ok := n.(*ast.CallExpr)
				if !ok {
					return true
				}
				for _, a := range call.Args {
					if f, ok := isConfSel(a, "newConf"); ok {
						// and the guard must compare the same field so the reload fires on every change
						guardHas := false
						ast.Inspect(ifs.Cond, func(m ast.Node) bool {
							if e, ok := m.(ast.Expr); ok {
								if g, ok := isConfSel(e, "newConf"); ok && g == f {
									guardHas = true
								}
							}
							return true
						})
						if guardHas {
							flags[id.Name].hot[f] = true
						}
					}
				}
				return true
			})
		}
	}

	// ---------- closeResources: close blocks  (p.x = nil under closeX)
	compFlag := map[string]string{}
	closePos := map[string]token.Pos{}   // last close block of a component
	firstClose := map[string]token.Pos{} // first close block of a component
	var walkClose func(n ast.Node, conds []ast.Expr)
	walkClose = func(n ast.Node, conds []ast.Expr) {
		switch x := n.(type) {
		case *ast.BlockStmt:
			for _, s := range x.List {
				walkClose(s, conds)
			}
		case *ast.IfStmt:
			walkClose(x.Body, append(append([]ast.Expr{}, conds...), x.Cond))
			if x.Else != nil {
				walkClose(x.Else, conds)
			}
		case *ast.AssignStmt:
			if len(x.Lhs) == 1 && len(x.Rhs) == 1 {
				if f, ok := isCoreSel(x.Lhs[0]); ok {
					if id, ok := x.Rhs[0].(*ast.Ident); ok && id.Name == "nil" {
						for _, cd := range conds {
							for _, cj := range flattenBin(cd, token.LAND) {
								if id, ok := unparen(cj).(*ast.Ident); ok && flags[id.Name] != nil {
									compFlag[f] = id.Name
									closePos[f] = x.Pos()
									if q, ok := firstClose[f]; !ok || x.Pos() < q {
										firstClose[f] = x.Pos()
									}
								}
							}
						}
					}
				}
			}
		}
	}
	walkClose(cl.Body, nil)

	// ---------- createResources: components
	comps := map[string]*c13comp{}
	var compOrder []string
	var walkCreate func(stmts []ast.Stmt)
	walkCreate = func(stmts []ast.Stmt) {
		for _, st := range stmts {
			ifs, ok := st.(*ast.IfStmt)
			if !ok {
				continue
			}
			// which component does this if create?  `p.X == nil` in the condition
			var comp string
			for _, cj := range flattenBin(ifs.Cond, token.LAND) {
				if be, ok := unparen(cj).(*ast.BinaryExpr); ok && be.Op == token.EQL {
					if id, ok := be.Y.(*ast.Ident); ok && id.Name == "nil" {
						if f, ok := isCoreSel(be.X); ok {
							comp = f
						}
					}
				}
			}
			if comp == "" {
				// `if initial { ... }` and similar: not a reloadable component
				continue
			}
			// the block must assign p.comp
			assigns := false
			ast.Inspect(ifs.Body, func(n ast.Node) bool {
				if as, ok := n.(*ast.AssignStmt); ok {
					for _, l := range as.Lhs {
						if f, ok := isCoreSel(l); ok && f == comp {
							assigns = true
						}
					}
				}
				return true
			})
			if !assigns {
				continue
			}
			cm := &c13comp{field: comp, use: map[string]token.Pos{}, deps: map[string]bool{}, createAt: ifs.Pos()}
			ast.Inspect(ifs, func(n ast.Node) bool {
				switch x := n.(type) {
				case *ast.SelectorExpr:
					if f, ok := isConfSel(x, "currentConf"); ok {
						if _, dup := cm.use[f]; !dup {
							cm.use[f] = x.Pos()
						}
					}
					if f, ok := isCoreSel(x); ok && f != comp {
						cm.deps[f] = true
					}
				case *ast.KeyValueExpr:
					if k, ok := x.Key.(*ast.Ident); ok && (k.Name == "Parent" || k.Name == "parent") {
						if id, ok := x.Value.(*ast.Ident); ok && id.Name == "p" {
							cm.parentP = true
						}
					}
				}
				return true
			})
			comps[comp] = cm
			compOrder = append(compOrder, comp)
		}
	}
	walkCreate(cr.Body.List)
	c.Floor("C13.components", len(comps), 16)

	// closure of INC
	var closure func(f string, seen map[string]bool)
	closure = func(f string, seen map[string]bool) {
		if seen[f] || flags[f] == nil {
			return
		}
		seen[f] = true
		for _, i := range flags[f].inc {
			closure(i, seen)
		}
	}
	flagOfComp := func(comp string) string { return compFlag[comp] }

	for _, comp := range compOrder {
		cm := comps[comp]
		fl := flagOfComp(comp)
		if fl == "" {
			c.Check("C13.close_block", comp+": a close block `if closeX && p."+comp+" != nil { ...; p."+comp+" = nil }` exists in closeResources", false, p.Pos(cm.createAt), "component is created but never closed on reload")
			continue
		}
		c.Check("C13.close_block", comp+": closed under "+fl, true, p.Pos(closePos[comp]), "")
		cm.flag = fl
		cm.closeAt = closePos[comp]
		seen := map[string]bool{}
		closure(fl, seen)
		// clause 1: USE ⊆ CMP* ∪ HOT
		var fields []string
		for f := range cm.use {
			fields = append(fields, f)
		}
		sort.Strings(fields)
		for _, f := range fields {
			covered := ""
			for g := range seen {
				if _, ok := flags[g].cmp[f]; ok {
					covered = "compared in " + g
					break
				}
			}
			if covered == "" && flags[fl].hot[f] {
				covered = "hot-reloaded under !" + fl
			}
			c.Check("C13.use_covered", comp+" uses conf."+f+" ⇒ compared in "+fl+" (or its closure) or hot-reloaded", covered != "", p.Pos(cm.use[f]), covered)
		}
		// dependencies
		var deps []string
		for d := range cm.deps {
			if compFlag[d] != "" { // only reloadable components
				deps = append(deps, d)
			}
		}
		if cm.parentP {
			deps = append(deps, "logger")
		}
		sort.Strings(deps)
		for _, d := range deps {
			df := compFlag[d]
			c.Check("C13.dep_covered", comp+" references p."+d+" ⇒ "+fl+" includes "+df, seen[df], p.Pos(cm.createAt), "")
			if d == "logger" {
				continue
			}
			// dependants are closed before, and created after, what they reference
			c.Check("C13.close_order", comp+" is closed before its dependency "+d, closePos[comp] < firstClose[d], p.Pos(closePos[comp]), "")
			if dc := comps[d]; dc != nil {
				c.Check("C13.create_order", comp+" is created after its dependency "+d, dc.createAt < cm.createAt, p.Pos(cm.createAt), "")
			}
		}
	}

	// per flag
	for _, name := range flagOrder {
		fl := flags[name]
		c.Check("C13.closes_on_shutdown", name+" contains newConf == nil", fl.hasNil, p.Pos(fl.pos), "")
		for _, o := range fl.other {
			c.Check("C13.flag_shape", name+": disjunct `"+o+"` is a recognised comparison", false, p.Pos(fl.pos), "accepted: newConf == nil, newConf.F != currentConf.F, !reflect.DeepEqual/!slices.Equal(newConf.F, currentConf.F), f(newConf.F) != f(currentConf.F), closeY")
		}
		for _, i := range fl.inc {
			c.Check("C13.flag_shape", name+": or-ed flag "+i+" is defined before use", flags[i] != nil && flags[i].pos < fl.pos, p.Pos(fl.pos), "")
		}
		// clause 2a: pointer identity
		for _, f := range fl.ptrCmp {
			c.Check("C13.no_pointer_identity", name+" compares pointer-typed conf."+f+" with !=", false, p.Pos(fl.cmp[f]), "a pointer differs after every Load/Clone: the component restarts on every reload although the value is unchanged")
		}
		// clause 2b: CMP ⊆ USE of the component(s) closed by this flag
		var users []string
		for comp, f := range compFlag {
			if f == name && comps[comp] != nil {
				users = append(users, comp)
			}
		}
		sort.Strings(users)
		var cf []string
		for f := range fl.cmp {
			cf = append(cf, f)
		}
		sort.Strings(cf)
		for _, f := range cf {
			used := len(users) == 0
			for _, u := range users {
				if _, ok := comps[u].use[f]; ok {
					used = true
				}
			}
			c.Check("C13.compare_used", name+" compares conf."+f+" ⇒ used by "+strings.Join(users, "/"), used, p.Pos(fl.cmp[f]), "a compared but unused parameter restarts the component (and disconnects its clients) for no reason")
		}
	}
}

func c13disjunct(pk *packages.Package, d ast.Expr, fl *c13flag, isConfSel func(ast.Expr, string) (string, bool)) {
	d = unparen(d)
	if id, ok := d.(*ast.Ident); ok {
		fl.inc = append(fl.inc, id.Name)
		return
	}
	if be, ok := d.(*ast.BinaryExpr); ok && be.Op == token.EQL {
		if x, ok := be.X.(*ast.Ident); ok && x.Name == "newConf" {
			if y, ok := be.Y.(*ast.Ident); ok && y.Name == "nil" {
				fl.hasNil = true
				return
			}
		}
	}
	if be, ok := d.(*ast.BinaryExpr); ok && be.Op == token.NEQ {
		fa, oka := isConfSel(be.X, "newConf")
		fb, okb := isConfSel(be.Y, "currentConf")
		if oka && okb && fa == fb {
			fl.cmp[fa] = be.Pos()
			if tv, ok := pk.TypesInfo.Types[be.X]; ok {
				if _, isPtr := tv.Type.Underlying().(*types.Pointer); isPtr {
					fl.ptrCmp = append(fl.ptrCmp, fa)
				}
			}
			return
		}
		// f(newConf.F) != f(currentConf.F)
		ca, oka2 := be.X.(*ast.CallExpr)
		cb, okb2 := be.Y.(*ast.CallExpr)
		if oka2 && okb2 && len(ca.Args) == 1 && len(cb.Args) == 1 && exprStr(ca.Fun) == exprStr(cb.Fun) {
			fa, oka := isConfSel(ca.Args[0], "newConf")
			fb, okb := isConfSel(cb.Args[0], "currentConf")
			if oka && okb && fa == fb {
				fl.derived[fa] = true
				return
			}
		}
	}
	if un, ok := d.(*ast.UnaryExpr); ok && un.Op == token.NOT {
		if call, ok := unparen(un.X).(*ast.CallExpr); ok && len(call.Args) == 2 {
			fn := objFullName(calleeObj(pk, call))
			if fn == "reflect.DeepEqual" || fn == "slices.Equal" {
				fa, oka := isConfSel(call.Args[0], "newConf")
				fb, okb := isConfSel(call.Args[1], "currentConf")
				if oka && okb && fa == fb {
					fl.cmp[fa] = call.Pos()
					return
				}
			}
		}
	}
	fl.other = append(fl.other, exprStr(d))
}
