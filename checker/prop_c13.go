package main

import (
	"go/ast"
	"go/token"
	"go/types"
	"sort"
	"strings"

	"golang.org/x/tools/go/packages"
)

// C13 - hot reload applies every changed parameter to running components.
// E3 field coverage between Core.createResources (what a component USES) and
// Core.closeResources (what its close predicate COMPARES).

func init() {
	register(Property{ID: "C13", Level: "proof", Run: runC13,
		Technique: "static analysis: field-coverage comparison over the type-checked AST of Core.createResources / Core.closeResources (use-set vs compare-set per component, dependency closure, ordering)",
		Text:      "For each of the components created in Core.createResources, every conf.Conf field read while creating it (condition, literal, helper arguments) is either compared in the component's close predicate in Core.closeResources (directly, or through an or-ed predicate of another component) or handed to an in-place Reload* call guarded by the negated predicate; every other component it references is in the closure of its predicate; dependants are closed before and created after their dependencies; every predicate contains newConf == nil; clause 2 (unchanged => kept): every compared field is used by the component and no pointer-typed field is compared by identity. Obligations = (component, field) and (component, dependency) pairs, all discharged or listed as findings. For the components reloaded in place (every Reload* method called by Core.closeResources) it is also decided on the SSA that the payload reaches a field of the component (not dropped) and that, in each function applying it, no value derived from the previous content of that field (an interval, a timer, a channel built from it) is used after the store without the field being read again - so the running service does not keep a schedule or state computed from the old configuration; and that at every hop of the reload chain (the Reload* methods called by closeResources, the run loops that receive their payload, the handlers those call, and the reload methods these call in turn: path manager -> path -> static source handler) the payload is stored or handed on on EVERY path from the point it enters the function to the return / the next wait of the run loop, so no state of the component (e.g. a source waiting to be re-created) makes it drop a reload. Not decided: that everything re-derived is complete (state kept in other fields of the component). Also decided (hot_guard): an in-place Reload* call of component X inside closeResources is guarded, besides the comparison of the field it hands over, only by X's own negated close flag or by flags that X's flag includes - a foreign negated flag loses the reload whenever only the other component is recreated.",
		Note:      "trusted: go/types; the component's Initialize() reads only the fields set in its literal (the literal is the component's whole configuration); reflect.DeepEqual / slices.Equal semantics"})
	addMutants(
		Mutant{"C13", "drop-hls-cdnsecret-compare", "internal/core/core.go",
			"		newConf.HLSCDNSecret != currentConf.HLSCDNSecret ||\n", "", "C13.use_covered"},
		Mutant{"C13", "api-uses-uncompared-field", "internal/core/core.go",
			"			Started:        started,\n			Address:        currentConf.APIAddress,", "			Started:        started,\n			Address:        currentConf.APIAddress + currentConf.PPROFAddress,", "C13.use_covered"},
		Mutant{"C13", "pathmanager-forgets-metrics", "internal/core/core.go",
			"		newConf.RTSPEncryption != currentConf.RTSPEncryption ||\n		closeMetrics ||\n		closeAuthManager ||", "		newConf.RTSPEncryption != currentConf.RTSPEncryption ||\n		closeAuthManager ||", "C13.dep_covered"},
		Mutant{"C13", "srt-never-closed-on-shutdown", "internal/core/core.go",
			"	closeSRTServer := newConf == nil ||\n		newConf.SRT != currentConf.SRT ||", "	closeSRTServer := newConf.SRT != currentConf.SRT ||", "C13.closes_on_shutdown"},
		Mutant{"C13", "close-order-metrics-before-rtsp", "internal/core/core.go",
			"	if closeAPI {\n			p.api.Close()\n			p.api = nil\n		}\n	}\n", "	if closeAPI {\n			p.api.Close()\n			p.api = nil\n		}\n	}\n\n	if closeMetrics && p.metrics != nil {\n		p.metrics.Close()\n		p.metrics = nil\n	}\n", "C13.close_order"},
		Mutant{"C13", "webrtc-close-block-removed", "internal/core/core.go",
			"	if closeWebRTCServer && p.webRTCServer != nil {\n		p.webRTCServer.Close()\n		p.webRTCServer = nil\n	}\n", "", "C13"},
		Mutant{"C13", "cleaner-single-timer-not-rearmed-on-reload", "internal/recordcleaner/cleaner.go",
			"	for {\n		select {\n		case <-time.After(c.cleanInterval()):\n			c.doRun()\n",
			"	timer := time.NewTimer(c.cleanInterval())\n	defer timer.Stop()\n\n	for {\n		select {\n		case <-timer.C:\n			c.doRun()\n			timer.Reset(c.cleanInterval())\n", "C13.reload_applied.no_stale"},
		Mutant{"C13", "cleaner-interval-computed-once", "internal/recordcleaner/cleaner.go",
			"	for {\n		select {\n		case <-time.After(c.cleanInterval()):\n			c.doRun()\n",
			"	interval := c.cleanInterval()\n\n	for {\n		select {\n		case <-time.After(interval):\n			c.doRun()\n", "C13.reload_applied.no_stale"},
		Mutant{"C13", "playback-reload-dropped", "internal/playback/server.go",
			"	defer s.mutex.Unlock()\n	s.PathConfs = pathConfs\n", "	defer s.mutex.Unlock()\n	_ = pathConfs\n", "C13.reload_applied.stored"},
		Mutant{"C13", "hot-reload-unguarded-dropped", "internal/core/core.go",
			"	if !closePathManager && !reflect.DeepEqual(newConf.Paths, currentConf.Paths) {\n		p.pathManager.ReloadPathConfs(newConf.Paths)\n	}\n", "", "C13.use_covered"},
		// the in-place reload fires when the paths did NOT change
		Mutant{"C13", "hot-reload-guard-inverted", "internal/core/core.go",
			"	if !closePathManager && !reflect.DeepEqual(newConf.Paths, currentConf.Paths) {\n", "	if !closePathManager && reflect.DeepEqual(newConf.Paths, currentConf.Paths) {\n", "C13.use_covered"},
	)
}

type c13comp struct {
	field    string               // Core field name (e.g. rtspsServer)
	use      map[string]token.Pos // conf fields used at creation
	deps     map[string]bool      // other component fields referenced
	parentP  bool                 // Parent: p  (logs through the core logger)
	createAt token.Pos
	flag     string // closeX
	closeAt  token.Pos
}

type c13flag struct {
	name    string
	cmp     map[string]token.Pos // fields compared directly
	derived map[string]bool      // fields compared through a helper call
	inc     []string             // other flags or-ed in
	hasNil  bool                 // newConf == nil
	ptrCmp  []string             // pointer-typed fields compared with !=
	hot     map[string]bool      // fields passed to Reload* under !closeX
	pos     token.Pos
	other   []string // unrecognised disjuncts
}

func runC13(c *Ctx) {
	defer dumpObls(c)
	p := c.Main()
	if p == nil {
		return
	}
	c.Explain = "USE(X) = currentConf.F selectors inside the creation block of component X in Core.createResources; DEP(X) = p.<component> selectors and `Parent: p` there; CMP(X) = fields compared in closeX := ... in Core.closeResources; INC(X) = or-ed close flags; HOT(X) = newConf.F selectors in an if guarded by !closeX. Rules: USE ⊆ CMP* ∪ HOT (closure over INC); DEP ⊆ INC*; newConf == nil in every flag; close block exists per component; dependants closed before / created after dependencies; CMP ⊆ USE* ; no pointer identity comparison. The two configurations are told apart by role (new = the *conf.Conf parameter of closeResources, current = any other *conf.Conf expression), close flags are the locals that guard a `p.X = nil` (whatever they are called), single-definition locals are names for their defining expression (conditions, arguments, literals), `!`/De Morgan/operand order/nested-vs-merged ifs are immaterial (prop_gen_c13.go). Not decided: what Initialize() does with the fields."
	c.Assume = []string{"a component's behaviour depends on the configuration only through the conf fields read in its creation block"}
	c.Explain += " reload_applied (go/ssa, prop_r3_c13.go): for every Reload* method Core.closeResources calls, stored: its payload parameter flows (through selects/sends on a struct-field channel, received by the component's run loop, and static calls) into a Store to a field F of the component; no_stale: in every function of the component's package that stores F or calls a function that does, a walk from that point reaches no instruction with an operand derived (data flow from loads of F and from results of functions reading F, through locals) from F, unless a new read of F is passed first. every_path: hops (f, v) = payload parameters of the Reload* methods called by closeResources, values received from a struct-field channel the payload was sent on, parameters of module functions the payload is passed to, and the parameters of every reload* method called by a function of the chain; APPLY(f, v) = stores of v (or of a variable that only names it) into a field of a non-fresh object / a variable declared outside the receiving statement, sends of v, calls passing v to a function where it transitively reaches such an instruction; a walk from the entry of v (function entry / after the receive) to a return (parameters) or to the receiving instruction again (run loops) must execute an APPLY instruction, except on edges where v was compared equal to something."

	// an in-place reload really reloads (prop_r3_c13.go)
	c13ReloadApplied(c, p)
	// ... on every path, at every hop of the chain down to the static source handlers (prop_r4_c13.go)
	c13EveryPathR4(c, p)

	cr, pk := p.FuncDecl("internal/core", "Core", "createResources")
	cl, _ := p.FuncDecl("internal/core", "Core", "closeResources")
	if cr == nil || cl == nil {
		c.Undecided("UNRESOLVED ANCHOR Core.createResources / Core.closeResources")
		return
	}
	c.Analysed("internal/core.Core.createResources")
	c.Analysed("internal/core.Core.closeResources")
	coreT := p.NamedType("internal/core", "Core")
	confT := p.NamedType("internal/conf", "Conf")
	if coreT == nil || confT == nil {
		c.Undecided("UNRESOLVED ANCHOR types core.Core / conf.Conf")
		return
	}
	LC := c13singleDefLocals(pk, cl) // closeResources: names
	LR := c13singleDefLocals(pk, cr) // createResources: names
	isCoreSelIn := func(L *c13locals, e ast.Expr) (string, bool) {
		se, ok := L.resolve(e).(*ast.SelectorExpr)
		if !ok {
			return "", false
		}
		if tv, ok := pk.TypesInfo.Types[se.X]; ok && namedOf(tv.Type) == coreT {
			if sel, ok := pk.TypesInfo.Selections[se]; ok && sel.Kind() == types.FieldVal {
				return se.Sel.Name, true
			}
		}
		return "", false
	}
	// The two configurations are told apart by ROLE, not by name: the NEW
	// configuration is the *conf.Conf parameter of closeResources; every other
	// expression of type *conf.Conf (a local loaded from p.conf, the load itself)
	// is the CURRENT one.
	var newObj types.Object
	if cl.Type.Params != nil {
		for _, f := range cl.Type.Params.List {
			for _, id := range f.Names {
				if o := pk.TypesInfo.Defs[id]; o != nil && namedOf(o.Type()) == confT {
					newObj = o
				}
			}
		}
	}
	if newObj == nil {
		c.Undecided("UNRESOLVED ANCHOR Core.closeResources has no *conf.Conf parameter (the new configuration)")
		return
	}
	const (
		roleNew = "newConf"
		roleCur = "currentConf"
	)
	confSelIn := func(L *c13locals, e ast.Expr) (field, role string, ok bool) {
		se, isSel := L.resolve(e).(*ast.SelectorExpr)
		if !isSel {
			return "", "", false
		}
		tv, has := pk.TypesInfo.Types[se.X]
		if !has || namedOf(tv.Type) != confT {
			return "", "", false
		}
		if sel, has := pk.TypesInfo.Selections[se]; !has || sel.Kind() != types.FieldVal {
			return "", "", false
		}
		if o := L.objOf(se.X); o != nil && o == newObj {
			return se.Sel.Name, roleNew, true
		}
		return se.Sel.Name, roleCur, true
	}
	isConfSel := func(e ast.Expr, role string) (string, bool) {
		if f, r, ok := confSelIn(LC, e); ok && r == role {
			return f, true
		}
		return "", false
	}

	// ---------- closeResources: close blocks  (p.x = nil under a close flag)
	// A close FLAG is a name whose definition is a disjunction (or a single
	// comparison) and that guards a `p.x = nil`; a name defined as a conjunction,
	// a negation or another name is only an abbreviation and is looked through.
	flagShaped := func(_ types.Object, d ast.Expr) bool {
		switch x := unparen(d).(type) {
		case *ast.Ident, *ast.UnaryExpr:
			return false
		case *ast.BinaryExpr:
			return x.Op != token.LAND
		}
		return true
	}
	compFlag := map[string]string{}
	flagObj := map[types.Object]string{}
	flagDef := map[string]ast.Expr{}
	flagPos := map[string]token.Pos{}
	closePos := map[string]token.Pos{}   // last close block of a component
	firstClose := map[string]token.Pos{} // first close block of a component
	LC.walk(cl.Body.List, nil, flagShaped, func(st ast.Stmt, conds []c13lit) {
		x, ok := st.(*ast.AssignStmt)
		if !ok || len(x.Lhs) != 1 || len(x.Rhs) != 1 || !c13isNil(pk, x.Rhs[0]) {
			return
		}
		f, ok := isCoreSelIn(LC, x.Lhs[0])
		if !ok {
			return
		}
		for _, cd := range conds {
			if cd.neg {
				continue
			}
			o, d := LC.defOf(cd.e)
			if d == nil {
				continue
			}
			compFlag[f] = o.Name()
			flagObj[o] = o.Name()
			flagDef[o.Name()] = d
			flagPos[o.Name()] = o.Pos()
			closePos[f] = x.Pos()
			if q, ok := firstClose[f]; !ok || x.Pos() < q {
				firstClose[f] = x.Pos()
			}
		}
	})
	isFlag := func(o types.Object, _ ast.Expr) bool { return flagObj[o] != "" }

	// ---------- closeResources: flags
	flags := map[string]*c13flag{}
	var flagOrder []string
	for name := range flagDef {
		flagOrder = append(flagOrder, name)
	}
	sort.Slice(flagOrder, func(i, j int) bool { return flagPos[flagOrder[i]] < flagPos[flagOrder[j]] })
	for _, name := range flagOrder {
		fl := &c13flag{name: name, cmp: map[string]token.Pos{}, derived: map[string]bool{}, hot: map[string]bool{}, pos: flagPos[name]}
		for _, d := range LC.lits(flagDef[name], token.LOR, false, isFlag) {
			c13disjunct(pk, LC, d, fl, newObj, flagObj, isConfSel)
		}
		flags[name] = fl
	}
	c.Floor("C13.flags", len(flags), 16)
	// hot reload: a call handing newConf.F to a component, running only when the
	// component's flag is false and F differs (merged or nested guards, named or not)
	type c13foreign struct {
		owner, other, field string
		pos                 token.Pos
	}
	var hotForeign []c13foreign
	LC.walk(cl.Body.List, nil, isFlag, func(st ast.Stmt, conds []c13lit) {
		var under []*c13flag
		differs := &c13flag{cmp: map[string]token.Pos{}, derived: map[string]bool{}, hot: map[string]bool{}}
		for _, cd := range conds {
			if o, _ := LC.defOf(cd.e); o != nil && cd.neg && flagObj[o] != "" {
				under = append(under, flags[flagObj[o]])
				continue
			}
			c13disjunct(pk, LC, cd, differs, newObj, flagObj, isConfSel)
		}
		if len(under) == 0 {
			return
		}
		ast.Inspect(st, func(n ast.Node) bool {
			call, ok := n.(*ast.CallExpr)
			if !ok {
				return true
			}
			// the component the payload is handed to: p.<comp>.Reload*(...)
			owner := ""
			if se, ok := call.Fun.(*ast.SelectorExpr); ok {
				if rs, ok := ast.Unparen(se.X).(*ast.SelectorExpr); ok && compFlag[rs.Sel.Name] != "" {
					owner = compFlag[rs.Sel.Name]
				}
			}
			for _, a := range call.Args {
				if f, ok := isConfSel(a, roleNew); ok {
					// the guard must compare the same field so the reload fires on every change
					if _, has := differs.cmp[f]; has {
						for _, fl := range under {
							if owner != "" && fl.name != owner {
								continue
							}
							fl.hot[f] = true
						}
						if owner != "" {
							// the reload of component X may depend on !closeX only: another
							// component's negated flag G in the guard loses the reload whenever G
							// holds and closeX does not - unless closeX includes G (then !closeX
							// already implies !G)
							for _, fl := range under {
								if fl.name != owner {
									hotForeign = append(hotForeign, c13foreign{owner, fl.name, f, call.Pos()})
								}
							}
						}
					}
				}
			}
			return true
		})
	})

	// ---------- createResources: components
	comps := map[string]*c13comp{}
	var compOrder []string
	var recvObj types.Object
	if cr.Recv != nil && len(cr.Recv.List) == 1 && len(cr.Recv.List[0].Names) == 1 {
		recvObj = pk.TypesInfo.Defs[cr.Recv.List[0].Names[0]]
	}
	var walkCreate func(stmts []ast.Stmt, outer []ast.Expr)
	walkCreate = func(stmts []ast.Stmt, outer []ast.Expr) {
		for _, st := range stmts {
			if b, ok := st.(*ast.BlockStmt); ok {
				walkCreate(b.List, outer)
				continue
			}
			ifs, ok := st.(*ast.IfStmt)
			if !ok {
				continue
			}
			// which component does this if create?  `p.X == nil` among the conjuncts
			var comp string
			for _, cj := range LR.lits(ifs.Cond, token.LAND, false, nil) {
				if x, y, differ, ok := c13eqParts(cj); ok && !differ {
					if c13isNil(pk, x) {
						x, y = y, x
					}
					if c13isNil(pk, y) {
						if f, ok := isCoreSelIn(LR, x); ok {
							comp = f
						}
					}
				}
			}
			// the block must assign p.comp
			assigns := false
			if comp != "" {
				ast.Inspect(ifs.Body, func(n ast.Node) bool {
					if as, ok := n.(*ast.AssignStmt); ok {
						for _, l := range as.Lhs {
							if f, ok := isCoreSelIn(LR, l); ok && f == comp {
								assigns = true
							}
						}
					}
					return true
				})
			}
			if !assigns {
				// `if initial { ... }`, or one half of a guard that was split in two
				// nested ifs: the component blocks inside inherit this condition
				in := append(append([]ast.Expr{}, outer...), ifs.Cond)
				walkCreate(ifs.Body.List, in)
				if ifs.Else != nil {
					walkCreate([]ast.Stmt{ifs.Else}, in)
				}
				continue
			}
			cm := &c13comp{field: comp, use: map[string]token.Pos{}, deps: map[string]bool{}, createAt: ifs.Pos()}
			visit := func(n ast.Node) bool {
				switch x := n.(type) {
				case *ast.SelectorExpr:
					if f, _, ok := confSelIn(LR, x); ok {
						if _, dup := cm.use[f]; !dup {
							cm.use[f] = x.Pos()
						}
					}
					if f, ok := isCoreSelIn(LR, x); ok && f != comp {
						cm.deps[f] = true
					}
				case *ast.KeyValueExpr:
					// the component is handed the Core itself (its log parent)
					if o := LR.objOf(x.Value); o != nil && o == recvObj {
						cm.parentP = true
					}
				}
				return true
			}
			LR.inspect(ifs, visit)
			for _, oc := range outer {
				LR.inspect(oc, visit)
			}
			comps[comp] = cm
			compOrder = append(compOrder, comp)
		}
	}
	walkCreate(cr.Body.List, nil)
	c.Floor("C13.components", len(comps), 16)

	// closure of INC
	var closure func(f string, seen map[string]bool)
	closure = func(f string, seen map[string]bool) {
		if seen[f] || flags[f] == nil {
			return
		}
		seen[f] = true
		for _, i := range flags[f].inc {
			closure(i, seen)
		}
	}
	flagOfComp := func(comp string) string { return compFlag[comp] }
	for _, hf := range hotForeign {
		seen := map[string]bool{}
		closure(hf.owner, seen)
		c.Check("C13.hot_guard", "in-place reload of conf."+hf.field+" under !"+hf.owner+" is also guarded by !"+hf.other+" ⇒ "+hf.owner+" includes "+hf.other, seen[hf.other], p.Pos(hf.pos),
			"when "+hf.other+" holds and "+hf.owner+" does not (a reload that changes conf."+hf.field+" together with a parameter that recreates only the other component) the component is neither recreated nor reloaded and keeps the old conf."+hf.field)
	}

	for _, comp := range compOrder {
		cm := comps[comp]
		fl := flagOfComp(comp)
		if fl == "" {
			c.Check("C13.close_block", comp+": a close block `if closeX && p."+comp+" != nil { ...; p."+comp+" = nil }` exists in closeResources", false, p.Pos(cm.createAt), "component is created but never closed on reload")
			continue
		}
		c.Check("C13.close_block", comp+": closed under "+fl, true, p.Pos(closePos[comp]), "")
		cm.flag = fl
		cm.closeAt = closePos[comp]
		seen := map[string]bool{}
		closure(fl, seen)
		// clause 1: USE ⊆ CMP* ∪ HOT
		var fields []string
		for f := range cm.use {
			fields = append(fields, f)
		}
		sort.Strings(fields)
		for _, f := range fields {
			covered := ""
			for g := range seen {
				if _, ok := flags[g].cmp[f]; ok {
					covered = "compared in " + g
					break
				}
			}
			if covered == "" && flags[fl].hot[f] {
				covered = "hot-reloaded under !" + fl
			}
			c.Check("C13.use_covered", comp+" uses conf."+f+" ⇒ compared in "+fl+" (or its closure) or hot-reloaded", covered != "", p.Pos(cm.use[f]), covered)
		}
		// dependencies
		var deps []string
		for d := range cm.deps {
			if compFlag[d] != "" { // only reloadable components
				deps = append(deps, d)
			}
		}
		if cm.parentP {
			deps = append(deps, "logger")
		}
		sort.Strings(deps)
		for _, d := range deps {
			df := compFlag[d]
			c.Check("C13.dep_covered", comp+" references p."+d+" ⇒ "+fl+" includes "+df, seen[df], p.Pos(cm.createAt), "")
			if d == "logger" {
				continue
			}
			// dependants are closed before, and created after, what they reference
			c.Check("C13.close_order", comp+" is closed before its dependency "+d, closePos[comp] < firstClose[d], p.Pos(closePos[comp]), "")
			if dc := comps[d]; dc != nil {
				c.Check("C13.create_order", comp+" is created after its dependency "+d, dc.createAt < cm.createAt, p.Pos(cm.createAt), "")
			}
		}
	}

	// per flag
	for _, name := range flagOrder {
		fl := flags[name]
		c.Check("C13.closes_on_shutdown", name+" contains newConf == nil", fl.hasNil, p.Pos(fl.pos), "")
		for _, o := range fl.other {
			c.Check("C13.flag_shape", name+": disjunct `"+o+"` is a recognised comparison", false, p.Pos(fl.pos), "accepted: newConf == nil, newConf.F != currentConf.F, !reflect.DeepEqual/!slices.Equal(newConf.F, currentConf.F), f(newConf.F) != f(currentConf.F), closeY")
		}
		for _, i := range fl.inc {
			c.Check("C13.flag_shape", name+": or-ed flag "+i+" is defined before use", flags[i] != nil && flags[i].pos < fl.pos, p.Pos(fl.pos), "")
		}
		// clause 2a: pointer identity
		for _, f := range fl.ptrCmp {
			c.Check("C13.no_pointer_identity", name+" compares pointer-typed conf."+f+" with !=", false, p.Pos(fl.cmp[f]), "a pointer differs after every Load/Clone: the component restarts on every reload although the value is unchanged")
		}
		// clause 2b: CMP ⊆ USE of the component(s) closed by this flag
		var users []string
		for comp, f := range compFlag {
			if f == name && comps[comp] != nil {
				users = append(users, comp)
			}
		}
		sort.Strings(users)
		var cf []string
		for f := range fl.cmp {
			cf = append(cf, f)
		}
		sort.Strings(cf)
		for _, f := range cf {
			used := len(users) == 0
			for _, u := range users {
				if _, ok := comps[u].use[f]; ok {
					used = true
				}
			}
			c.Check("C13.compare_used", name+" compares conf."+f+" ⇒ used by "+strings.Join(users, "/"), used, p.Pos(fl.cmp[f]), "a compared but unused parameter restarts the component (and disconnects its clients) for no reason")
		}
	}
}

// c13disjunct classifies one literal of a close predicate ("the component must be
// closed when ..."). Operand order, `!(a == b)` for `a != b` and names are
// immaterial (see prop_gen_c13.go).
func c13disjunct(pk *packages.Package, L *c13locals, d c13lit, fl *c13flag, newObj types.Object, flagObj map[types.Object]string, isConfSel func(ast.Expr, string) (string, bool)) {
	if o, _ := L.defOf(d.e); o != nil && flagObj[o] != "" && !d.neg {
		fl.inc = append(fl.inc, flagObj[o])
		return
	}
	// the same field of the two configurations, in either order
	pair := func(a, b ast.Expr) (string, bool) {
		fa, oka := isConfSel(a, "newConf")
		fb, okb := isConfSel(b, "currentConf")
		if !(oka && okb) {
			fa, oka = isConfSel(b, "newConf")
			fb, okb = isConfSel(a, "currentConf")
		}
		return fa, oka && okb && fa == fb
	}
	if x, y, differ, ok := c13eqParts(d); ok {
		if c13isNil(pk, x) {
			x, y = y, x
		}
		if c13isNil(pk, y) && !differ {
			if o := L.objOf(x); o != nil && o == newObj {
				fl.hasNil = true
				return
			}
		}
		if differ {
			if f, ok := pair(x, y); ok {
				fl.cmp[f] = d.e.Pos()
				if tv, ok := pk.TypesInfo.Types[L.resolve(x)]; ok {
					if _, isPtr := tv.Type.Underlying().(*types.Pointer); isPtr {
						fl.ptrCmp = append(fl.ptrCmp, f)
					}
				}
				return
			}
			// f(newConf.F) != f(currentConf.F)
			ca, oka := L.resolve(x).(*ast.CallExpr)
			cb, okb := L.resolve(y).(*ast.CallExpr)
			if oka && okb && len(ca.Args) == 1 && len(cb.Args) == 1 && exprStr(ca.Fun) == exprStr(cb.Fun) {
				if f, ok := pair(ca.Args[0], cb.Args[0]); ok {
					fl.derived[f] = true
					return
				}
			}
		}
	}
	if call, ok := L.resolve(d.e).(*ast.CallExpr); ok && d.neg && len(call.Args) == 2 {
		switch objFullName(calleeObj(pk, call)) {
		case "reflect.DeepEqual", "slices.Equal", "maps.Equal", "bytes.Equal":
			if f, ok := pair(call.Args[0], call.Args[1]); ok {
				fl.cmp[f] = call.Pos()
				return
			}
		}
	}
	fl.other = append(fl.other, d.String())
}
