package main

import (
	"fmt"
	"go/token"
	"sort"

	"golang.org/x/tools/go/ssa"
)

// C30 - retention deletes only expired segments of the right path.

func init() {
	register(Property{ID: "C30", Level: "other", Run: runC30,
		Technique: "static analysis: who-may-mutate-the-filesystem over the static call closure of recordcleaner.(*Cleaner).run, must-pass-through path conditions and argument binding on processPath / deleteExpiredSegments / deleteEmptyDirs / recordstore.FindSegments / FindAllPathsWithSegments (go/ssa), shared anchoring obligation of Path.Decode",
		Text:      "Decides: (1) the only filesystem-mutating calls reachable from the cleaner's goroutine are os.Remove(seg.Fpath) in deleteExpiredSegments and os.Remove(dir) under info.IsDir() in deleteEmptyDirs; (2) the removed file is the Fpath of an element of FindSegments(pathConf, pathName, nil, &end) with end = now - pathConf.RecordDeleteAfter of the same pathConf, reached only when FindPathConf(c.PathConfs, pathName) succeeded and RecordDeleteAfter != 0; (3) FindSegments appends a file only if it is not a directory, Path.Decode accepted its name against the format built from that configuration and name, and end == nil or !end.Before(start); it never trims the list when no start filter is given; (4) every path of every configuration is enumerated (fixed: Decode hit; regexp: Decode hit, valid name, regexp match), every enumerated path is processed on every pass with the current time and no result aborts the pass; every listed segment is removed; (5) Decode is anchored (shared with C26); (6) every directory walk in the cleaner's closure (path enumeration, segment listing, empty-directory sweep) is complete: its callback returns only nil or the walk's own error - never fs.SkipDir / fs.SkipAll / another error, which would hide the remaining entries of a directory (sibling segments, nested paths) from the cleaner - a sentinel being allowed only in a yes/no probe whose caller recognises it with errors.Is. Not decided: os.Remove failures, clock behaviour, value-level time comparison.",
		Note:      "trusted: go/ssa, path/filepath.WalkDir, os.Remove (fails on non-empty directories), conf.FindPathConf (C14)"})
	addMutants(
		Mutant{"C30", "delete-after-zero-not-skipped", "internal/recordcleaner/cleaner.go",
			"	if pathConf.RecordDeleteAfter == 0 {\n		return nil\n	}\n", "", "C30.process_path"},
		Mutant{"C30", "end-nil", "internal/recordcleaner/cleaner.go",
			"	segments, err := recordstore.FindSegments(pathConf, pathName, nil, &end)\n", "	_ = end\n	segments, err := recordstore.FindSegments(pathConf, pathName, nil, nil)\n", "C30.expired_only"},
		Mutant{"C30", "isdir-test-removed", "internal/recordcleaner/cleaner.go",
			"		if info.IsDir() {\n			os.Remove(fpath)\n		}\n", "		os.Remove(fpath)\n		_ = info\n", "C30.dir_remove"},
		Mutant{"C30", "end-sign-flipped", "internal/recordcleaner/cleaner.go",
			"end := now.Add(-time.Duration(pathConf.RecordDeleteAfter))", "end := now.Add(time.Duration(pathConf.RecordDeleteAfter))", "C30.expired_only"},
		Mutant{"C30", "filter-inverted", "internal/recordstore/segment.go",
			"if ok && (end == nil || !end.Before(pa.Start)) {", "if ok && (end == nil || end.Before(pa.Start)) {", "C30.find_segments"},
		Mutant{"C30", "decode-result-ignored", "internal/recordstore/segment.go",
			"if ok && (end == nil || !end.Before(pa.Start)) {", "if end == nil || !end.Before(pa.Start) {\n				_ = ok", "C30.find_segments"},
		Mutant{"C30", "removeall-common-path", "internal/recordcleaner/cleaner.go",
			"	c.deleteEmptyDirs(pathConf)\n\n	return nil", "	c.deleteEmptyDirs(pathConf)\n	os.RemoveAll(recordstore.CommonPath(pathConf.RecordPath))\n\n	return nil", "C30.remove_sites"},
		Mutant{"C30", "other-conf-delay", "internal/recordcleaner/cleaner.go",
			"	err = c.deleteExpiredSegments(now, pathName, pathConf)", "	err = c.deleteExpiredSegments(now, pathConf.Name, pathConf)", "C30.process_path"},
		Mutant{"C30", "abort-pass-on-error", "internal/recordcleaner/cleaner.go",
			"		c.processPath(now, pathName) //nolint:errcheck\n", "		if c.processPath(now, pathName) != nil {\n			return\n		}\n", "C30.every_pass"},
		Mutant{"C30", "enumeration-skips-rest-of-dir", "internal/recordstore/segment.go",
			"						ret[pa.Path] = struct{}{}\n", "						ret[pa.Path] = struct{}{}\n						return fs.SkipDir\n", "C30.walk_complete"},
		Mutant{"C30", "listing-stops-at-first-newer-segment", "internal/recordstore/segment.go",
			"			// gather all segments that start before the end of the playback\n", "			if ok && end != nil && end.Before(pa.Start) {\n				return fs.SkipDir\n			}\n", "C30.walk_complete"},
		Mutant{"C30", "enumeration-aborts-on-invalid-name", "internal/recordstore/segment.go",
			"				if err = conf.IsValidPathName(pa.Path); err == nil {\n", "				if err = conf.IsValidPathName(pa.Path); err != nil {\n					return err\n				} else {\n", "C30.walk_complete"},
		Mutant{"C30", "regexp-paths-unvalidated", "internal/recordstore/segment.go",
			"if pathConf.Regexp.FindStringSubmatch(pa.Path) != nil {", "if pathConf.Regexp != nil {", "C30.enumerate"},
	)
}

// fsMutators: os functions that create, change or remove directory entries.
var fsMutators = []string{"os.Remove", "os.RemoveAll", "os.Rename", "os.Truncate", "os.WriteFile", "os.Create", "os.OpenFile",
	"os.Mkdir", "os.MkdirAll", "os.Chmod", "os.Chown", "os.Symlink", "os.Link", "(*os.File).Truncate", "(*os.File).Write", "(*os.File).WriteAt", "(*os.File).WriteString", "(*os.Root).Remove", "(*os.Root).RemoveAll"}

// staticClosure returns the module functions reachable from root through
// static calls, go/defer, closures created and function values referenced.
func staticClosure(root *ssa.Function) []*ssa.Function {
	seen := map[*ssa.Function]bool{root: true}
	q := []*ssa.Function{root}
	for len(q) > 0 {
		f := q[0]
		q = q[1:]
		add := func(g *ssa.Function) {
			if g != nil && !seen[g] && g.Blocks != nil && inModule(g) {
				seen[g] = true
				q = append(q, g)
			}
		}
		eachInstr(f, func(i ssa.Instruction) {
			add(staticCallee(i))
			var ops []*ssa.Value
			for _, op := range i.Operands(ops) {
				if op == nil || *op == nil {
					continue
				}
				switch x := (*op).(type) {
				case *ssa.Function:
					add(x)
				case *ssa.MakeClosure:
					add(x.Fn.(*ssa.Function))
				}
			}
		})
	}
	var out []*ssa.Function
	for f := range seen {
		out = append(out, f)
	}
	sort.Slice(out, func(i, j int) bool { return fnName(out[i]) < fnName(out[j]) })
	return out
}

func runC30(c *Ctx) {
	p := c.Main()
	if p == nil {
		return
	}
	defer dumpObls(c)
	c.Explain = "C30.remove_sites: E2 over the static call closure of (*Cleaner).run (interface calls: logger only): filesystem mutators are exactly {deleteExpiredSegments: os.Remove, deleteEmptyDirs$1: os.Remove}. " +
		"C30.dir_remove: that os.Remove acts on the walked entry, after err == nil and IsDir(). " +
		"C30.expired_only: os.Remove(x.Fpath), x ranging over FindSegments(pathConf, pathName, nil, &end)#0 with end = now.Add(-pathConf.RecordDeleteAfter), after err == nil. " +
		"C30.process_path: deleteExpiredSegments(now, pathName, FindPathConf(c.PathConfs, pathName)#0) only when err == nil and RecordDeleteAfter != 0. " +
		"C30.find_segments: append only under !IsDir, Decode(recordPath, fpath) true, end == nil or !end.Before(pa.Start); Fpath/Start binding; format builder; no trimming without a start filter. " +
		"C30.enumerate: FindAllPathsWithSegments covers every configuration; fixed paths by a Decode hit, regexp paths by Decode hit + valid name + regexp match. " +
		"C30.every_pass: doRun processes every enumerated name with timeNow(), results do not abort the loop, run calls doRun at start and on every tick; every listed segment is removed regardless of earlier results. " +
		"C30.decode_anchored: the C26 anchoring obligation (look-alike names). " +
		"C30.walk_complete: for every filepath.WalkDir/Walk call in the closure of (*Cleaner).run, every value its callback returns (through phis) is nil, the callback's err parameter, or - only when the calling function returns a single bool and passes the walk result to errors.Is(result, G) - the module sentinel G; fs.SkipDir/SkipAll or any other error prunes or stops a collecting walk."
	c.Assume = []string{"os.Remove on a non-empty directory fails without side effect", "conf.FindPathConf resolves the configuration in force for a name (C14)", "filepath.WalkDir visits every entry below the root"}

	run := c.fn(p, "internal/recordcleaner", "Cleaner", "run")
	pp := c.fn(p, "internal/recordcleaner", "Cleaner", "processPath")
	des := c.fn(p, "internal/recordcleaner", "Cleaner", "deleteExpiredSegments")
	ded := c.fn(p, "internal/recordcleaner", "Cleaner", "deleteEmptyDirs$1")
	doRun := c.fn(p, "internal/recordcleaner", "Cleaner", "doRun")
	fs := c.fn(p, "internal/recordstore", "", "FindSegments")
	fs1 := c.fn(p, "internal/recordstore", "", "FindSegments$1")
	fall := c.fn(p, "internal/recordstore", "", "FindAllPathsWithSegments")
	fixed1 := c.fn(p, "internal/recordstore", "", "fixedPathHasSegments$1")
	fixed := c.fn(p, "internal/recordstore", "", "fixedPathHasSegments")
	rex := c.fn(p, "internal/recordstore", "", "regexpPathFindPathsWithSegments")
	rex1 := c.fn(p, "internal/recordstore", "", "regexpPathFindPathsWithSegments$1")
	dec := c.fn(p, "internal/recordstore", "Path", "Decode")
	if run == nil || pp == nil || des == nil || ded == nil || doRun == nil || fs == nil || fs1 == nil || fall == nil || fixed1 == nil || fixed == nil || rex == nil || rex1 == nil || dec == nil {
		return
	}

	// ---------- (1) who may mutate the filesystem
	allowed := map[string]bool{
		fnName(des) + "|os.Remove": true,
		fnName(ded) + "|os.Remove": true,
	}
	nMut := 0
	reach := staticClosure(run)
	hasDes, hasDed := false, false
	for _, f := range reach {
		c.Analysed(fnName(f))
		if f == des {
			hasDes = true
		}
		if f == ded {
			hasDed = true
		}
		eachInstr(f, func(i ssa.Instruction) {
			cc := callCommon(i)
			if cc == nil {
				return
			}
			n := calleeName(cc)
			if !contains(fsMutators, n) {
				return
			}
			nMut++
			c.Check("C30.remove_sites", fnName(f)+": "+n, allowed[fnName(f)+"|"+n], p.Pos(i.Pos()), "filesystem mutation reachable from the cleaner outside the two accounted sites")
		})
	}
	c.Check("C30.remove_sites", "cleaner closure contains deleteExpiredSegments and deleteEmptyDirs$1", hasDes && hasDed, p.Pos(run.Pos()), "")
	c.Floor("C30.remove_sites", nMut, 2)
	c.Count("closure_functions", len(reach))

	// ---------- (6) the walks are complete (prop_r3_c30.go)
	c30WalkComplete(c, p, reach)

	// ---------- dir removal
	for _, i := range callsIn(ded, "os.Remove") {
		ii := i
		isT := func(x ssa.Instruction) bool { return x == ii }
		c.Check("C30.dir_remove", fnName(ded)+": os.Remove acts on the walked entry path", desc(callCommon(i).Args[0]) == "$0", p.Pos(i.Pos()), desc(callCommon(i).Args[0]))
		c.MustPass(p, ded, "C30.dir_remove", "os.Remove(fpath)", isT, T("(io/fs.DirEntry).IsDir($1)"))
		c.MustPass(p, ded, "C30.dir_remove", "os.Remove(fpath)", isT, T("($2 == nil)"))
	}

	// ---------- (2) expired only
	fcs := callsIn(des, "recordstore.FindSegments")
	rms := callsIn(des, "os.Remove")
	if len(fcs) != 1 || len(rms) != 1 {
		c.Undecided("UNRESOLVED ANCHOR deleteExpiredSegments: FindSegments / os.Remove calls")
	} else {
		fc := fcs[0].(*ssa.Call)
		rm := rms[0].(*ssa.Call)
		a := fc.Call.Args
		c.Check("C30.expired_only", fnName(des)+": FindSegments receives the pathConf and pathName parameters", a[0] == ssa.Value(des.Params[3]) && a[1] == ssa.Value(des.Params[2]), p.Pos(fc.Pos()), desc(a[0])+", "+desc(a[1]))
		c.Check("C30.expired_only", fnName(des)+": FindSegments start filter is nil (all segments up to end)", isNilConst(a[2]), p.Pos(fc.Pos()), desc(a[2]))
		endOK := false
		endDesc := desc(a[3])
		if al, ok := a[3].(*ssa.Alloc); ok {
			if sv := singleStore(al); sv != nil {
				endDesc = desc(sv)
				if cl, ok := sv.(*ssa.Call); ok && calleeName(&cl.Call) == "(time.Time).Add" && cl.Call.Args[0] == ssa.Value(des.Params[1]) {
					if neg, ok := stripConv(cl.Call.Args[1]).(*ssa.UnOp); ok && neg.Op == token.SUB {
						if ld, ok := stripConv(neg.X).(*ssa.UnOp); ok && ld.Op == token.MUL {
							if fa, ok := ld.X.(*ssa.FieldAddr); ok && fieldAddrIs(fa, "conf.Path", "RecordDeleteAfter") && fa.X == ssa.Value(des.Params[3]) {
								endOK = true
							}
						}
					}
				}
			}
		}
		c.Check("C30.expired_only", fnName(des)+": FindSegments end filter is &(now.Add(-pathConf.RecordDeleteAfter)) of the same pathConf", endOK, p.Pos(fc.Pos()), "got "+endDesc)
		want := desc(fc) + "#0[_].Fpath"
		c.Check("C30.expired_only", fnName(des)+": os.Remove acts on the Fpath of an element of the FindSegments result", desc(rm.Call.Args[0]) == want, p.Pos(rm.Pos()), "got "+desc(rm.Call.Args[0]))
		c.MustPass(p, des, "C30.expired_only", "os.Remove(seg.Fpath)", func(i ssa.Instruction) bool { return i == ssa.Instruction(rm) }, T("("+desc(fc)+"#1 == nil)"))
		c.Check("C30.every_pass", fnName(des)+": the result of os.Remove does not influence the loop (every listed segment is attempted)", len(*rm.Referrers()) == 0, p.Pos(rm.Pos()), "")
		// the loop ranges over the whole result
		rng := false
		eachInstr(des, func(i ssa.Instruction) {
			if cl, ok := i.(*ssa.Call); ok {
				if b, ok := cl.Call.Value.(*ssa.Builtin); ok && b.Name() == "len" && desc(cl.Call.Args[0]) == desc(fc)+"#0" {
					rng = true
				}
			}
		})
		c.Check("C30.every_pass", fnName(des)+": ranges over the whole FindSegments result", rng && rm.Block().Comment == "rangeindex.body", p.Pos(rm.Pos()), rm.Block().Comment)
	}

	// ---------- process_path
	fpcs := callsIn(pp, "conf.FindPathConf")
	dcs := callsIn(pp, "(*recordcleaner.Cleaner).deleteExpiredSegments")
	if len(fpcs) != 1 || len(dcs) != 1 {
		c.Undecided("UNRESOLVED ANCHOR processPath: FindPathConf / deleteExpiredSegments calls")
	} else {
		fpc := fpcs[0].(*ssa.Call)
		dc := dcs[0].(*ssa.Call)
		isDC := func(i ssa.Instruction) bool { return i == ssa.Instruction(dc) }
		c.Check("C30.process_path", fnName(pp)+": configuration is FindPathConf(c.PathConfs, pathName)", desc(fpc) == "conf.FindPathConf($0.PathConfs, $2)", p.Pos(fpc.Pos()), desc(fpc))
		c.Check("C30.process_path", fnName(pp)+": deleteExpiredSegments(now, pathName, that configuration)", desc(dc) == "(*recordcleaner.Cleaner).deleteExpiredSegments($0, $1, $2, "+desc(fpc)+"#0)", p.Pos(dc.Pos()), desc(dc))
		c.MustPass(p, pp, "C30.process_path", "call deleteExpiredSegments", isDC, T("("+desc(fpc)+"#2 == nil)"))
		c.MustPass(p, pp, "C30.process_path", "call deleteExpiredSegments", isDC, F("("+desc(fpc)+"#0.RecordDeleteAfter == 0)"))
	}

	// ---------- (3) FindSegments
	isAppendStore := func(i ssa.Instruction) bool {
		st, ok := i.(*ssa.Store)
		if !ok {
			return false
		}
		fv, ok := st.Addr.(*ssa.FreeVar)
		return ok && fv.Name() == "segments"
	}
	decAtom := "(*recordstore.Path).Decode(new(recordstore.Path), free:recordPath, $0)"
	c.MustPass(p, fs1, "C30.find_segments", "append to segments", isAppendStore, F("(io/fs.DirEntry).IsDir($1)"))
	c.MustPass(p, fs1, "C30.find_segments", "append to segments", isAppendStore, T(decAtom))
	c.MustPass(p, fs1, "C30.find_segments", "append to segments", isAppendStore, T("(free:end == nil)"), F("(time.Time).Before(free:end, new(recordstore.Path).Start)"))
	c.MustPass(p, fs1, "C30.find_segments", "append to segments", isAppendStore, T("($2 == nil)"))
	// the decoded Path is the one whose Start is compared and stored, the name decoded is the walked entry
	for _, st := range fieldStores(fs1, "recordstore.Segment", "Fpath") {
		c.Check("C30.find_segments", "FindSegments: Segment.Fpath is the walked entry path", desc(st.Val) == "$0", p.Pos(st.Pos()), desc(st.Val))
	}
	for _, i := range callsIn(fs1, "(*recordstore.Path).Decode") {
		cl := i.(*ssa.Call)
		_, fresh := cl.Call.Args[0].(*ssa.Alloc)
		c.Check("C30.find_segments", "FindSegments: Decode(recordPath, fpath) into a fresh Path", fresh && desc(cl.Call.Args[2]) == "$0", p.Pos(cl.Pos()), desc(cl))
		for _, st := range fieldStores(fs1, "recordstore.Segment", "Start") {
			good := false
			if u, ok := st.Val.(*ssa.UnOp); ok {
				if fa, ok := u.X.(*ssa.FieldAddr); ok && fa.X == cl.Call.Args[0] {
					good = true
				}
			}
			c.Check("C30.find_segments", "FindSegments: Segment.Start is the Start of the Path just decoded", good, p.Pos(st.Pos()), desc(st.Val))
		}
	}
	// closure variables: recordPath is Abs(format builder), end is the parameter
	bindOK := map[string]bool{}
	eachInstr(fs, func(i ssa.Instruction) {
		mc, ok := i.(*ssa.MakeClosure)
		if !ok || mc.Fn != ssa.Value(fs1) {
			return
		}
		for k, fv := range fs1.FreeVars {
			b := mc.Bindings[k]
			switch fv.Name() {
			case "end":
				// the parameter (spilled to a cell because it is captured)
				if al, ok := b.(*ssa.Alloc); ok {
					bindOK["end"] = singleStore(al) == ssa.Value(fs.Params[3])
				}
			case "recordPath":
				if al, ok := b.(*ssa.Alloc); ok {
					okAll := true
					n := 0
					for _, r := range *al.Referrers() {
						st, ok := r.(*ssa.Store)
						if !ok || st.Addr != ssa.Value(al) {
							continue
						}
						n++
						v := stripConv(st.Val)
						if ex, ok := v.(*ssa.Extract); ok { // filepath.Abs(recordPath)#0
							if cl, ok := ex.Tuple.(*ssa.Call); !ok || calleeName(&cl.Call) != "path/filepath.Abs" || ex.Index != 0 {
								okAll = false
							}
							continue
						}
						rp, nm, ft, ok := c31FormatBuilder(v)
						if !ok || desc(rp) != "$0.RecordPath" || nm != ssa.Value(fs.Params[1]) || desc(ft) != "$0.RecordFormat" {
							okAll = false
						}
					}
					bindOK["recordPath"] = okAll && n == 2
				}
			}
		}
	})
	c.Check("C30.find_segments", "FindSegments: the closure's end is the end parameter", bindOK["end"], p.Pos(fs.Pos()), "")
	c.Check("C30.find_segments", "FindSegments: the format decoded against is Abs(PathAddExtension(ReplaceAll(pathConf.RecordPath, \"%path\", pathName), pathConf.RecordFormat))", bindOK["recordPath"], p.Pos(fs.Pos()), "")
	// no trimming without a start filter
	nTrim := 0
	eachInstr(fs, func(i ssa.Instruction) {
		st, ok := i.(*ssa.Store)
		if !ok {
			return
		}
		if al, ok := st.Addr.(*ssa.Alloc); ok && typeStr(al.Type()) == "*[]*recordstore.Segment" {
			nTrim++
			ii := i
			c.checkMustPassPred(p, fs, "C30.find_segments", fmt.Sprintf("FindSegments: the segment list is trimmed (%s) only when a start filter is given", trunc(desc(st.Val), 60)),
				func(x ssa.Instruction) bool { return x == ii }, func(l Lit) bool { return !l.Pos && l.Atom == "($2 == nil)" })
		}
	})
	c.Floor("C30.find_segments.trim", nTrim, 2)
	for _, r := range returnsOf(fs) {
		if retNil(1)(r) {
			v := retVal(r, 0)
			u, ok := v.(*ssa.UnOp)
			good := false
			if ok {
				if al, ok := u.X.(*ssa.Alloc); ok && typeStr(al.Type()) == "*[]*recordstore.Segment" {
					good = true
				}
			}
			c.Check("C30.find_segments", "FindSegments: a successful return carries the collected segment list", good, p.Pos(posOf(r, fs)), desc(v))
		}
	}

	// ---------- (4) enumeration and passes
	c.MustPass(p, fixed1, "C30.enumerate", "return errFound", func(i ssa.Instruction) bool {
		r, ok := i.(*ssa.Return)
		return ok && len(r.Results) == 1 && desc(r.Results[0]) == "recordstore.errFound"
	}, T(decAtom))
	isRet := func(i ssa.Instruction) bool { _, ok := i.(*ssa.MapUpdate); return ok }
	c.MustPass(p, rex1, "C30.enumerate", "ret[pa.Path] = {}", isRet, T(decAtom))
	c.MustPass(p, rex1, "C30.enumerate", "ret[pa.Path] = {}", isRet, F("(io/fs.DirEntry).IsDir($1)"))
	c.MustPass(p, rex1, "C30.enumerate", "ret[pa.Path] = {}", isRet, T("(conf.IsValidPathName(new(recordstore.Path).Path) == nil)"))
	c.MustPass(p, rex1, "C30.enumerate", "ret[pa.Path] = {}", isRet, F("((*regexp.Regexp).FindStringSubmatch(free:pathConf.Regexp, new(recordstore.Path).Path) == nil)"))
	eachInstr(rex1, func(i ssa.Instruction) {
		if mu, ok := i.(*ssa.MapUpdate); ok {
			c.Check("C30.enumerate", "regexpPathFindPathsWithSegments: the recorded name is the decoded %path", desc(mu.Key) == "new(recordstore.Path).Path", p.Pos(posOf(i, rex1)), desc(mu.Key))
		}
	})
	// FindAllPathsWithSegments: every configuration goes to one of the two finders, by Regexp == nil
	conf := "next(range($0))#2"
	c.MustPass(p, fall, "C30.enumerate", "call fixedPathHasSegments", callTo("recordstore.fixedPathHasSegments"), T("("+conf+".Regexp == nil)"))
	c.MustPass(p, fall, "C30.enumerate", "call regexpPathFindPathsWithSegments", callTo("recordstore.regexpPathFindPathsWithSegments"), F("("+conf+".Regexp == nil)"))
	for _, n := range []string{"recordstore.fixedPathHasSegments", "recordstore.regexpPathFindPathsWithSegments"} {
		for _, i := range callsIn(fall, n) {
			c.Check("C30.enumerate", "FindAllPathsWithSegments: "+n+" receives the ranged configuration", desc(callCommon(i).Args[0]) == conf, p.Pos(i.Pos()), desc(callCommon(i).Args[0]))
		}
	}
	nMU := 0
	eachInstr(fall, func(i ssa.Instruction) {
		mu, ok := i.(*ssa.MapUpdate)
		if !ok {
			return
		}
		nMU++
		k := desc(mu.Key)
		good := k == conf+".Name" || k == "next(range(recordstore.regexpPathFindPathsWithSegments("+conf+")))#1"
		c.Check("C30.enumerate", "FindAllPathsWithSegments: recorded name "+k, good, p.Pos(posOf(i, fall)), "")
		if k == conf+".Name" {
			ii := i
			c.checkMustPassPred(p, fall, "C30.enumerate", "FindAllPathsWithSegments: a fixed path is listed only when it has a segment",
				func(x ssa.Instruction) bool { return x == ii }, func(l Lit) bool { return l.Pos && l.Atom == "recordstore.fixedPathHasSegments("+conf+")" })
		}
	})
	c.Floor("C30.enumerate.names", nMU, 2)
	// fixedPathHasSegments builds the sibling format with its own name
	for _, b := range []struct {
		fn   *ssa.Function
		name string
	}{{fixed, "$0.Name"}} {
		for _, i := range callsIn(b.fn, "recordstore.PathAddExtension") {
			rp, nm, ft, ok := c31FormatBuilder(i.(ssa.Value))
			c.Check("C30.enumerate", fnName(b.fn)+": format is PathAddExtension(ReplaceAll(pathConf.RecordPath, \"%path\", pathConf.Name), pathConf.RecordFormat)",
				ok && desc(rp) == "$0.RecordPath" && desc(nm) == b.name && desc(ft) == "$0.RecordFormat", p.Pos(i.Pos()), "")
		}
	}
	for _, i := range callsIn(rex, "recordstore.PathAddExtension") {
		c.Check("C30.enumerate", fnName(rex)+": format is PathAddExtension(pathConf.RecordPath, pathConf.RecordFormat) with %path left as a capture group",
			desc(i.(ssa.Value)) == "recordstore.PathAddExtension($0.RecordPath, $0.RecordFormat)", p.Pos(i.Pos()), desc(i.(ssa.Value)))
	}

	// doRun
	pcs := callsIn(doRun, "(*recordcleaner.Cleaner).processPath")
	if len(pcs) != 1 {
		c.Undecided("UNRESOLVED ANCHOR doRun: processPath call")
	} else {
		pc := pcs[0].(*ssa.Call)
		names := "recordstore.FindAllPathsWithSegments($0.PathConfs)"
		nowOK := false
		if cl, ok := pc.Call.Args[1].(*ssa.Call); ok {
			if u, ok := cl.Call.Value.(*ssa.UnOp); ok {
				if g, ok := u.X.(*ssa.Global); ok && g.Name() == "timeNow" {
					nowOK = true
				}
			}
			if calleeName(&cl.Call) == "time.Now" {
				nowOK = true
			}
		}
		c.Check("C30.every_pass", fnName(doRun)+": processPath(now = timeNow(), each name of FindAllPathsWithSegments(c.PathConfs))",
			nowOK && desc(pc.Call.Args[2]) == names+"[_]" && pc.Block().Comment == "rangeindex.body", p.Pos(pc.Pos()), desc(pc))
		c.Check("C30.every_pass", fnName(doRun)+": the result of processPath does not influence the loop", len(*pc.Referrers()) == 0, p.Pos(pc.Pos()), "")
		// timeNow is time.Now
		tn := false
		if sp := p.SSAPkgs[pkgPath("internal/recordcleaner")]; sp != nil {
			if ini := sp.Func("init"); ini != nil {
				for _, fnn := range []*ssa.Function{ini} {
					eachInstr(fnn, func(i ssa.Instruction) {
						if st, ok := i.(*ssa.Store); ok {
							if g, ok := st.Addr.(*ssa.Global); ok && g.Name() == "timeNow" {
								if f, ok := st.Val.(*ssa.Function); ok && funcRefName(f) == "time.Now" {
									tn = true
								}
							}
						}
					})
				}
			}
		}
		stores := 0
		for _, f := range p.ModFuncs() {
			eachInstr(f, func(i ssa.Instruction) {
				if st, ok := i.(*ssa.Store); ok {
					if g, ok := st.Addr.(*ssa.Global); ok && g.Name() == "timeNow" && g.Pkg.Pkg.Path() == pkgPath("internal/recordcleaner") {
						stores++
					}
				}
			})
		}
		c.Check("C30.every_pass", "recordcleaner.timeNow is time.Now and never reassigned", tn && stores == 1, p.Pos(doRun.Pos()), fmt.Sprintf("init=%v stores=%d", tn, stores))
	}
	nDo := len(callsIn(run, "(*recordcleaner.Cleaner).doRun"))
	c.Check("C30.every_pass", fnName(run)+": doRun at start and on every timer tick", nDo >= 2, p.Pos(run.Pos()), fmt.Sprint(nDo))
	for _, i := range callsIn(run, "(*recordcleaner.Cleaner).doRun") {
		if i.Block().Comment == "select.body" {
			c.Check("C30.every_pass", fnName(run)+": the tick case waits time.After(c.cleanInterval())", len(callsIn(run, "time.After")) == 1 && desc(callsIn(run, "time.After")[0].(ssa.Value)) == "time.After((*recordcleaner.Cleaner).cleanInterval($0))", p.Pos(i.Pos()), "")
		}
	}

	// ---------- (5) shared anchoring obligation
	mcs := callsIn(dec, "regexp.MustCompile")
	if len(mcs) != 1 {
		c.Undecided("UNRESOLVED ANCHOR Path.Decode: regexp.MustCompile")
	} else {
		anch, _, _ := decodeAnchoring(dec, mcs[0].(*ssa.Call))
		c.Check("C30.decode_anchored", "Path.Decode: only whole names are recognised as segments (pattern anchored ^...$ or whole match compared)", anch, p.Pos(mcs[0].Pos()),
			"look-alike names (foreign suffix/prefix, nested copies) are listed by FindSegments and removed when expired")
	}
}
