package main

import (
	"go/constant"
	"go/token"
	"go/types"
	"math/big"
	"os"
	"sort"

	"golang.org/x/tools/go/ssa"
)

// C24 (round 3): an elapsed time is scaled once.
//
// Each scaling helper truncates. trunc(a*m/d) - trunc(b*m/d) is not
// trunc((a-b)*m/d): whenever frac(b*m/d) > frac(a*m/d) it is one unit larger.
// A converted difference of two timestamps (elapsed time since a reference,
// duration between two samples) is therefore exact only when the DIFFERENCE is
// handed to the helper - not when both ends are converted (possibly at
// different times, one of them kept in a field) and the results subtracted.
//
//   C24.difference.scaled_once, one obligation per call site of a scaling
//   helper: the (truncated) result of this scaling never meets, as the other
//   operand of a subtraction whose result is DELIVERED (passed, stored,
//   returned, multiplied ... - anything but compared with a bound), a value that
//   is itself the truncated result of a scaling. Values are traced through
//   conversions, phis, locals, wrappers whose returns are scalings, and struct
//   fields all of whose stores in the module are scalings. Scalings by an
//   integral constant ratio (d == 1, or constant m a multiple of constant d) do
//   not truncate and are exempt. A difference that only feeds comparisons
//   (ordering of tracks, drift tolerance in the recorder) delivers nothing and
//   is exempt.
//
// Not covered: sums of two scalings (a base plus a converted offset is two
// conversions of two quantities); operands that arrive through function
// parameters, channels, maps, slices or interfaces (the recorder passes
// already-converted DTS values down as parameters and subtracts them there).

func init() {
	addMutants(
		// the seeded defect: the reference PTS is stored already converted, elapsed = conv(pts) - conv(ref)
		Mutant{"C24", "ntp-elapsed-is-difference-of-two-scalings", "internal/ntpestimator/estimator.go",
			"	computed := e.refNTP.Add(multiplyAndDivide(time.Duration(pts-e.refPTS), time.Second, time.Duration(e.ClockRate)))",
			"	computed := e.refNTP.Add(multiplyAndDivide(time.Duration(pts), time.Second, time.Duration(e.ClockRate)) - multiplyAndDivide(time.Duration(e.refPTS), time.Second, time.Duration(e.ClockRate)))",
			"C24.difference.scaled_once"},
		// same class, other package: the elapsed time of a segment becomes the difference of two converted DTS
		Mutant{"C24", "playback-elapsed-is-difference-of-two-scalings", "internal/playback/segment_fmp4.go",
			"segmentElapsed := durationMp4ToGo(dts-startDTSMP4, timeScale)",
			"segmentElapsed := durationMp4ToGo(dts, timeScale) - durationMp4ToGo(startDTSMP4, timeScale)",
			"C24.difference.scaled_once"},
		// the seed itself as one contiguous replacement (field type + Estimate body): the reference travels through a field
		Mutant{"C24", "ntp-reference-stored-converted", "internal/ntpestimator/estimator.go",
			`	refPTS int64
}

var zero = time.Time{}

// Estimate returns estimated NTP.
func (e *Estimator) Estimate(pts int64) time.Time {
	now := timeNow()

	// do not store monotonic clock, in order to include
	// system clock changes into time differences
	now = now.Round(0)

	if e.refNTP.Equal(zero) {
		e.refNTP = now
		e.refPTS = pts
		return now
	}

	computed := e.refNTP.Add(multiplyAndDivide(time.Duration(pts-e.refPTS), time.Second, time.Duration(e.ClockRate)))

	if computed.After(now) || computed.Before(now.Add(-maxTimeDifference)) {
		e.refNTP = now
		e.refPTS = pts
		return now
	}

	return computed
}
`,
			`	refPTS time.Duration
}

var zero = time.Time{}

// Estimate returns estimated NTP.
func (e *Estimator) Estimate(pts int64) time.Time {
	now := timeNow()

	// do not store monotonic clock, in order to include
	// system clock changes into time differences
	now = now.Round(0)

	// convert the PTS once, the reference is stored in the same unit
	ptsGo := multiplyAndDivide(time.Duration(pts), time.Second, time.Duration(e.ClockRate))

	if e.refNTP.Equal(zero) {
		e.refNTP = now
		e.refPTS = ptsGo
		return now
	}

	computed := e.refNTP.Add(ptsGo - e.refPTS)

	if computed.After(now) || computed.Before(now.Add(-maxTimeDifference)) {
		e.refNTP = now
		e.refPTS = ptsGo
		return now
	}

	return computed
}
`,
			"C24.difference.scaled_once"},
	)
}

type c24FieldKeyR3 struct {
	owner string
	field string
}

type c24ScaleTracerR3 struct {
	p       *Prog
	helpers map[*ssa.Function]*c24Helper
	stores  map[c24FieldKeyR3][]ssa.Value
	memo    map[ssa.Value]*c24OriginR3
	busy    map[ssa.Value]bool
}

// c24OriginR3: the value is, on every way it can be produced, the result of
// one of `calls` (truncating scalings); all=false when some producer is
// anything else.
type c24OriginR3 struct {
	calls []*ssa.Call
	all   bool
}

func newC24ScaleTracerR3(p *Prog, helpers map[*ssa.Function]*c24Helper) *c24ScaleTracerR3 {
	t := &c24ScaleTracerR3{p: p, helpers: helpers, stores: map[c24FieldKeyR3][]ssa.Value{}, memo: map[ssa.Value]*c24OriginR3{}, busy: map[ssa.Value]bool{}}
	for _, fn := range p.ModFuncs() {
		for _, b := range fn.Blocks {
			for _, i := range b.Instrs {
				st, ok := i.(*ssa.Store)
				if !ok {
					continue
				}
				if fa, ok := st.Addr.(*ssa.FieldAddr); ok {
					if k, ok := c24FieldKeyOfR3(fa); ok {
						t.stores[k] = append(t.stores[k], st.Val)
					}
				}
			}
		}
	}
	return t
}

func c24FieldKeyOfR3(fa *ssa.FieldAddr) (c24FieldKeyR3, bool) {
	pt, ok := fa.X.Type().Underlying().(*types.Pointer)
	if !ok {
		return c24FieldKeyR3{}, false
	}
	st, ok := pt.Elem().Underlying().(*types.Struct)
	if !ok {
		return c24FieldKeyR3{}, false
	}
	if _, named := types.Unalias(pt.Elem()).(*types.Named); !named {
		return c24FieldKeyR3{}, false
	}
	return c24FieldKeyR3{typeStr(pt.Elem()), st.Field(fa.Field).Name()}, true
}

// truncating: the scaling performed by this helper call can truncate.
func (t *c24ScaleTracerR3) truncating(cl *ssa.Call, h *c24Helper) bool {
	arg := func(v ssa.Value) ssa.Value {
		if pr, ok := v.(*ssa.Parameter); ok && pr.Parent() == h.fn {
			if k := paramIndex(pr); k >= 0 && k < len(cl.Call.Args) {
				return c24Lossless(cl.Call.Args[k])
			}
		}
		return v
	}
	m, d := arg(h.m), arg(h.d)
	dc, dIsC := constBig(d)
	if !dIsC || dc.Sign() == 0 {
		return true
	}
	if dc.Cmp(big.NewInt(1)) == 0 {
		return false
	}
	mc, mIsC := constBig(m)
	if !mIsC {
		return true
	}
	return new(big.Int).Rem(mc, dc).Sign() != 0
}

func (t *c24ScaleTracerR3) origin(v ssa.Value, depth int) *c24OriginR3 {
	if r, ok := t.memo[v]; ok {
		return r
	}
	if t.busy[v] || depth > 10 {
		return &c24OriginR3{all: true} // a cycle adds no producer
	}
	t.busy[v] = true
	r := t.origin1(v, depth)
	delete(t.busy, v)
	t.memo[v] = r
	return r
}

func (t *c24ScaleTracerR3) union(vs []ssa.Value, depth int) *c24OriginR3 {
	out := &c24OriginR3{all: len(vs) > 0}
	seen := map[*ssa.Call]bool{}
	for _, v := range vs {
		o := t.origin(v, depth+1)
		out.all = out.all && o.all
		for _, c := range o.calls {
			if !seen[c] {
				seen[c] = true
				out.calls = append(out.calls, c)
			}
		}
	}
	return out
}

func (t *c24ScaleTracerR3) origin1(v ssa.Value, depth int) *c24OriginR3 {
	no := &c24OriginR3{}
	switch x := v.(type) {
	case *ssa.Const:
		// the zero value of a field / local before its first store produces no scaling
		if x.Value == nil || (x.Value.Kind() == constant.Int && constant.Sign(x.Value) == 0) {
			return &c24OriginR3{all: true}
		}
		return no
	case *ssa.ChangeType:
		return t.origin(x.X, depth+1)
	case *ssa.Convert:
		if !c24IsInt(x.Type()) || !c24IsInt(x.X.Type()) {
			return no
		}
		return t.origin(x.X, depth+1)
	case *ssa.Phi:
		return t.union(x.Edges, depth)
	case *ssa.Call:
		f := x.Call.StaticCallee()
		if f == nil {
			return no
		}
		if h := t.helpers[f]; h != nil {
			if h.ok && !t.truncating(x, h) {
				return no
			}
			return &c24OriginR3{calls: []*ssa.Call{x}, all: true}
		}
		// a wrapper all of whose returns are scalings
		if inModule(f) && f.Blocks != nil && f.Signature.Results().Len() == 1 && c24IsInt(f.Signature.Results().At(0).Type()) {
			var rs []ssa.Value
			for _, b := range f.Blocks {
				for _, i := range b.Instrs {
					if r, ok := i.(*ssa.Return); ok && len(r.Results) == 1 {
						rs = append(rs, r.Results[0])
					}
				}
			}
			o := t.union(rs, depth)
			if o.all && len(o.calls) > 0 {
				// attribute to the wrapper call as well: the caller sees this site
				return &c24OriginR3{calls: append([]*ssa.Call{x}, o.calls...), all: true}
			}
		}
		return no
	case *ssa.UnOp:
		if x.Op != token.MUL {
			return no
		}
		switch a := x.X.(type) {
		case *ssa.FieldAddr:
			k, ok := c24FieldKeyOfR3(a)
			if !ok || len(t.stores[k]) == 0 {
				return no
			}
			return t.union(t.stores[k], depth)
		case *ssa.Alloc:
			var vs []ssa.Value
			for _, r := range *a.Referrers() {
				switch y := r.(type) {
				case *ssa.Store:
					if y.Addr == ssa.Value(a) {
						vs = append(vs, y.Val)
					} else {
						return no
					}
				case *ssa.UnOp, *ssa.DebugRef:
				default:
					return no // address escapes
				}
			}
			return t.union(vs, depth)
		}
	}
	return no
}

// c24ValueUseR3 follows a value through additive arithmetic, conversions and
// phis; returns "" when every use ends in a comparison, else the first use that
// delivers the value (call argument, store, return, other arithmetic ...).
func c24ValueUseR3(v ssa.Value, seen map[ssa.Value]bool, depth int) string {
	if seen[v] {
		return ""
	}
	seen[v] = true
	refs := v.Referrers()
	if refs == nil {
		return ""
	}
	if depth > 12 {
		return "use chain too deep"
	}
	for _, r := range *refs {
		switch x := r.(type) {
		case *ssa.DebugRef:
		case *ssa.BinOp:
			switch x.Op {
			case token.LSS, token.LEQ, token.GTR, token.GEQ, token.EQL, token.NEQ:
			case token.ADD, token.SUB:
				if s := c24ValueUseR3(x, seen, depth+1); s != "" {
					return s
				}
			default:
				return "operand of " + x.Op.String()
			}
		case *ssa.UnOp:
			if x.Op != token.SUB {
				return "operand of unary " + x.Op.String()
			}
			if s := c24ValueUseR3(x, seen, depth+1); s != "" {
				return s
			}
		case *ssa.Convert:
			if s := c24ValueUseR3(x, seen, depth+1); s != "" {
				return s
			}
		case *ssa.ChangeType:
			if s := c24ValueUseR3(x, seen, depth+1); s != "" {
				return s
			}
		case *ssa.Phi:
			if s := c24ValueUseR3(x, seen, depth+1); s != "" {
				return s
			}
		case *ssa.Call:
			return "argument of " + calleeName(&x.Call)
		case *ssa.Store:
			return "stored to " + c24Short(x.Addr)
		case *ssa.Return:
			return "returned"
		default:
			return "used by " + r.String()
		}
	}
	return ""
}

func c24DifferencesR3(c *Ctx, p *Prog, helpers map[*ssa.Function]*c24Helper) {
	rule := "C24.difference.scaled_once"
	t := newC24ScaleTracerR3(p, helpers)
	bad := map[*ssa.Call]string{}
	for _, fn := range p.ModFuncs() {
		root := fn
		for root.Parent() != nil {
			root = root.Parent()
		}
		if helpers[root] != nil {
			continue
		}
		for _, b := range fn.Blocks {
			for _, i := range b.Instrs {
				sub, ok := i.(*ssa.BinOp)
				if !ok || sub.Op != token.SUB || !c24Is64(p, sub.Type()) {
					continue
				}
				ox, oy := t.origin(sub.X, 0), t.origin(sub.Y, 0)
				if !(ox.all && oy.all && len(ox.calls) > 0 && len(oy.calls) > 0) {
					continue
				}
				sink := c24ValueUseR3(sub, map[ssa.Value]bool{}, 0)
				if os.Getenv("C24_DEBUG") != "" {
					println("C24 diff", fnName(fn), p.Pos(posOf(sub, fn)), c24Short(sub.X), "-", c24Short(sub.Y), "value use:", sink)
				}
				if sink == "" {
					continue // only compared with a bound (ordering / tolerance test): nothing is delivered
				}
				d := fnName(fn) + " at " + p.Pos(posOf(sub, fn)) + " computes " + c24Short(sub.X) + " - " + c24Short(sub.Y) + " and delivers it (" + sink + "): both operands are truncated scalings, the result can be one unit away from the scaling of the tick difference"
				for _, cl := range append(append([]*ssa.Call{}, ox.calls...), oy.calls...) {
					if bad[cl] == "" {
						bad[cl] = d
					}
				}
			}
		}
	}
	// one obligation per scaling call site
	type siteR3 struct {
		cl  *ssa.Call
		key string
	}
	var sites []siteR3
	perKey := map[string]int{}
	var hs []*ssa.Function
	for f := range helpers {
		hs = append(hs, f)
	}
	sort.Slice(hs, func(i, j int) bool { return fnName(hs[i]) < fnName(hs[j]) })
	for _, h := range hs {
		ss := append([]ssa.Instruction{}, p.callerIndex().sites[h]...)
		sort.SliceStable(ss, func(i, j int) bool { return ss[i].Pos() < ss[j].Pos() })
		for _, s := range ss {
			cl, ok := s.(*ssa.Call)
			if !ok {
				continue
			}
			base := fnName(s.Parent()) + " → " + fnName(h)
			perKey[base]++
			sites = append(sites, siteR3{cl, base + " #" + itoa(perKey[base])})
		}
	}
	for _, s := range sites {
		c.Check(rule, s.key+": no delivered value is the difference of this truncated result and another truncated scaling (an elapsed time is scaled once, as a difference of ticks)",
			bad[s.cl] == "", p.Pos(posOf(s.cl, s.cl.Parent())), bad[s.cl])
		delete(bad, s.cl)
	}
	// wrapper call sites that were blamed but are not helper call sites themselves
	var rest []string
	for cl, d := range bad {
		rest = append(rest, fnName(cl.Parent())+" → "+calleeName(&cl.Call)+"\x00"+d+"\x00"+p.Pos(posOf(cl, cl.Parent())))
	}
	sort.Strings(rest)
	seen := map[string]bool{}
	for _, r := range rest {
		parts := splitNulR3c24(r)
		if seen[parts[0]] {
			continue
		}
		seen[parts[0]] = true
		c.Check(rule, parts[0]+": no delivered value is the difference of this truncated result and another truncated scaling", false, parts[2], parts[1])
	}
	c.Floor(rule, len(sites), 40)
}

func splitNulR3c24(s string) [3]string {
	var out [3]string
	k := 0
	for _, r := range s {
		if r == 0 && k < 2 {
			k++
			continue
		}
		out[k] += string(r)
	}
	return out
}
