package main

import (
	"strings"

	"golang.org/x/tools/go/ssa"
)

// C40.lock_released - no function returns while it still holds a mutex it
// acquired.
//
// The lock-order graph (C40.lock_order / lock_reacquire) is built from MUST-held
// sets, so a lock that is leaked on only ONE path (an early `return` inside a
// critical section) is invisible to it - and the self-deadlock then happens in a
// different function (the caller, or the next operation on the object, takes the
// same non-reentrant mutex and blocks forever; every API / metrics / shutdown
// operation that needs the mutex afterwards never completes).
//
// Rule: for every acquisition `X.mu.Lock()` / `X.mu.RLock()` of a struct-field
// mutex in a module function, every CFG path from the acquisition to a return of
// that function - or to another acquisition of the same mutex - executes the
// matching `X.mu.Unlock()` / `X.mu.RUnlock()` (same lock class, same owner
// expression), or a `defer` of it (registered before or after the acquisition),
// or a deferred closure that releases that class. Paths that end in panic are
// not returns.
// Hand-off (hls muxer.initialize -> go m.run()): a `go X.f()` on the same owner
// counts as the release iff every path from the entry of f (following calls of
// methods on the same receiver that touch the mutex) releases it before
// returning or acquiring it again. So an early return added before the Unlock in
// the receiving goroutine is reported at the handing-off acquisition.

func c40UnlockOf(op int) int {
	if op == lkLock {
		return lkUnlock
	}
	return lkRUnlock
}

// c40DeferredOp: the lock operation performed by a `defer` instruction
// (direct `defer x.mu.Unlock()`), or the classes released by a deferred closure.
func c40DeferredReleases(d *ssa.Defer, want int, cls lockClass, owner string) bool {
	if f := d.Call.StaticCallee(); f != nil && len(d.Call.Args) > 0 {
		n := calleeName(&d.Call)
		op := lkNone
		switch n {
		case "(*sync.Mutex).Unlock", "(*sync.RWMutex).Unlock":
			op = lkUnlock
		case "(*sync.RWMutex).RUnlock":
			op = lkRUnlock
		}
		if op != lkNone {
			c2, o2, ok := mutexClassOf(d.Call.Args[0])
			return ok && op == want && c2 == cls && o2 == owner
		}
	}
	// deferred closure: releases the class and does not itself acquire it
	var clo *ssa.Function
	switch x := d.Call.Value.(type) {
	case *ssa.MakeClosure:
		clo, _ = x.Fn.(*ssa.Function)
	case *ssa.Function:
		if x.Parent() != nil {
			clo = x
		}
	}
	if clo == nil {
		return false
	}
	rel, acq := false, false
	eachInstr(clo, func(i ssa.Instruction) {
		op, c2, _ := lockOp(i)
		if c2 != cls {
			return
		}
		switch op {
		case want:
			rel = true
		case lkLock, lkRLock:
			acq = true
		}
	})
	return rel && !acq
}

func c40LockReleased(c *Ctx, p *Prog) {
	n := 0
	for _, fn := range p.ModFuncs() {
		pp := funcPkgPath(fn)
		if !strings.HasPrefix(pp, modPath+"/internal/") || strings.Contains(pp, "/internal/test") || strings.Contains(pp, "teste2e") {
			continue
		}
		var acqs []ssa.Instruction
		eachInstr(fn, func(i ssa.Instruction) {
			if op, _, _ := lockOp(i); op == lkLock || op == lkRLock {
				acqs = append(acqs, i)
			}
		})
		for _, a := range acqs {
			op, cls, owner := lockOp(a)
			want := c40UnlockOf(op)
			n++
			release := func(i ssa.Instruction) bool {
				if d, ok := i.(*ssa.Defer); ok {
					return c40DeferredReleases(d, want, cls, owner)
				}
				if g, ok := i.(*ssa.Go); ok {
					// hand-off: the lock is passed to a goroutine running a method of the
					// same object, which releases it before anything else can need it
					if f := g.Call.StaticCallee(); f != nil && f.Blocks != nil && len(g.Call.Args) > 0 && desc(g.Call.Args[0]) == owner {
						return c40EntryReleases(f, want, cls, 0)
					}
					return false
				}
				o2, c2, w2 := lockOp(i)
				return o2 == want && c2 == cls && w2 == owner
			}
			aa := a
			// a leak is a path that reaches a return, or another acquisition of the same
			// mutex (e.g. `continue` inside the critical section of a loop), without release
			leakPoint := func(i ssa.Instruction) bool {
				if anyReturn(i) {
					return true
				}
				o2, c2, w2 := lockOp(i)
				return c2 == cls && w2 == owner && (o2 == lkLock || (o2 == lkRLock && op == lkLock))
			}
			w := walkTo(after(a), leakPoint, release, nil)
			if w != nil {
				// a matching defer registered on every path before the acquisition
				isDefRel := func(i ssa.Instruction) bool {
					d, ok := i.(*ssa.Defer)
					return ok && c40DeferredReleases(d, want, cls, owner)
				}
				if reachAvoiding(entry(fn), func(i ssa.Instruction) bool { return i == aa }, isDefRel) == nil {
					w = nil
				}
			}
			kind := map[int]string{lkLock: "Lock", lkRLock: "RLock"}[op]
			c.Check("C40.lock_released", fnName(fn)+": "+kind+" of "+string(cls)+" ("+owner+") is released on every path to a return", w == nil, p.Pos(posOf(a, fn)),
				"a return inside the critical section leaks the non-reentrant mutex: the next acquisition (by the caller or by any API/metrics/shutdown operation) blocks forever; "+w.String(p))
		}
	}
	c.Floor("C40.lock_released", n, 100)
}

// c40EntryReleases: every path from the entry of method f (receiver $0) to a
// return, or to another acquisition of the class, first releases the lock of
// class cls held on the receiver (the callee side of a lock hand-off).
func c40EntryReleases(f *ssa.Function, want int, cls lockClass, depth int) bool {
	mentions := func(g *ssa.Function) bool {
		m := false
		eachInstr(g, func(i ssa.Instruction) {
			if op, c2, _ := lockOp(i); op != lkNone && c2 == cls {
				m = true
			}
			if d, ok := i.(*ssa.Defer); ok && c40DeferredReleases(d, want, cls, "$0") {
				m = true
			}
		})
		return m
	}
	w := (&Walker{Visit: func(i ssa.Instruction) int {
		if d, ok := i.(*ssa.Defer); ok && c40DeferredReleases(d, want, cls, "$0") {
			return wStop
		}
		if op, c2, owner := lockOp(i); op != lkNone && c2 == cls {
			if op == want && owner == "$0" {
				return wStop
			}
			if op == lkLock || op == lkRLock {
				return wHit
			}
		}
		if _, ok := i.(*ssa.Return); ok {
			return wHit
		}
		if cl, ok := i.(*ssa.Call); ok {
			if g := cl.Call.StaticCallee(); g != nil && g.Blocks != nil && inModule(g) && len(cl.Call.Args) > 0 && desc(cl.Call.Args[0]) == "$0" && g != f && mentions(g) {
				if depth < 3 && c40EntryReleases(g, want, cls, depth+1) {
					return wStop
				}
				return wHit
			}
		}
		return wContinue
	}}).Run(entry(f))
	return w == nil
}
