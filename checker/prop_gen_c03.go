package main

// Generalisation of two C03 rules that depended on the spelling of the code
// (DESIGN.md section 11, second round):
//
//   - C03.to_auth_request (Action): was "the Action field is the result of the
//     closure ToAuthRequest$1, which returns publish under free:r.Publish and
//     read otherwise". Re-stated over the meaning: evaluated under the
//     assumption `receiver.Publish == true` the Action field of the returned
//     auth.Request can only be "publish", under `receiver.Publish == false`
//     only "read", and no path returns without setting it.
//   - C03.cdn.guard / C03.cdn.definition: were AST shapes (`if s.isCDN {` with
//     the store in the then-branch; a local called isCDN defined by a
//     conjunction whose operands were compared as source text). Re-stated: the
//     SkipAuth store is dominated by an edge on which a boolean field G of the
//     receiver holds, and every value stored into G anywhere in the package
//     is false whenever the secret is not configured and whenever the
//     Authorization header differs from "Bearer "+secret.
//
// Both are decided with the same small engine (aeval): evaluation of SSA
// values and of CFG reachability under an assumption on branch atoms.

import (
	"go/token"
	"go/types"
	"sort"
	"strings"

	"golang.org/x/tools/go/ssa"
)

// aeval evaluates values and reachability under an assumption: truth gives the
// value of some canonical atoms (litOf atoms, positive form). An If whose
// condition is decided by the assumption (directly, or because it is a phi /
// helper result / closure result that evaluates to one boolean constant) has
// one feasible successor only.
//
// Soundness premise (checked by premiseOK): an assumed atom keeps its value
// while the analysed functions run - atoms over parameters/fields are not
// stored to by the analysed functions, atoms over call results are produced
// by one SSA instruction only.
type aeval struct {
	truth   func(atom string) (val, known bool)
	matched map[string][]ssa.Value // atom -> conditions decided by the assumption
	visited map[*ssa.Function]bool
	cache   map[aevalKey]*aReach
	stack   map[ssa.Value]bool
	calls   []*ssa.Function
	// pureCallees: callees (calleeName) whose result depends only on their
	// arguments and cannot change while the analysed functions run (e.g.
	// (reflect.Value).Kind): two calls with equally described pure arguments
	// are the same value.
	pureCallees map[string]bool
}

type aevalKey struct {
	fn   *ssa.Function
	call *ssa.Call // binding of fn's parameters (nil: unbound)
}

type aEdge struct{ from, to *ssa.BasicBlock }

type aReach struct {
	blocks map[*ssa.BasicBlock]bool
	edges  map[aEdge]bool
}

func newAeval(truth func(atom string) (bool, bool)) *aeval {
	return &aeval{truth: truth, matched: map[string][]ssa.Value{}, visited: map[*ssa.Function]bool{},
		cache: map[aevalKey]*aReach{}, stack: map[ssa.Value]bool{}}
}

const aevalCycle = "↺"

func (e *aeval) key(fn *ssa.Function) aevalKey { return aevalKey{fn, descBind[fn]} }

// reach returns the blocks and edges of fn that are feasible under the
// assumption. Phis are evaluated against the previous approximation, starting
// from "every edge is feasible"; the approximations only shrink, each of them
// is an over-approximation, so stopping after a fixed number of rounds is safe.
func (e *aeval) reach(fn *ssa.Function) *aReach {
	k := e.key(fn)
	if r := e.cache[k]; r != nil {
		return r
	}
	e.visited[fn] = true
	all := &aReach{map[*ssa.BasicBlock]bool{}, map[aEdge]bool{}}
	for _, b := range fn.Blocks {
		all.blocks[b] = true
		for _, s := range b.Succs {
			all.edges[aEdge{b, s}] = true
		}
	}
	e.cache[k] = all
	for round := 0; round < 6; round++ {
		prev := e.cache[k]
		next := &aReach{map[*ssa.BasicBlock]bool{}, map[aEdge]bool{}}
		work := []*ssa.BasicBlock{fn.Blocks[0]}
		next.blocks[fn.Blocks[0]] = true
		for len(work) > 0 {
			b := work[0]
			work = work[1:]
			succs := b.Succs
			if ifi := ifOf(b); ifi != nil && len(b.Succs) == 2 {
				if v, known := e.boolOf(ifi.Cond); known {
					if v {
						succs = b.Succs[:1]
					} else {
						succs = b.Succs[1:]
					}
				}
			}
			for _, s := range succs {
				next.edges[aEdge{b, s}] = true
				if !next.blocks[s] {
					next.blocks[s] = true
					work = append(work, s)
				}
			}
		}
		e.cache[k] = next
		if len(next.edges) == len(prev.edges) && len(next.blocks) == len(prev.blocks) {
			break
		}
	}
	return e.cache[k]
}

// boolOf: the value of a boolean under the assumption, when it is decided.
func (e *aeval) boolOf(v ssa.Value) (val, known bool) {
	ls := e.vals(v)
	if len(ls) != 1 {
		return false, false
	}
	switch ls[0] {
	case "true":
		return true, true
	case "false":
		return false, true
	}
	return false, false
}

func isBoolValue(v ssa.Value) bool {
	b, ok := v.Type().Underlying().(*types.Basic)
	return ok && b.Info()&types.IsBoolean != 0
}

// vals returns the canonical descriptions of the values v can take under the
// assumption (sorted, without duplicates).
func (e *aeval) vals(v ssa.Value) []string {
	set := map[string]bool{}
	e.valsInto(v, set)
	return sortedSet(set)
}

func (e *aeval) valsInto(v ssa.Value, out map[string]bool) {
	if v == nil {
		out["<nil>"] = true
		return
	}
	if e.stack[v] {
		out[aevalCycle] = true
		return
	}
	e.stack[v] = true
	defer delete(e.stack, v)

	if _, isC := v.(*ssa.Const); !isC && isBoolValue(v) {
		l := litOf(v, true)
		if t, ok := e.truth(l.Atom); ok {
			e.matched[l.Atom] = append(e.matched[l.Atom], v)
			if t == l.Pos {
				out["true"] = true
			} else {
				out["false"] = true
			}
			return
		}
	}
	switch x := v.(type) {
	case *ssa.Phi:
		r := e.reach(x.Parent())
		b := x.Block()
		for i, ed := range x.Edges {
			if i < len(b.Preds) && r.edges[aEdge{b.Preds[i], b}] {
				e.valsInto(ed, out)
			}
		}
		return
	case *ssa.UnOp:
		switch x.Op {
		case token.NOT:
			for _, s := range e.vals(x.X) {
				switch s {
				case "true":
					out["false"] = true
				case "false":
					out["true"] = true
				default:
					out["!"+s] = true
				}
			}
			return
		case token.MUL:
			if a, ok := x.X.(*ssa.Alloc); ok {
				if sv := singleStore(a); sv != nil {
					e.valsInto(sv, out)
					return
				}
			}
			if fv, ok := x.X.(*ssa.FreeVar); ok {
				if a, ok := bindingOf(fv).(*ssa.Alloc); ok {
					if sv := singleStore(a); sv != nil {
						if _, isParam := sv.(*ssa.Parameter); !isParam && capturedOnce(a) {
							e.inCaller(fv.Parent(), func() { e.valsInto(sv, out) })
							return
						}
					}
				}
			}
		}
	case *ssa.ChangeType:
		e.valsInto(x.X, out)
		return
	case *ssa.Convert:
		e.valsInto(x.X, out)
		return
	case *ssa.MakeInterface:
		e.valsInto(x.X, out)
		return
	case *ssa.ChangeInterface:
		e.valsInto(x.X, out)
		return
	case *ssa.Call:
		if e.callInto(x, 0, out) {
			return
		}
	case *ssa.Extract:
		if c, ok := x.Tuple.(*ssa.Call); ok && e.callInto(c, x.Index, out) {
			return
		}
	case *ssa.Parameter:
		fn := x.Parent()
		k := paramIndex(x)
		if c := descBind[fn]; c != nil && k >= 0 {
			if args := boundArgs(c, fn); k < len(args) {
				e.inCaller(fn, func() { e.valsInto(args[k], out) })
				return
			}
		}
		if isNewHelper(fn) && k >= 0 {
			for _, site := range helperIdx[fn].sites {
				if k < len(site.Call.Args) {
					e.valsInto(site.Call.Args[k], out)
				}
			}
			return
		}
	}
	out[desc(v)] = true
}

// capturedOnce: the variable cell is written once and bound by closures only
// (no other store can change it between the closure's creation and its run).
func capturedOnce(a *ssa.Alloc) bool {
	n := 0
	for _, r := range *a.Referrers() {
		if s, ok := r.(*ssa.Store); ok && s.Addr == ssa.Value(a) {
			n++
		}
	}
	return n == 1
}

func boundArgs(c *ssa.Call, fn *ssa.Function) []ssa.Value {
	return c.Call.Args
}

// inCaller runs f with fn's parameter binding removed (values of the caller
// are described in the caller's own terms), as desc does.
func (e *aeval) inCaller(fn *ssa.Function, f func()) {
	c, had := descBind[fn]
	if had {
		delete(descBind, fn)
	}
	f()
	if had {
		descBind[fn] = c
	}
}

// callInto evaluates result idx of a call whose callee is known and has a body
// in the module (function literal called in place, new helper, or any static
// module function up to depth 3): the union of what the feasible returns give.
func (e *aeval) callInto(c *ssa.Call, idx int, out map[string]bool) bool {
	if c.Call.IsInvoke() {
		return false
	}
	callee := calledClosure(&c.Call)
	if callee == nil || callee.Blocks == nil || !inModule(callee) || len(e.calls) >= 3 {
		return false
	}
	if callee.Parent() == nil && !isNewHelper(callee) {
		return false // a baseline function: an opaque call, described by name
	}
	for _, f := range e.calls {
		if f == callee {
			return false
		}
	}
	if callee.Signature.Results().Len() <= idx {
		return false
	}
	prev, had := descBind[callee]
	descBind[callee] = c
	e.calls = append(e.calls, callee)
	r := e.reach(callee)
	n := 0
	for _, b := range callee.Blocks {
		if !r.blocks[b] || len(b.Instrs) == 0 {
			continue
		}
		if ret, ok := b.Instrs[len(b.Instrs)-1].(*ssa.Return); ok && idx < len(ret.Results) {
			n++
			e.valsInto(retVal(ret, idx), out)
		}
	}
	e.calls = e.calls[:len(e.calls)-1]
	if had {
		descBind[callee] = prev
	} else {
		delete(descBind, callee)
	}
	return n > 0
}

// premiseOK checks that the assumed atoms are stable over the analysed
// functions; why names the first violation.
func (e *aeval) premiseOK() (ok bool, why string) {
	var atoms []string
	for a := range e.matched {
		atoms = append(atoms, a)
	}
	sort.Strings(atoms)
	for _, a := range atoms {
		conds := e.matched[a]
		fields := map[*types.Var]bool{}
		pure := true
		for _, cv := range conds {
			if !e.pureCondA(cv, 0, fields) {
				pure = false
			}
		}
		if !pure {
			// call results etc.: one producing instruction only
			for _, cv := range conds[1:] {
				if condCore(cv) != condCore(conds[0]) {
					return false, "atom " + a + " is computed by several instructions (not necessarily equal)"
				}
			}
			continue
		}
		for fn := range e.visited {
			bad := ""
			for _, b := range fn.Blocks {
				for _, ins := range b.Instrs {
					st, isSt := ins.(*ssa.Store)
					if !isSt {
						continue
					}
					if fa, isFa := st.Addr.(*ssa.FieldAddr); isFa && fields[fieldVarOf(fa)] {
						bad = "field " + fieldVarOf(fa).Name() + " read by atom " + a + " is written in " + fnName(fn)
					}
				}
			}
			if bad != "" {
				return false, bad
			}
		}
	}
	return true, ""
}

// condCore strips negations.
func condCore(v ssa.Value) ssa.Value {
	for {
		u, ok := v.(*ssa.UnOp)
		if !ok || u.Op != token.NOT {
			return v
		}
		v = u.X
	}
}

func fieldVarOf(fa *ssa.FieldAddr) *types.Var {
	return fa.X.Type().Underlying().(*types.Pointer).Elem().Underlying().(*types.Struct).Field(fa.Field)
}

// pureCondA is pureCond that additionally accepts captured variables and
// collects the struct fields the condition reads.
func (e *aeval) pureCondA(v ssa.Value, depth int, fields map[*types.Var]bool) bool {
	if depth > 12 {
		return false
	}
	switch x := v.(type) {
	case *ssa.Parameter, *ssa.Const, *ssa.Global, *ssa.FreeVar:
		return true
	case *ssa.FieldAddr:
		fields[fieldVarOf(x)] = true
		return e.pureCondA(x.X, depth+1, fields)
	case *ssa.Field:
		fields[x.X.Type().Underlying().(*types.Struct).Field(x.Field)] = true
		return e.pureCondA(x.X, depth+1, fields)
	case *ssa.UnOp:
		if x.Op == token.MUL {
			if a, ok := x.X.(*ssa.Alloc); ok {
				if sv := singleStore(a); sv != nil {
					return e.pureCondA(sv, depth+1, fields)
				}
				return false
			}
		}
		return x.Op != token.ARROW && e.pureCondA(x.X, depth+1, fields)
	case *ssa.BinOp:
		return e.pureCondA(x.X, depth+1, fields) && e.pureCondA(x.Y, depth+1, fields)
	case *ssa.Convert:
		return e.pureCondA(x.X, depth+1, fields)
	case *ssa.ChangeType:
		return e.pureCondA(x.X, depth+1, fields)
	case *ssa.Call:
		if x.Call.IsInvoke() || !e.pureCallees[calleeName(&x.Call)] {
			return false
		}
		for _, a := range x.Call.Args {
			if !e.pureCondA(a, depth+1, fields) {
				return false
			}
		}
		return true
	}
	return false
}

// ---------------------------------------------------------------------------
// C03.to_auth_request: the Action field
// ---------------------------------------------------------------------------

// c03Action decides "auth.Request.Action is publish exactly when the access
// request has Publish set". Tolerated spellings of the choice: a function
// literal called in place, a local assigned in an if/else or a switch, an
// extracted function or method taking the flag or the request, two literals
// behind an early return, a default that is overwritten on the other branch.
func (c *Ctx) c03Action(p *Prog, ta *ssa.Function) {
	const rule = "C03.to_auth_request"
	if len(ta.Params) == 0 {
		c.Undecided("UNRESOLVED ANCHOR ToAuthRequest receiver")
		return
	}
	recv := ta.Params[0].Name()
	isAction := func(i ssa.Instruction) bool {
		st, ok := i.(*ssa.Store)
		if !ok {
			return false
		}
		fa, ok := st.Addr.(*ssa.FieldAddr)
		return ok && fieldAddrIs(fa, "auth.Request", "Action")
	}
	var stores []*ssa.Store
	eachInstr(ta, func(i ssa.Instruction) {
		if isAction(i) {
			stores = append(stores, i.(*ssa.Store))
		}
	})
	// a call to a new helper that (transitively) sets the field counts as setting it
	setsAction := func(i ssa.Instruction) bool {
		if isAction(i) {
			return true
		}
		h := newHelperCallee(i)
		if h == nil {
			return false
		}
		found := false
		eachInstrDeep(h, func(j ssa.Instruction) {
			if isAction(j) {
				found = true
			}
		}, map[*ssa.Function]bool{}, 1, false)
		return found
	}
	for _, flag := range []bool{true, false} {
		want, when := `"read"`, "!$0.Publish"
		if flag {
			want, when = `"publish"`, "$0.Publish"
		}
		ev := newAeval(func(atom string) (bool, bool) {
			if atom == "$0.Publish" || atom == "free:"+recv+".Publish" {
				return flag, true
			}
			return false, false
		})
		got := map[string]bool{}
		for _, st := range stores {
			fn := st.Parent()
			r := ev.reach(fn)
			if !r.blocks[st.Block()] {
				continue
			}
			// overwritten before any return: not the value of the result
			if fn == ta && !ev.reachesReturn(after(st), r, setsAction) {
				continue
			}
			ev.valsInto(st.Val, got)
		}
		unset := ev.reachesReturn(entry(ta), ev.reach(ta), setsAction)
		ds := sortedSet(got)
		ok := len(ds) == 1 && ds[0] == want && !unset
		detail := "got " + joinS(ds)
		if unset {
			detail += "; a return is reachable without setting Action"
		}
		c.Check(rule, "PathAccessRequest.ToAuthRequest: auth.Request.Action ← "+want+" when "+when, ok, p.Pos(ta.Pos()), detail)
		pok, why := ev.premiseOK()
		c.Check(rule, "PathAccessRequest.ToAuthRequest: the Publish flag is not changed while the request is converted ("+when+")", pok, p.Pos(ta.Pos()), why)
	}
}

// reachesReturn: following feasible edges only, can a Return be reached from
// the point without executing an instruction satisfying stop?
func (e *aeval) reachesReturn(from Point, r *aReach, stop func(ssa.Instruction) bool) bool {
	type st struct {
		b *ssa.BasicBlock
		i int
	}
	seen := map[*ssa.BasicBlock]bool{}
	work := []st{{from.B, from.I}}
	for len(work) > 0 {
		cur := work[0]
		work = work[1:]
		stopped := false
		for k := cur.i; k < len(cur.b.Instrs); k++ {
			ins := cur.b.Instrs[k]
			if stop(ins) {
				stopped = true
				break
			}
			if _, ok := ins.(*ssa.Return); ok {
				return true
			}
		}
		if stopped {
			continue
		}
		for _, s := range cur.b.Succs {
			if r.edges[aEdge{cur.b, s}] && !seen[s] {
				seen[s] = true
				work = append(work, st{s, 0})
			}
		}
	}
	return false
}

// ---------------------------------------------------------------------------
// C03.cdn.*: the SkipAuth store of the HLS session
// ---------------------------------------------------------------------------

// c03Guards returns the boolean struct fields G such that every path from
// fn's entry to the instruction passes an edge on which a load of G (through
// a parameter) is true.
func c03Guards(fn *ssa.Function, at ssa.Instruction) []*types.Var {
	cands := map[string]*types.Var{}
	for _, b := range fn.Blocks {
		ifi := ifOf(b)
		if ifi == nil {
			continue
		}
		core := condCore(ifi.Cond)
		ld, ok := core.(*ssa.UnOp)
		if !ok || ld.Op != token.MUL {
			continue
		}
		fa, ok := ld.X.(*ssa.FieldAddr)
		if !ok || !isBoolValue(ld) {
			continue
		}
		if _, isParam := fa.X.(*ssa.Parameter); !isParam {
			continue
		}
		cands[litOf(core, true).Atom] = fieldVarOf(fa)
	}
	var out []*types.Var
	var atoms []string
	for a := range cands {
		atoms = append(atoms, a)
	}
	sort.Strings(atoms)
	for _, a := range atoms {
		if reachWithout(entry(fn), func(i ssa.Instruction) bool { return i == at }, []LitPat{T(a)}) == nil {
			out = append(out, cands[a])
		}
	}
	return out
}

// c03SkipStores: the SSA stores to PathAccessRequest.SkipAuth whose position
// lies in [from, to] (the AST statement that was enumerated).
func c03SkipStores(p *Prog, pkgPathFull string, from, to token.Pos) []*ssa.Store {
	var out []*ssa.Store
	for _, fn := range p.ModFuncs() {
		if funcPkgPath(fn) != pkgPathFull {
			continue
		}
		for _, b := range fn.Blocks {
			for _, ins := range b.Instrs {
				st, ok := ins.(*ssa.Store)
				if !ok || st.Pos() < from || st.Pos() > to {
					continue
				}
				if fa, ok := st.Addr.(*ssa.FieldAddr); ok && fieldAddrIs(fa, "defs.PathAccessRequest", "SkipAuth") {
					out = append(out, st)
				}
			}
		}
	}
	return out
}

// cdnAtoms finds, in the functions of the package, the atoms of the accepted
// definition: bearer = `Header.Get(<request>.Header, "Authorization") ==
// "Bearer " + S` and secretEmpty = `S == ""` for the same field path S.
func cdnAtoms(fns []*ssa.Function) (bearer, secretEmpty string) {
	const pre, suf, bpre = `(net/http.Header).Get(`, `, "Authorization")`, `("Bearer " + `
	found := map[string]bool{}
	for _, fn := range fns {
		for _, b := range fn.Blocks {
			for _, ins := range b.Instrs {
				bo, ok := ins.(*ssa.BinOp)
				if !ok || (bo.Op != token.EQL && bo.Op != token.NEQ) {
					continue
				}
				// operands in either order (litOf orders them canonically)
				hd, br := desc(bo.X), desc(bo.Y)
				if strings.HasPrefix(br, pre) {
					hd, br = br, hd
				}
				if !strings.HasPrefix(hd, pre) || !strings.HasSuffix(hd, suf) || !strings.HasPrefix(br, bpre) || !strings.HasSuffix(br, ")") {
					continue
				}
				a := litOf(bo, true).Atom
				s := br[len(bpre) : len(br)-1]
				// S is a field path of a parameter, nothing computed
				if !strings.HasPrefix(s, "$") || strings.ContainsAny(s, "( +[") || !strings.Contains(s, ".") {
					continue
				}
				found[a] = true
				bearer, secretEmpty = a, "("+s+` == "")`
			}
		}
	}
	if len(found) != 1 {
		return "", ""
	}
	return bearer, secretEmpty
}

// c03CDNGuard decides the CDN SkipAuth store found at [from,to] in package pk.
func (c *Ctx) c03CDNGuard(p *Prog, pkgPathFull, key, pos string, from, to token.Pos) {
	stores := c03SkipStores(p, pkgPathFull, from, to)
	var guards []*types.Var
	for k, st := range stores {
		g := c03Guards(st.Parent(), st)
		if k == 0 {
			guards = g
			continue
		}
		// several stores for one statement (cannot happen for an assignment): intersect
		var both []*types.Var
		for _, x := range guards {
			for _, y := range g {
				if x == y {
					both = append(both, x)
				}
			}
		}
		guards = both
	}
	var names []string
	for _, g := range guards {
		names = append(names, g.Name())
	}
	c.Check("C03.cdn.guard", key+": SkipAuth store guarded by isCDN", len(stores) > 0 && len(guards) > 0, pos,
		"the store must be dominated by an edge on which a boolean field of the receiver holds; found "+joinS(names))
	if len(stores) == 0 || len(guards) == 0 {
		return
	}
	var fns []*ssa.Function
	for _, fn := range p.ModFuncs() {
		if funcPkgPath(fn) == pkgPathFull {
			fns = append(fns, fn)
		}
	}
	bearer, secretEmpty := cdnAtoms(fns)
	if bearer == "" {
		c.Check("C03.cdn.definition", key+": the package compares the Authorization header with \"Bearer \"+secret exactly once", false, pos, "")
		return
	}
	// one of the dominating guard fields must be defined by the accepted conjunction
	type res struct {
		n    int
		fail []string
		at   []string
	}
	best := map[*types.Var]*res{}
	for _, g := range guards {
		r := &res{}
		best[g] = r
		for _, fn := range fns {
			for _, b := range fn.Blocks {
				for _, ins := range b.Instrs {
					st, ok := ins.(*ssa.Store)
					if !ok {
						continue
					}
					fa, ok := st.Addr.(*ssa.FieldAddr)
					if !ok || fieldVarOf(fa) != g {
						continue
					}
					r.n++
					for _, as := range []struct {
						atom string
						val  bool
						what string
					}{{secretEmpty, true, "the secret is not configured"}, {bearer, false, "the Authorization header is not Bearer secret"}} {
						ev := newAeval(func(atom string) (bool, bool) {
							if atom == as.atom {
								return as.val, true
							}
							return false, false
						})
						vals := []string{}
						if ev.reach(fn).blocks[b] {
							vals = ev.vals(st.Val)
						}
						okv := len(vals) == 0 || (len(vals) == 1 && vals[0] == "false")
						pok, why := ev.premiseOK()
						if !okv {
							r.fail = append(r.fail, shortFn(fn)+": "+g.Name()+" may be "+joinS(vals)+" when "+as.what)
							r.at = append(r.at, p.Pos(st.Pos()))
						} else if !pok {
							r.fail = append(r.fail, shortFn(fn)+": "+why)
							r.at = append(r.at, p.Pos(st.Pos()))
						}
					}
				}
			}
		}
	}
	var good *types.Var
	for _, g := range guards {
		if r := best[g]; r.n > 0 && len(r.fail) == 0 && good == nil {
			good = g
		}
	}
	if good != nil {
		c.Check("C03.cdn.definition", key+": isCDN := secret configured ∧ Authorization == Bearer secret", true, pos,
			"every store to "+good.Name()+" ("+itoa(best[good].n)+") is false unless "+secretEmpty+" is false and "+bearer+" holds")
		c.Floor("C03.cdn.definitions", best[good].n, 1)
		return
	}
	g := guards[0]
	r := best[g]
	at, detail := pos, "the guard field "+g.Name()+" is never assigned"
	if len(r.fail) > 0 {
		at, detail = r.at[0], joinS(r.fail)
	}
	c.Check("C03.cdn.definition", key+": isCDN := secret configured ∧ Authorization == Bearer secret", false, at, detail)
}
