package main

import (
	"fmt"
	"go/token"
	"go/types"
	"sort"
	"strings"

	"golang.org/x/tools/go/ssa"
)

// C17.unmodified - "each unit ... unmodified after remuxing".
//
// stream.subStreamFormat.writeUnitInner hands THE SAME *unit.Unit (and the same
// payload slices / RTP packets) to every reader of the format: the closure it
// pushes calls each registered callback with the one unit. A reader callback
// that writes through that pointer - a field of the unit, a byte of the payload,
// a field of one of its RTP packets - changes what every other reader (and a
// second session of the same protocol) receives, depending on goroutine order.
//
// Rule (a) readers: every module function outside internal/stream that has a
// parameter of type *unit.Unit (these are exactly the OnDataFunc callbacks and
// the closures they are built from; internal/stream is the producer side, which
// remuxes BEFORE the fan-out) performs no write through memory reachable from
// that parameter. Reachability is an SSA value-flow closure: field addresses,
// loads of reference-typed values, type assertions, representation-only
// conversions, slicing, indexing, phis, local variables (also captured ones),
// results of module callees that return part of an argument. A write is a Store
// whose address is reachable, copy()/clear() with a reachable destination,
// a map update of a reachable map, append() on a reachable slice whose result
// is written back / indexed, a call of a module function that (transitively,
// depth 4) writes through the corresponding parameter, or a call of a standard
// library in-place mutator (slices.Reverse/Sort*, sort.*, binary.*.Put*,
// io.ReadFull, copy-like helpers) on a reachable slice.
//
// Rule (b) producer: inside internal/stream no write through the unit follows
// the fan-out (Reader.push / writeUnitInner / writeUnit call) on any path.
//
// NOT covered: writes performed by third-party code that is handed the payload
// (encoders, muxers - trusted not to modify their input), element aliasing
// through freshly allocated containers (`x := [][]byte{au[0]}; x[0][0] = 1`),
// values that escape into struct fields and are modified later.

type c17Esc struct {
	writes []c17Write
	ret    map[int]bool // result index -> derived
}

type c17Write struct {
	at   ssa.Instruction
	fn   *ssa.Function
	what string
}

type c17Key struct {
	fn   *ssa.Function
	seed string
}

type c17An struct {
	memo  map[c17Key]*c17Esc
	stack map[c17Key]bool
}

func c17PointerLike(t types.Type) bool { return c17PtrLikeD(t, 0) }

func c17PtrLikeD(t types.Type, d int) bool {
	if d > 6 {
		return true
	}
	switch u := t.Underlying().(type) {
	case *types.Pointer, *types.Slice, *types.Map, *types.Chan, *types.Interface, *types.Signature:
		return true
	case *types.Struct:
		for i := 0; i < u.NumFields(); i++ {
			if c17PtrLikeD(u.Field(i).Type(), d+1) {
				return true
			}
		}
	case *types.Array:
		return c17PtrLikeD(u.Elem(), d+1)
	case *types.Tuple:
		for i := 0; i < u.Len(); i++ {
			if c17PtrLikeD(u.At(i).Type(), d+1) {
				return true
			}
		}
	}
	return false
}

// c17LocalRoot: addr is a (field/element path inside a) local variable:
// returns the Alloc / FreeVar at the root and a path key.
func c17LocalRoot(addr ssa.Value) (ssa.Value, string, bool) {
	path := ""
	for d := 0; d < 8; d++ {
		switch x := addr.(type) {
		case *ssa.Alloc:
			return x, path, true
		case *ssa.FreeVar:
			// a captured variable is a pointer to the variable
			if _, ok := x.Type().Underlying().(*types.Pointer); ok {
				return x, path, true
			}
			return nil, "", false
		case *ssa.FieldAddr:
			path = fmt.Sprintf(".%d", x.Field) + path
			addr = x.X
		case *ssa.IndexAddr:
			// element of a local array variable only (a slice element is heap memory)
			if pt, ok := x.X.Type().Underlying().(*types.Pointer); ok {
				if _, isArr := pt.Elem().Underlying().(*types.Array); isArr {
					path = "[]" + path
					addr = x.X
					continue
				}
			}
			return nil, "", false
		default:
			return nil, "", false
		}
	}
	return nil, "", false
}

// standard-library functions that modify a slice argument in place. Exact names
// (a generic instantiation suffix "[...]" is allowed); the Put* families are prefixes.
var c17StdMutators = []string{
	"slices.Reverse", "slices.Sort", "slices.SortFunc", "slices.SortStableFunc", "slices.Delete", "slices.DeleteFunc", "slices.Insert", "slices.Compact", "slices.CompactFunc",
	"sort.Slice", "sort.SliceStable", "sort.Sort", "sort.Stable", "sort.Ints", "sort.Strings", "sort.Float64s",
	"io.ReadFull", "io.ReadAtLeast", "(io.Reader).Read", "crypto/rand.Read", "math/rand.Read",
	"crypto/subtle.XORBytes", "(crypto/cipher.Stream).XORKeyStream", "(crypto/cipher.Block).Encrypt", "(crypto/cipher.Block).Decrypt",
}

var c17StdMutatorPrefixes = []string{
	"(encoding/binary.bigEndian).Put", "(encoding/binary.littleEndian).Put", "(encoding/binary.ByteOrder).Put",
}

func c17IsStdMutator(name string) bool {
	for _, m := range c17StdMutators {
		if name == m || strings.HasPrefix(name, m+"[") {
			return true
		}
	}
	for _, m := range c17StdMutatorPrefixes {
		if strings.HasPrefix(name, m) {
			return true
		}
	}
	return false
}

// analyse computes, for function fn with the given derived seeds (values of fn
// that alias the shared unit) and holder seeds (addresses of variables that
// hold such values), the writes through derived memory and which results are derived.
func (an *c17An) analyse(fn *ssa.Function, seeds map[ssa.Value]bool, holderSeeds map[ssa.Value]bool, key string, depth int) *c17Esc {
	k := c17Key{fn, key}
	if r, ok := an.memo[k]; ok {
		return r
	}
	if an.stack[k] || depth > 4 || fn.Blocks == nil {
		return &c17Esc{ret: map[int]bool{}}
	}
	an.stack[k] = true
	defer delete(an.stack, k)

	derived := map[ssa.Value]bool{}
	for v := range seeds {
		derived[v] = true
	}
	holders := map[string]bool{} // root pointer + path
	hkey := func(root ssa.Value, path string) string { return fmt.Sprintf("%p%s", root, path) }
	for v := range holderSeeds {
		holders[hkey(v, "")] = true
	}
	isDerivedAddrOrHolderLoad := func(addr ssa.Value) bool {
		if derived[addr] {
			return true
		}
		if root, path, ok := c17LocalRoot(addr); ok {
			// exact path or any prefix (a struct copied as a whole)
			for p := path; ; {
				if holders[hkey(root, p)] {
					return true
				}
				i := strings.LastIndexAny(p, ".[")
				if i < 0 {
					break
				}
				p = p[:i]
			}
		}
		return false
	}
	callRet := func(cl *ssa.Call) map[int]bool {
		g := cl.Call.StaticCallee()
		if g == nil || !inModule(g) || g.Blocks == nil || cl.Call.IsInvoke() {
			return nil
		}
		out := map[int]bool{}
		for ai, a := range cl.Call.Args {
			if !derived[a] || ai >= len(g.Params) {
				continue
			}
			sub := an.analyse(g, map[ssa.Value]bool{g.Params[ai]: true}, nil, fmt.Sprintf("p%d", ai), depth+1)
			for r := range sub.ret {
				out[r] = true
			}
		}
		return out
	}
	changed := true
	mark := func(v ssa.Value) {
		if !derived[v] {
			derived[v] = true
			changed = true
		}
	}
	for iter := 0; changed && iter < 12; iter++ {
		changed = false
		for _, b := range fn.Blocks {
			for _, ins := range b.Instrs {
				switch x := ins.(type) {
				case *ssa.FieldAddr:
					if derived[x.X] {
						mark(x)
					}
				case *ssa.IndexAddr:
					if derived[x.X] {
						mark(x)
					}
				case *ssa.Field:
					if derived[x.X] && c17PointerLike(x.Type()) {
						mark(x)
					}
				case *ssa.Index:
					if derived[x.X] && c17PointerLike(x.Type()) {
						mark(x)
					}
				case *ssa.Lookup:
					if derived[x.X] && c17PointerLike(x.Type()) {
						mark(x)
					}
				case *ssa.UnOp:
					if x.Op == token.MUL && c17PointerLike(x.Type()) && isDerivedAddrOrHolderLoad(x.X) {
						mark(x)
					}
				case *ssa.Slice:
					if derived[x.X] {
						mark(x)
					}
				case *ssa.TypeAssert:
					if derived[x.X] {
						mark(x)
					}
				case *ssa.Extract:
					if derived[x.Tuple] && c17PointerLike(x.Type()) {
						mark(x)
					}
					if cl, ok := x.Tuple.(*ssa.Call); ok {
						if r := callRet(cl); r[x.Index] && c17PointerLike(x.Type()) {
							mark(x)
						}
					}
				case *ssa.ChangeType:
					if derived[x.X] {
						mark(x)
					}
				case *ssa.ChangeInterface:
					if derived[x.X] {
						mark(x)
					}
				case *ssa.MakeInterface:
					if derived[x.X] {
						mark(x)
					}
				case *ssa.SliceToArrayPointer:
					if derived[x.X] {
						mark(x)
					}
				case *ssa.Convert:
					// []byte <-> string conversions copy; pointer-ish to pointer-ish keeps the alias
					if derived[x.X] && c17PointerLike(x.Type()) && c17PointerLike(x.X.Type()) {
						mark(x)
					}
				case *ssa.Phi:
					for _, e := range x.Edges {
						if derived[e] {
							mark(x)
						}
					}
				case *ssa.Call:
					if bi, ok := x.Call.Value.(*ssa.Builtin); ok {
						if bi.Name() == "append" && len(x.Call.Args) > 0 && derived[x.Call.Args[0]] {
							mark(x)
						}
						continue
					}
					if r := callRet(x); r[0] && x.Call.Signature().Results().Len() == 1 && c17PointerLike(x.Type()) {
						mark(x)
					}
				case *ssa.Store:
					if derived[x.Val] {
						if root, path, ok := c17LocalRoot(x.Addr); ok && !derived[x.Addr] {
							hk := hkey(root, path)
							if !holders[hk] {
								holders[hk] = true
								changed = true
							}
						}
					}
				}
			}
		}
	}

	res := &c17Esc{ret: map[int]bool{}}
	add := func(at ssa.Instruction, what string) {
		res.writes = append(res.writes, c17Write{at, fn, what})
	}
	for _, b := range fn.Blocks {
		for _, ins := range b.Instrs {
			switch x := ins.(type) {
			case *ssa.Store:
				if derived[x.Addr] {
					add(ins, "store through "+desc(x.Addr))
				}
			case *ssa.MapUpdate:
				if derived[x.Map] {
					add(ins, "map update of "+desc(x.Map))
				}
			case *ssa.Return:
				for i, r := range x.Results {
					if derived[r] {
						res.ret[i] = true
					}
				}
			case *ssa.MakeClosure:
				// nested function literal capturing derived values / holder variables
				clo, _ := x.Fn.(*ssa.Function)
				if clo == nil {
					continue
				}
				s2, h2 := map[ssa.Value]bool{}, map[ssa.Value]bool{}
				var ks []string
				for bi, bnd := range x.Bindings {
					if bi >= len(clo.FreeVars) {
						break
					}
					if derived[bnd] {
						s2[clo.FreeVars[bi]] = true
						ks = append(ks, fmt.Sprintf("d%d", bi))
					} else if root, path, ok := c17LocalRoot(bnd); ok && path == "" && holders[hkey(root, "")] {
						h2[clo.FreeVars[bi]] = true
						ks = append(ks, fmt.Sprintf("h%d", bi))
					}
				}
				if len(ks) > 0 {
					// only closures without their own *unit.Unit parameter are analysed here as part
					// of this function; the others are roots of their own
					sub := an.analyse(clo, s2, h2, "clo:"+strings.Join(ks, ","), depth+1)
					res.writes = append(res.writes, sub.writes...)
				}
			}
			cc := callCommon(ins)
			if cc == nil {
				continue
			}
			if bi, ok := cc.Value.(*ssa.Builtin); ok {
				switch bi.Name() {
				case "copy", "clear":
					if len(cc.Args) > 0 && derived[cc.Args[0]] {
						add(ins, bi.Name()+"() into "+desc(cc.Args[0]))
					}
				}
				continue
			}
			name := calleeName(cc)
			if g := cc.StaticCallee(); g != nil && inModule(g) && g.Blocks != nil && !cc.IsInvoke() {
				for ai, a := range cc.Args {
					if !derived[a] || ai >= len(g.Params) {
						continue
					}
					sub := an.analyse(g, map[ssa.Value]bool{g.Params[ai]: true}, nil, fmt.Sprintf("p%d", ai), depth+1)
					for _, w := range sub.writes {
						res.writes = append(res.writes, c17Write{ins, fn, "call of " + name + ": " + w.what})
						break
					}
				}
				continue
			}
			if c17IsStdMutator(name) {
				for _, a := range cc.Args {
					if derived[a] {
						add(ins, "in-place library call "+name+" on "+desc(a))
						break
					}
				}
			}
		}
	}
	an.memo[k] = res
	return res
}

func c17UnitParam(fn *ssa.Function) *ssa.Parameter {
	for _, pr := range fn.Params {
		if typeStr(pr.Type()) == "*unit.Unit" {
			return pr
		}
	}
	return nil
}

func c17Outermost(fn *ssa.Function) *ssa.Function {
	for fn.Parent() != nil {
		fn = fn.Parent()
	}
	return fn
}

func c17Unmodified(c *Ctx, p *Prog) {
	an := &c17An{memo: map[c17Key]*c17Esc{}, stack: map[c17Key]bool{}}
	type agg struct {
		n      int
		writes []c17Write
		pos    token.Pos
	}
	groups := map[string]*agg{}
	nRoots := 0
	for _, fn := range p.ModFuncs() {
		pp := funcPkgPath(fn)
		if !strings.HasPrefix(pp, modPath+"/internal/") || strings.HasSuffix(pp, "/internal/stream") || strings.HasSuffix(pp, "/internal/unit") ||
			strings.Contains(pp, "/internal/test") || strings.Contains(pp, "teste2e") {
			continue
		}
		up := c17UnitParam(fn)
		if up == nil {
			continue
		}
		nRoots++
		top := c17Outermost(fn)
		g := groups[fnName(top)]
		if g == nil {
			g = &agg{pos: top.Pos()}
			groups[fnName(top)] = g
		}
		g.n++
		r := an.analyse(fn, map[ssa.Value]bool{up: true}, nil, "root", 0)
		g.writes = append(g.writes, r.writes...)
	}
	var names []string
	for k := range groups {
		names = append(names, k)
	}
	sort.Strings(names)
	for _, k := range names {
		g := groups[k]
		var ws []string
		pos := p.Pos(g.pos)
		for i, w := range g.writes {
			if i == 0 {
				pos = p.Pos(posOf(w.at, w.fn))
			}
			ws = append(ws, p.Pos(posOf(w.at, w.fn))+": "+w.what)
		}
		c.Check("C17.unmodified.readers", "reader callbacks (functions taking the shared *unit.Unit) built in "+k+" do not write through the unit, its payload or its RTP packets", len(g.writes) == 0, pos,
			fmt.Sprintf("%d callback(s); the same unit and payload slices are handed to every reader of the format by writeUnitInner, so an in-place change is seen by the other readers. %s", g.n, strings.Join(ws, " | ")))
	}
	c.Floor("C17.unmodified.readers", nRoots, 40)

	// (b) producer side: nothing is written through the unit after the fan-out
	nP := 0
	for _, fn := range funcsOfPkg(p, "internal/stream") {
		up := c17UnitParam(fn)
		if up == nil || fn.Parent() != nil {
			continue
		}
		r := an.analyse(fn, map[ssa.Value]bool{up: true}, nil, "root", 0)
		isW := map[ssa.Instruction]bool{}
		for _, w := range r.writes {
			if w.fn == fn {
				isW[w.at] = true
			}
		}
		for _, cl := range callsIn(fn, "(*stream.Reader).push", "(*stream.subStreamFormat).writeUnitInner", "(*stream.subStreamFormat).writeUnit") {
			nP++
			w := walkTo(after(cl), func(i ssa.Instruction) bool { return isW[i] }, nil, nil)
			c.Check("C17.unmodified.after_fanout", fnName(fn)+": no write through the unit after "+calleeName(callCommon(cl))+" handed it to the readers", w == nil, p.Pos(posOf(cl, fn)), w.String(p))
		}
	}
	c.Floor("C17.unmodified.after_fanout", nP, 3)
}
