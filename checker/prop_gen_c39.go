package main

// C39, generalisation of "the removed handlers are queued by a counting loop".
//
// Obligation (C39.reload.removed_closed): when ReloadConf commits the new list,
// every old handler at an index >= len(forward) has been appended to the queue
// of handlers to stop. The code may say that in three equivalent ways:
//
//	loop form    for j := len(forward); j < len(old); j++ { q = append(q, old[j]) }      (recognised in prop_c39.go)
//	slice form   q = append(q, old[len(forward):]...)
//	range form   for _, h := range old[len(forward):] { q = append(q, h) }
//
// old[len(forward):] (upper bound absent or len(old)) IS the set of handlers at
// index >= len(forward), so appending it whole, or each of its elements in an
// unconditional full range, queues exactly the removed handlers. Unlike the
// counting loop these two forms are usually guarded (`if len(old) > len(forward)`),
// because the slice expression panics when len(forward) > len(old); the
// obligation is therefore stated on paths: every path from the entry of
// ReloadConf to the commit `m.destHandlers = newHandlers` either executes the
// queueing, or passes a branch edge that says there is no tail
// (!(len(forward) < len(old)), len(old) < len(forward), len(old) == len(forward)).
// Premises checked here: the sliced value is a load of $0.destHandlers (isOld),
// the lower bound is len() of the `forward` parameter itself, and (prop_c39.go,
// C39.reload.commit) m.destHandlers is stored exactly once in ReloadConf, so the
// value loaded before the commit is the old list.

import (
	"golang.org/x/tools/go/ssa"
)

type c39Tail struct {
	rc    *ssa.Function
	fwd   ssa.Value
	isOld func(ssa.Value) bool
}

func (t *c39Tail) isLenOf(v ssa.Value, what func(ssa.Value) bool) bool {
	lc, ok := through(v).(*ssa.Call)
	return ok && calleeName(&lc.Call) == "len" && len(lc.Call.Args) == 1 && what(lc.Call.Args[0])
}

func (t *c39Tail) isFwd(v ssa.Value) bool { return through(v) == t.fwd }

// tailSlice: v is old[len(forward):] or old[len(forward):len(old)].
func (t *c39Tail) tailSlice(v ssa.Value) bool {
	sl, ok := v.(*ssa.Slice)
	if !ok || sl.Max != nil || !t.isOld(sl.X) || sl.Low == nil || !t.isLenOf(sl.Low, t.isFwd) {
		return false
	}
	return sl.High == nil || t.isLenOf(sl.High, t.isOld)
}

// anyOldSlice: v is a slice expression over the old list (any bounds).
func (t *c39Tail) anyOldSlice(v ssa.Value) bool {
	sl, ok := v.(*ssa.Slice)
	return ok && t.isOld(sl.X)
}

func isAppend(i ssa.Instruction) (*ssa.Call, bool) {
	cl, ok := i.(*ssa.Call)
	if !ok || calleeName(&cl.Call) != "append" || len(cl.Call.Args) != 2 {
		return nil, false
	}
	return cl, true
}

// queuesOldHandlers: the append adds handlers of the old list by way of a slice
// of it - spread whole, or element by element in a range over it. (The
// element-of-old form `append(q, old[i])` is closeAppend in prop_c39.go.)
func (t *c39Tail) queuesOldHandlers(i ssa.Instruction) bool {
	cl, ok := isAppend(i)
	if !ok {
		return false
	}
	if t.anyOldSlice(cl.Call.Args[1]) {
		return true
	}
	for _, e := range variadicElemsE(cl.Call.Args[1]) {
		if x, _, isElem := elemOf(e); isElem && t.anyOldSlice(x) {
			return true
		}
	}
	return false
}

// tailEvents returns the predicate "this instruction is (part of) a queueing
// of the whole tail old[len(forward):]" for the slice and range forms, and
// how many such sites exist.
func (t *c39Tail) tailEvents() (isEvent func(ssa.Instruction) bool, n int) {
	spread := map[ssa.Instruction]bool{}
	heads := map[*ssa.BasicBlock]bool{}
	eachInstr(t.rc, func(i ssa.Instruction) {
		cl, ok := isAppend(i)
		if !ok {
			return
		}
		// slice form
		if t.tailSlice(cl.Call.Args[1]) {
			spread[i] = true
			return
		}
		// range form: the appended element is tail[k], k the counter of a full range
		// over that same tail slice, and the append is the loop's unconditional body
		for _, e := range variadicElemsE(cl.Call.Args[1]) {
			x, k, isElem := elemOf(e)
			if !isElem || !t.tailSlice(x) {
				continue
			}
			rx, head, body, isRange := rangeCounter(k)
			if isRange && rx == x && body == cl.Block() && unconditionalBody(head, body) {
				heads[head] = true
			}
		}
	})
	return func(i ssa.Instruction) bool { return spread[i] || heads[i.Block()] }, len(spread) + len(heads)
}

// noTailEdge: the branch literal implies len(old) <= len(forward).
func (t *c39Tail) noTailEdge(l Lit) bool {
	const lo, lf = "len(" + c39Old + ")", "len($1)"
	switch {
	case !l.Pos && l.Atom == "("+lf+" < "+lo+")":
		return true
	case l.Pos && l.Atom == "("+lo+" < "+lf+")":
		return true
	case l.Pos && (l.Atom == "("+lo+" == "+lf+")" || l.Atom == "("+lf+" == "+lo+")"):
		return true
	}
	return false
}

// tailQueuedBeforeCommit decides the slice/range forms: no path reaches the
// commit with a possibly non-empty tail and without queueing it.
func (t *c39Tail) tailQueuedBeforeCommit(p *Prog, commit ssa.Instruction) (ok bool, detail string) {
	if len(t.rc.Params) != 2 || t.rc.Params[1] != t.fwd {
		return false, "" // lf above names parameter 1
	}
	isEvent, n := t.tailEvents()
	if n == 0 {
		return false, ""
	}
	w := walkTo(entry(t.rc), func(i ssa.Instruction) bool { return i == commit }, isEvent,
		func(l Lit) bool { return !t.noTailEdge(l) })
	if w != nil {
		return false, "the new list is committed although old handlers beyond len(forward) may exist and were not queued: " + w.String(p)
	}
	return true, ""
}
