package main

import (
	"go/token"
	"go/types"
	"sort"
	"strings"

	"golang.org/x/tools/go/ssa"
)

// C35.close_once - a channel kept in a field of a server / connection object
// is closed at most once.
//
// close() of a closed channel panics, and a panic in a per-connection or
// per-stream goroutine terminates the process (nothing recovers in the MoQ,
// RTSP, RTMP, SRT servers; the HTTP chain turns it into os.Exit). The
// listener packages handle one client with several goroutines (one per
// QUIC/WebTransport stream, reader + writer, HTTP requests of one session), so
// "this close runs once" must follow from the structure of the code, not from
// the client behaving. For every close(x.f) of a field channel in the
// listener packages one of the following must hold:
//
//   gate  every path from the entry of the function to the close passes an
//         ATOMIC test-and-set, i.e. inside ONE critical section of one mutex
//         of the object (exclusive Lock ... no Unlock in between):
//           - a non-blocking receive from the same channel that found it open
//             (select { case <-x.f: ... default: }), the close itself being
//             the "set" - so the close happens in that critical section too; or
//           - a branch on a field compared with a constant (x.state == Idle,
//             !x.closed) followed by a store to that field of a constant that
//             falsifies the test (x.state = Publish).
//         A test made without the lock, or with the lock released between the
//         test and the set, lets two goroutines pass it together.
//   run   the close is deferred in a function whose only static use is one
//         `go` statement, and the launching function creates the channel
//         (store of a fresh make(chan) to the same field of the same object)
//         before that statement and does not reach the statement a second time
//         without creating a new channel: one goroutine per channel.
//   table the site is classified by hand with the reason (lifecycle methods
//         called by the owner, not by network input).
//
// and the field is closed at one site only (two separately gated sites would
// still close twice). The analysis is a forward data flow over the CFG with
// the states {lock held?, tests passed in the current critical section,
// gated}; calls of extracted helpers (functions that are not in the baseline)
// are entered, so the lock, the test or the close may be moved into a helper.
//
// Not decided: that nobody resets the gate field, aliasing of two objects of
// the same type, channels that are not stored in fields (closed by the
// function that made them), send on a closed channel.

var c35CloseTable = map[string]string{
	"(*protocols/httpp3.Server).Close|$0.terminate": "lifecycle method called once by the owning server's close(); not reachable from network input",
}

type c35CloseSite struct {
	fn    *ssa.Function // the baseline function the site is attributed to
	ins   ssa.Instruction
	ch    string // description of the channel operand
	owner string // struct type + "." + field
}

func c35ChanField(v ssa.Value) (*ssa.FieldAddr, bool) {
	fa, ok := loadOf(v).(*ssa.FieldAddr)
	if !ok {
		return nil, false
	}
	if _, isChan := v.Type().Underlying().(*types.Chan); !isChan {
		return nil, false
	}
	return fa, true
}

func c35FieldOwner(fa *ssa.FieldAddr) string {
	pt, ok := fa.X.Type().Underlying().(*types.Pointer)
	if !ok {
		return "?"
	}
	return typeStr(pt.Elem()) + "." + fieldAddrName(fa)
}

func c35IsClose(i ssa.Instruction) (ssa.Value, bool) {
	cc := callCommon(i)
	if cc == nil {
		return nil, false
	}
	if b, ok := cc.Value.(*ssa.Builtin); !ok || b.Name() != "close" || len(cc.Args) != 1 {
		return nil, false
	}
	return cc.Args[0], true
}

func c35CloseOnce(c *Ctx, p *Prog) {
	var sites []c35CloseSite
	perOwner := map[string][]string{}
	for _, fn := range p.ModFuncs() {
		pp := strings.TrimPrefix(funcPkgPath(fn), modPath+"/")
		skip := false
		for _, pre := range c35NotServer {
			if strings.HasPrefix(pp, pre) {
				skip = true
			}
		}
		if skip {
			continue
		}
		eachInstr(fn, func(i ssa.Instruction) {
			arg, ok := c35IsClose(i)
			if !ok {
				return
			}
			fa, ok := c35ChanField(arg)
			if !ok {
				return
			}
			s := c35CloseSite{fn, i, desc(arg), c35FieldOwner(fa)}
			perOwner[s.owner] = append(perOwner[s.owner], shortFn(fn))
			if c35InScope(fn) {
				sites = append(sites, s)
			}
		})
	}
	found := map[string]bool{}
	n := 0
	for _, s := range sites {
		n++
		key := "close(" + s.ch + ") in " + shortFn(s.fn)
		pos := p.Pos(posOf(s.ins, s.fn))
		// one site per channel field
		c.Check("C35.close_once.single_site", s.owner+" is closed at one site", len(perOwner[s.owner]) == 1, pos, "closed in "+joinS(perOwner[s.owner])+": two sites close the same channel twice even if each runs once")
		if why, ok := c35CloseTable[shortFn(s.fn)+"|"+s.ch]; ok {
			found[shortFn(s.fn)+"|"+s.ch] = true
			c.Check("C35.close_once", key+" [classified]", true, pos, why)
			continue
		}
		if d, isDefer := s.ins.(*ssa.Defer); isDefer {
			ok, detail := c35RunGoroutine(p, s, d)
			c.Check("C35.close_once", key+" [deferred in a goroutine started once per channel]", ok, pos, detail)
			continue
		}
		ok, detail := c35Gate(p, s)
		c.Check("C35.close_once", key+" [atomic test-and-set before the close]", ok, pos, detail)
	}
	var rows []string
	for k := range c35CloseTable {
		rows = append(rows, k)
	}
	sort.Strings(rows)
	for _, k := range rows {
		c.Check("C35.close_once", "classified close site "+k+" exists", found[k], "-", "stale table row")
	}
	c.Floor("C35.close_once", n, 6)
}

// ---- run: deferred close in the one goroutine of the channel

func c35RunGoroutine(p *Prog, s c35CloseSite, d *ssa.Defer) (bool, string) {
	f := d.Parent()
	ci := p.callerIndex()
	if ci.valueUse[f] {
		return false, fnName(f) + " is used as a function value: the number of executions is unknown"
	}
	callers := ci.sites[f]
	if len(callers) != 1 {
		return false, sprintf("%s has %d static call sites (want exactly one `go` statement)", fnName(f), len(callers))
	}
	g, ok := callers[0].(*ssa.Go)
	if !ok {
		return false, fnName(f) + " is called, not started as a goroutine: whoever calls it twice closes twice"
	}
	// the defer is executed once per run
	dIns := ssa.Instruction(d)
	if w := reachAvoiding(after(d), func(i ssa.Instruction) bool { return i == dIns }, func(ssa.Instruction) bool { return false }); w != nil {
		return false, "the deferred close is registered in a loop"
	}
	if len(g.Call.Args) == 0 {
		return false, "goroutine without receiver"
	}
	fa, _ := c35ChanField(d.Call.Args[0])
	field := fieldAddrName(fa)
	want := desc(g.Call.Args[0]) + "." + field
	isGo := func(i ssa.Instruction) bool { return i == ssa.Instruction(g) }
	isMake := func(i ssa.Instruction) bool {
		st, ok := i.(*ssa.Store)
		if !ok {
			return false
		}
		if _, fresh := st.Val.(*ssa.MakeChan); !fresh {
			return false
		}
		return desc(st.Addr) == want
	}
	l := g.Parent()
	if w := reachAvoiding(entry(l), isGo, isMake); w != nil {
		return false, "the `go` statement in " + fnName(l) + " is reachable without a fresh make(chan) stored to " + want + ": " + w.String(p)
	}
	if w := reachAvoiding(after(g), isGo, isMake); w != nil {
		return false, "the `go` statement in " + fnName(l) + " can run twice for one channel: " + w.String(p)
	}
	return true, "started once per make(chan) by " + fnName(l)
}

// ---- gate: forward data flow

type c35GState struct {
	held  bool
	tests string // \x00-separated, sorted: tests passed in the current critical section
	gated bool
}

type c35GateFlow struct {
	p      *Prog
	site   c35CloseSite
	mutex  string // description of the mutex operand
	bad    []string
	hit    bool
	active map[*ssa.Function]bool
}

func c35AddTest(s c35GState, t string) c35GState {
	parts := []string{}
	if s.tests != "" {
		parts = strings.Split(s.tests, "\x00")
	}
	for _, x := range parts {
		if x == t {
			return s
		}
	}
	parts = append(parts, t)
	sort.Strings(parts)
	s.tests = strings.Join(parts, "\x00")
	return s
}

func (g *c35GateFlow) isMutexOp(i ssa.Instruction, names ...string) bool {
	c, ok := i.(*ssa.Call)
	if !ok || c.Call.IsInvoke() || len(c.Call.Args) == 0 {
		return false
	}
	n := calleeName(&c.Call)
	for _, w := range names {
		if n == w {
			return desc(c.Call.Args[0]) == g.mutex
		}
	}
	return false
}

// fieldTest: cond (for the given outcome) implies  F == C  (eq) or F != C.
func c35FieldTest(cond ssa.Value, outcome bool) (f, cst string, eq, ok bool) {
	base, neg := cond, false
	for {
		un, isUn := base.(*ssa.UnOp)
		if !isUn || un.Op != token.NOT {
			break
		}
		base, neg = un.X, !neg
	}
	val := outcome != neg // truth value of base on this edge
	if bo, isBin := base.(*ssa.BinOp); isBin && (bo.Op == token.EQL || bo.Op == token.NEQ) {
		x, y := bo.X, bo.Y
		if _, isC := stripConv(x).(*ssa.Const); isC {
			x, y = y, x
		}
		cy, isC := stripConv(y).(*ssa.Const)
		if !isC {
			return
		}
		if _, isField := loadOf(x).(*ssa.FieldAddr); !isField {
			return
		}
		return desc(x), desc(cy), (bo.Op == token.EQL) == val, true
	}
	if _, isField := loadOf(base).(*ssa.FieldAddr); isField {
		if b, isB := base.Type().Underlying().(*types.Basic); isB && b.Kind() == types.Bool {
			return desc(base), "true", val, true
		}
	}
	return
}

// selectOpenTest: the edge is the default edge of a non-blocking select that
// has a receive from the site's channel (the channel was found open).
func (g *c35GateFlow) selectOpenTest(cond ssa.Value, outcome bool) bool {
	base, neg := cond, false
	for {
		un, isUn := base.(*ssa.UnOp)
		if !isUn || un.Op != token.NOT {
			break
		}
		base, neg = un.X, !neg
	}
	bo, ok := base.(*ssa.BinOp)
	if !ok || (bo.Op != token.EQL && bo.Op != token.NEQ) {
		return false
	}
	ex, ok := bo.X.(*ssa.Extract)
	if !ok || ex.Index != 0 {
		return false
	}
	sel, ok := ex.Tuple.(*ssa.Select)
	if !ok || sel.Blocking {
		return false
	}
	k, ok := constInt64(bo.Y)
	if !ok || int(k) != len(sel.States)-1 {
		return false // not the last dispatch test: another case may still be taken
	}
	has := false
	for _, st := range sel.States {
		if st.Dir == types.RecvOnly && desc(st.Chan) == g.site.ch {
			has = true
		}
	}
	if !has {
		return false
	}
	equal := ((bo.Op == token.EQL) == (outcome != neg))
	return !equal
}

func (g *c35GateFlow) step(s c35GState, i ssa.Instruction) c35GState {
	switch {
	case g.isMutexOp(i, "(*sync.Mutex).Lock", "(*sync.RWMutex).Lock"):
		s.held, s.tests = true, ""
	case g.isMutexOp(i, "(*sync.Mutex).Unlock", "(*sync.RWMutex).Unlock"):
		s.held, s.tests = false, ""
	}
	if st, ok := i.(*ssa.Store); ok && s.held && s.tests != "" {
		if cv, isC := stripConv(st.Val).(*ssa.Const); isC {
			if _, isField := st.Addr.(*ssa.FieldAddr); isField {
				f, v := desc(st.Addr), desc(cv)
				for _, t := range strings.Split(s.tests, "\x00") {
					parts := strings.Split(t, "\x01")
					if len(parts) != 4 || parts[0] != "f" || parts[1] != f {
						continue
					}
					// passed "F == C": a different constant closes the gate; passed "F != C": C closes it
					if (parts[3] == "eq" && v != parts[2]) || (parts[3] == "ne" && v == parts[2]) {
						s.gated = true
					}
				}
			}
		}
	}
	if i == g.site.ins {
		g.hit = true
		okc := s.gated || (s.held && strings.Contains("\x00"+s.tests+"\x00", "\x00ch\x00"))
		if !okc {
			why := "the close is reached"
			switch {
			case !s.held:
				why += " without " + g.mutexName() + " held"
			default:
				why += " with the lock held but without a closedness test made in the same critical section"
			}
			g.bad = append(g.bad, why)
		}
	}
	return s
}

func (g *c35GateFlow) mutexName() string {
	if g.mutex == "" {
		return "any mutex of the object"
	}
	return g.mutex
}

// flow runs the data flow over fn for the entry states in and returns the
// states at its returns.
func (g *c35GateFlow) flow(fn *ssa.Function, in map[c35GState]bool, depth int) map[c35GState]bool {
	out := map[c35GState]bool{}
	if len(fn.Blocks) == 0 || depth > 4 || g.active[fn] {
		for s := range in {
			out[s] = true
		}
		return out
	}
	g.active[fn] = true
	defer delete(g.active, fn)
	blockIn := map[*ssa.BasicBlock]map[c35GState]bool{fn.Blocks[0]: {}}
	for s := range in {
		blockIn[fn.Blocks[0]][s] = true
	}
	work := []*ssa.BasicBlock{fn.Blocks[0]}
	for len(work) > 0 {
		b := work[len(work)-1]
		work = work[:len(work)-1]
		cur := map[c35GState]bool{}
		for s := range blockIn[b] {
			cur[s] = true
		}
		for _, i := range b.Instrs {
			if h := newHelperCallee(i); h != nil {
				cur = g.flow(h, cur, depth+1)
				continue
			}
			next := map[c35GState]bool{}
			for s := range cur {
				next[g.step(s, i)] = true
			}
			cur = next
			if _, isRet := i.(*ssa.Return); isRet {
				for s := range cur {
					out[s] = true
				}
			}
		}
		var ifi *ssa.If
		if len(b.Instrs) > 0 {
			ifi, _ = b.Instrs[len(b.Instrs)-1].(*ssa.If)
		}
		for k, sc := range b.Succs {
			if blockIn[sc] == nil {
				blockIn[sc] = map[c35GState]bool{}
			}
			changed := false
			for s := range cur {
				if ifi != nil && s.held {
					outcome := k == 0
					if f, cst, eq, ok := c35FieldTest(ifi.Cond, outcome); ok {
						e := "ne"
						if eq {
							e = "eq"
						}
						s = c35AddTest(s, "f\x01"+f+"\x01"+cst+"\x01"+e)
					} else if g.selectOpenTest(ifi.Cond, outcome) {
						s = c35AddTest(s, "ch")
					}
				}
				if !blockIn[sc][s] {
					blockIn[sc][s] = true
					changed = true
				}
			}
			if changed {
				work = append(work, sc)
			}
		}
	}
	return out
}

func c35Gate(p *Prog, s c35CloseSite) (bool, string) {
	// candidate mutexes: every mutex operand locked exclusively in the function (helpers included)
	cands := map[string]bool{}
	eachInstr(s.fn, func(i ssa.Instruction) {
		c, ok := i.(*ssa.Call)
		if !ok || c.Call.IsInvoke() || len(c.Call.Args) == 0 {
			return
		}
		switch calleeName(&c.Call) {
		case "(*sync.Mutex).Lock", "(*sync.RWMutex).Lock":
			cands[desc(c.Call.Args[0])] = true
		}
	})
	var names []string
	for m := range cands {
		names = append(names, m)
	}
	sort.Strings(names)
	if len(names) == 0 {
		names = []string{""}
	}
	detail := ""
	for _, m := range names {
		g := &c35GateFlow{p: p, site: s, mutex: m, active: map[*ssa.Function]bool{}}
		g.flow(s.fn, map[c35GState]bool{{}: true}, 0)
		if g.hit && len(g.bad) == 0 {
			return true, "gated under " + m
		}
		if !g.hit {
			detail = "the close site was not reached by the data flow (unsupported shape)"
			continue
		}
		sort.Strings(g.bad)
		detail = g.bad[0] + ": a closedness test (non-blocking receive from " + s.ch + " that found it open, or a state field compared and then set) and the close must sit in ONE critical section - " +
			"otherwise two of the goroutines that serve one client (one per stream / request) pass the test together and the second close panics: the process terminates"
	}
	return false, detail
}
