package main

import (
	"go/token"
	"go/types"
	"sort"
	"strings"

	"golang.org/x/tools/go/ssa"
)

// C28.P10 - a fixed position of a list that another function produced is read
// only where that function guarantees the list is not empty.
//
// The handlers read the first / last entry of lists they did not build
// themselves (onList: entries[0], entries[len(entries)-1]; seekAndMux:
// segments[0], segments[1:]) without a length test of their own: they rely on
// the producers' contract "no error => at least one entry". What the list
// contains is decided by the files in the recording directory (which segments
// exist, which of them can be parsed), so a producer that can return an empty
// list together with a nil error turns a directory content into an
// index-out-of-range panic, i.e. into os.Exit (handlerExitOnPanic).
//
// Rule. Sites: in every function of the reachable set, x[0], x[len(x)-1],
// x[1:], x[len(x)-1:] on a slice x whose value originates (through phis,
// re-slices, single-assignment variables) from the result of a module function
// or from a parameter. The site must be NON-EMPTY-DERIVABLE:
//
//   - a branch literal !(len(x) == 0) dominates the site (or the phi edge the
//     value arrives through); or, by the structure of the value,
//   - phi: every incoming value is derivable at the end of its edge;
//   - result #k of a call of a module function g: the call's error result is
//     tested (== nil dominates the use) and EVERY return of g that can carry a
//     nil error returns a derivable value for #k (a return whose error operand
//     is fmt.Errorf / errors.New / a package-level error / dominated by
//     err != nil does not count);
//   - make([]T, len(w)): w derivable (one entry per input element); make with a
//     positive constant length; append with at least one element;
//   - parameter: the argument of the call the derivation came through (or, for
//     a site in the function itself, of every static call site) is derivable;
//   - a producer contract from the table below, each with a structural check
//     that keeps it honest.
//
// A producer that filters its input (conditional appends to a fresh list) is
// not derivable unless it tests the result before returning it with a nil
// error - which is exactly the test the consumers rely on.
//
// Not decided: positions other than first/last, lists kept in struct fields or
// built locally (C28.P9 covers file-derived positions), the value-level
// argument inside the tabled producers (re-slicing in FindSegments keeps the
// last element; the first iteration of concatenateSegments appends).

type c28NEContract struct {
	param  int // -1: unconditional; j: non-empty when argument j is
	reason string
}

var c28NEContracts = map[string]c28NEContract{
	"recordstore.FindSegments#0":     {-1, "returns ErrNoSegmentsFound when nothing was collected (segments == nil; append never yields an empty non-nil slice) and its re-slices keep at least the last element (segments[i:] with i < len-1, segments[len-1:]); checked: every nil-error return is dominated by the emptiness test of the collected list"},
	"playback.concatenateSegments#0": {0, "one pass over the input; an iteration either appends an entry or merges into the last one, and merging requires len(out) != 0, so the first iteration appends; checked: with len(out) == 0 no path through the loop body skips the append"},
}

type c28neCtx struct {
	call   *ssa.Call
	parent *c28neCtx
}

type c28ne struct {
	p     *Prog
	steps int
}

func c28IsModuleBody(f *ssa.Function) bool { return f != nil && inModule(f) && len(f.Blocks) > 0 }

// c28LitsAt: the literals known at the end of block b when leaving towards succ
// (succ == nil: literals dominating b).
func c28LitsAt(b, succ *ssa.BasicBlock) []Lit {
	out := controlLits(b)
	if succ != nil && len(b.Instrs) > 0 {
		if ifi, ok := b.Instrs[len(b.Instrs)-1].(*ssa.If); ok && len(b.Succs) == 2 && b.Succs[0] != b.Succs[1] {
			out = append(out, litOf(ifi.Cond, b.Succs[0] == succ))
		}
	}
	return out
}

func c28HasLit(lits []Lit, pat LitPat) bool {
	for _, l := range lits {
		if pat.match(l) {
			return true
		}
	}
	return false
}

func c28IsLenOfR4(v, x ssa.Value) bool {
	c, ok := stripConv(v).(*ssa.Call)
	if !ok {
		return false
	}
	b, ok := c.Call.Value.(*ssa.Builtin)
	if !ok || b.Name() != "len" || len(c.Call.Args) != 1 {
		return false
	}
	return c.Call.Args[0] == x || desc(c.Call.Args[0]) == desc(x)
}

func c28IsLenMinus1(v, x ssa.Value) bool {
	bo, ok := stripConv(v).(*ssa.BinOp)
	if !ok || bo.Op != token.SUB {
		return false
	}
	k, isC := constInt64(bo.Y)
	return isC && k == 1 && c28IsLenOfR4(bo.X, x)
}

// neAt: is v non-empty, given the literals lits that hold where it is used?
func (e *c28ne) neAt(v ssa.Value, lits []Lit, ctx *c28neCtx, depth int) (bool, string) {
	e.steps++
	if depth > 12 || e.steps > 4000 {
		return false, "derivation too deep"
	}
	if c28HasLit(lits, F("(len("+desc(v)+") == 0)")) {
		return true, ""
	}
	switch x := v.(type) {
	case *ssa.Phi:
		for i, ed := range x.Edges {
			if ed == ssa.Value(x) {
				continue
			}
			pred := x.Block().Preds[i]
			if ok, why := e.neAt(ed, c28LitsAt(pred, x.Block()), ctx, depth+1); !ok {
				return false, why
			}
		}
		return true, ""
	case *ssa.ChangeType:
		return e.neAt(x.X, lits, ctx, depth+1)
	case *ssa.UnOp:
		if x.Op == token.MUL {
			if a, ok := x.X.(*ssa.Alloc); ok {
				if sv := singleStore(a); sv != nil {
					return e.neAt(sv, lits, ctx, depth+1)
				}
			}
		}
		return false, "value " + trunc(desc(v), 80) + " is a variable assigned in several places"
	case *ssa.Slice:
		if x.Low == nil && x.High == nil && x.Max == nil {
			if _, isSlice := x.X.Type().Underlying().(*types.Slice); isSlice {
				return e.neAt(x.X, lits, ctx, depth+1)
			}
			// array[:] of a non-empty array (the operand of append / a literal)
			if pt, ok := x.X.Type().Underlying().(*types.Pointer); ok {
				if at, ok := pt.Elem().Underlying().(*types.Array); ok {
					if at.Len() > 0 {
						return true, ""
					}
					return false, "empty literal"
				}
			}
		}
		// array[lo:hi] with constant bounds, hi > lo: the compiler checked the bounds
		// against the array length and the result has hi-lo elements (buf[:8] of a
		// header buffer handed to a helper)
		if _, isSlice := x.X.Type().Underlying().(*types.Slice); x.High != nil && !isSlice && c28ConstCap(x.X) {
			if hi, ok := constInt64(x.High); ok {
				lo := int64(0)
				loOK := x.Low == nil
				if x.Low != nil {
					lo, loOK = constInt64(x.Low)
				}
				if loOK && hi > lo {
					return true, ""
				}
			}
		}
		return false, "re-slice " + trunc(desc(v), 80) + " without a length test of the result"
	case *ssa.MakeSlice:
		if k, ok := constInt64(x.Len); ok {
			if k > 0 {
				return true, ""
			}
			return false, "make with length 0 (entries are appended conditionally)"
		}
		if c, ok := stripConv(x.Len).(*ssa.Call); ok {
			if b, ok := c.Call.Value.(*ssa.Builtin); ok && b.Name() == "len" {
				return e.neAt(c.Call.Args[0], lits, ctx, depth+1)
			}
		}
		return false, "make with a length that is not len(input)"
	case *ssa.Extract:
		if c, ok := x.Tuple.(*ssa.Call); ok {
			return e.neCall(c, x.Index, lits, ctx, depth)
		}
	case *ssa.Call:
		if b, ok := x.Call.Value.(*ssa.Builtin); ok {
			if b.Name() == "append" && len(x.Call.Args) == 2 {
				if ok, _ := e.neAt(x.Call.Args[1], lits, ctx, depth+1); ok {
					return true, ""
				}
				return e.neAt(x.Call.Args[0], lits, ctx, depth+1)
			}
			return false, "builtin " + b.Name()
		}
		return e.neCall(x, 0, lits, ctx, depth)
	case *ssa.Parameter:
		g := x.Parent()
		j := paramIndex(x)
		if ctx != nil && ctx.call.Call.StaticCallee() == g && j < len(ctx.call.Call.Args) {
			return e.neAt(ctx.call.Call.Args[j], c28LitsAt(ctx.call.Block(), nil), ctx.parent, depth+1)
		}
		ci := e.p.callerIndex()
		if ci.valueUse[g] || len(ci.sites[g]) == 0 {
			return false, "parameter of " + fnName(g) + ", whose callers are not all known"
		}
		for _, s := range ci.sites[g] {
			cc := callCommon(s)
			if j >= len(cc.Args) {
				return false, "call shape"
			}
			if ok, why := e.neAt(cc.Args[j], c28LitsAt(s.Block(), nil), nil, depth+1); !ok {
				return false, "argument at " + e.p.Pos(s.Pos()) + ": " + why
			}
		}
		return true, ""
	case *ssa.Const:
		return false, "nil / empty constant"
	}
	return false, "value " + trunc(desc(v), 80) + " has no non-emptiness derivation"
}

func c28ErrIndex(sig *types.Signature) int {
	n := sig.Results().Len()
	if n == 0 {
		return -1
	}
	if typeStr(sig.Results().At(n-1).Type()) == "error" {
		return n - 1
	}
	return -1
}

// neCall: result #k of call c, used where lits hold.
func (e *c28ne) neCall(c *ssa.Call, k int, lits []Lit, ctx *c28neCtx, depth int) (bool, string) {
	g := c.Call.StaticCallee()
	if !c28IsModuleBody(g) {
		return false, "result of " + calleeName(&c.Call) + " (not a module function with a body)"
	}
	// the error result is tested before the list is used
	if ei := c28ErrIndex(g.Signature); ei >= 0 && ei != k {
		var ex *ssa.Extract
		for _, r := range *c.Referrers() {
			if x, ok := r.(*ssa.Extract); ok && x.Index == ei {
				ex = x
			}
		}
		if ex == nil || !c28HasLit(lits, T("("+desc(ex)+" == nil)")) {
			return false, "the error result of " + shortFn(g) + " is not tested (== nil) before the list is used"
		}
	}
	key := shortFn(g) + "#" + itoa(k)
	if ct, ok := c28NEContracts[key]; ok {
		if ct.param < 0 {
			return true, ""
		}
		if ct.param >= len(c.Call.Args) {
			return false, "call shape"
		}
		okA, why := e.neAt(c.Call.Args[ct.param], c28LitsAt(c.Block(), nil), ctx, depth+1)
		if !okA {
			return false, "argument of " + shortFn(g) + ": " + why
		}
		return true, ""
	}
	sub := &c28neCtx{c, ctx}
	ei := c28ErrIndex(g.Signature)
	n := 0
	for _, b := range g.Blocks {
		if b.Comment == "recover" || len(b.Instrs) == 0 {
			continue
		}
		r, ok := b.Instrs[len(b.Instrs)-1].(*ssa.Return)
		if !ok || k >= len(r.Results) {
			continue
		}
		rl := c28LitsAt(b, nil)
		if ei >= 0 && c28DefinitelyErr(retVal(r, ei), rl) {
			continue
		}
		n++
		if ok, why := e.neAt(retVal(r, k), rl, sub, depth+1); !ok {
			return false, shortFn(g) + " can return, with a nil error, a list that may be empty (" + e.p.Pos(r.Pos()) + "): " + why
		}
	}
	if n == 0 {
		return false, shortFn(g) + " has no successful return"
	}
	return true, ""
}

func c28DefinitelyErr(v ssa.Value, lits []Lit) bool {
	if isNilConst(v) {
		return false
	}
	if c28HasLit(lits, F("("+desc(v)+" == nil)")) {
		return true
	}
	switch x := stripConv(v).(type) {
	case *ssa.Call:
		switch calleeName(&x.Call) {
		case "fmt.Errorf", "errors.New":
			return true
		}
	case *ssa.UnOp:
		if _, ok := x.X.(*ssa.Global); ok && x.Op == token.MUL {
			return true // package-level error value (ErrNoSegmentsFound)
		}
	case *ssa.Phi:
		for _, ed := range x.Edges {
			if !c28DefinitelyErr(ed, nil) {
				return false
			}
		}
		return true
	}
	return false
}

// c28ProducerOrigin: does the list come from outside the function (module call
// result or parameter)?
func c28ProducerOrigin(v ssa.Value, seen map[ssa.Value]bool) bool {
	if seen[v] {
		return false
	}
	seen[v] = true
	switch x := v.(type) {
	case *ssa.Phi:
		for _, ed := range x.Edges {
			if c28ProducerOrigin(ed, seen) {
				return true
			}
		}
	case *ssa.Slice:
		if _, isSlice := x.X.Type().Underlying().(*types.Slice); isSlice {
			return c28ProducerOrigin(x.X, seen)
		}
	case *ssa.ChangeType:
		return c28ProducerOrigin(x.X, seen)
	case *ssa.UnOp:
		if a, ok := x.X.(*ssa.Alloc); ok && x.Op == token.MUL {
			if sv := singleStore(a); sv != nil {
				return c28ProducerOrigin(sv, seen)
			}
		}
	case *ssa.Extract:
		if c, ok := x.Tuple.(*ssa.Call); ok {
			return c28IsModuleBody(c.Call.StaticCallee())
		}
	case *ssa.Call:
		if _, isB := x.Call.Value.(*ssa.Builtin); isB {
			return false
		}
		return c28IsModuleBody(x.Call.StaticCallee())
	case *ssa.Parameter:
		return true
	}
	return false
}

func c28ListContract(c *Ctx, p *Prog, set []*ssa.Function) {
	n := 0
	type agg struct {
		ok     bool
		pos    string
		detail string
	}
	seen := map[string]*agg{}
	var order []string
	for _, f := range set {
		fn := f
		eachInstr(fn, func(i ssa.Instruction) {
			var x ssa.Value
			what := ""
			switch s := i.(type) {
			case *ssa.IndexAddr:
				if _, ok := s.X.Type().Underlying().(*types.Slice); !ok {
					return
				}
				if k, ok := constInt64(s.Index); ok && k == 0 {
					x, what = s.X, "[0]"
				} else if c28IsLenMinus1(s.Index, s.X) {
					x, what = s.X, "[len-1]"
				}
			case *ssa.Slice:
				if _, ok := s.X.Type().Underlying().(*types.Slice); !ok || s.Low == nil {
					return
				}
				if k, ok := constInt64(s.Low); ok && k == 1 {
					x, what = s.X, "[1:]"
				} else if c28IsLenMinus1(s.Low, s.X) {
					x, what = s.X, "[len-1:]"
				}
			}
			if x == nil || !c28ProducerOrigin(x, map[ssa.Value]bool{}) {
				return
			}
			n++
			e := &c28ne{p: p}
			ok, why := e.neAt(x, c28LitsAt(i.Block(), nil), nil, 0)
			key := fnName(fn) + ": " + trunc(c28ListName(x), 90) + what + " - the list is not empty here"
			detail := ""
			if !ok {
				detail = why + ". The entries of the list are decided by the files of the recording directory: an empty list makes this access panic (index out of range), which terminates the server"
			}
			if g := seen[key]; g == nil {
				seen[key] = &agg{ok, p.Pos(posOf(i, fn)), detail}
				order = append(order, key)
			} else if !ok && g.ok {
				g.ok, g.pos, g.detail = false, p.Pos(posOf(i, fn)), detail
			}
		})
	}
	for _, k := range order {
		c.Check("C28.P10."+c28KeyFn(k), k, seen[k].ok, seen[k].pos, seen[k].detail)
	}
	c.Floor("C28.P10", n, 6)
	c28ContractChecks(c, p)
}

func c28KeyFn(k string) string {
	// "(*internal/playback.Server).onList: ..." -> onList
	head := k
	if i := strings.Index(k, ": "); i >= 0 {
		head = k[:i]
	}
	if i := strings.LastIndex(head, "."); i >= 0 {
		head = head[i+1:]
	}
	if i := strings.Index(head, "$"); i >= 0 {
		head = head[:i]
	}
	return head
}

// c28ListName: the producers a list value comes from (stable across the phis
// that re-slicing introduces).
func c28ListName(v ssa.Value) string {
	names := map[string]bool{}
	var walk func(v ssa.Value, seen map[ssa.Value]bool)
	walk = func(v ssa.Value, seen map[ssa.Value]bool) {
		if seen[v] {
			return
		}
		seen[v] = true
		switch x := v.(type) {
		case *ssa.Phi:
			for _, ed := range x.Edges {
				walk(ed, seen)
			}
		case *ssa.Slice:
			walk(x.X, seen)
		case *ssa.ChangeType:
			walk(x.X, seen)
		case *ssa.UnOp:
			if a, ok := x.X.(*ssa.Alloc); ok && x.Op == token.MUL {
				if sv := singleStore(a); sv != nil {
					walk(sv, seen)
					return
				}
			}
			names["variable"] = true
		case *ssa.Extract:
			if c, ok := x.Tuple.(*ssa.Call); ok {
				names["result of "+calleeName(&c.Call)] = true
			}
		case *ssa.Call:
			names["result of "+calleeName(&x.Call)] = true
		case *ssa.Parameter:
			names["parameter "+x.Name()] = true
		default:
			names["local value"] = true
		}
	}
	walk(v, map[ssa.Value]bool{})
	var out []string
	for k := range names {
		out = append(out, k)
	}
	sort.Strings(out)
	return strings.Join(out, " / ")
}

// c28ContractChecks keeps the tabled producer contracts honest.
func c28ContractChecks(c *Ctx, p *Prog) {
	// FindSegments: every return with a nil error is dominated by the emptiness test of the returned list
	if fs := c.fn(p, "internal/recordstore", "", "FindSegments"); fs != nil {
		n := 0
		for _, b := range fs.Blocks {
			if b.Comment == "recover" || len(b.Instrs) == 0 {
				continue
			}
			r, ok := b.Instrs[len(b.Instrs)-1].(*ssa.Return)
			if !ok || len(r.Results) != 2 || c28DefinitelyErr(retVal(r, 1), c28LitsAt(b, nil)) {
				continue
			}
			n++
			x := desc(retVal(r, 0))
			ri := ssa.Instruction(r)
			w := reachWithout(entry(fs), func(i ssa.Instruction) bool { return i == ri }, []LitPat{F("(" + x + " == nil)"), F("(len(" + x + ") == 0)")})
			c.Check("C28.P10.contract", "recordstore.FindSegments: a return with a nil error is preceded by the emptiness test of the collected list", w == nil, p.Pos(r.Pos()), w.String(p))
		}
		c.Floor("C28.P10.contract:FindSegments", n, 1)
	}
	// concatenateSegments: with an empty output no iteration skips the append
	if cs := c.fn(p, "internal/playback", "", "concatenateSegments"); cs != nil {
		var outAppend []*ssa.Call
		eachInstr(cs, func(i ssa.Instruction) {
			if cl, ok := i.(*ssa.Call); ok && isCallTo(cl, "append") && strings.Contains(typeStr(cl.Type()), "listEntry") {
				outAppend = append(outAppend, cl)
			}
		})
		c.Check("C28.P10.contract", "playback.concatenateSegments: appends to its output", len(outAppend) >= 1, p.Pos(cs.Pos()), "")
		// the emptiness tests of the output: len(v) == 0 for a v of the result type
		emptyAtoms := map[string]bool{}
		eachInstr(cs, func(i ssa.Instruction) {
			if cl, ok := i.(*ssa.Call); ok && isCallTo(cl, "len") && len(cl.Call.Args) == 1 && types.Identical(cl.Call.Args[0].Type(), cs.Signature.Results().At(0).Type()) {
				emptyAtoms["(len("+desc(cl.Call.Args[0])+") == 0)"] = true
			}
		})
		// the loop: a block with a Next / range-index test whose body reaches it again
		for _, b := range cs.Blocks {
			if b.Comment != "rangeindex.loop" && b.Comment != "rangeiter.loop" && b.Comment != "for.loop" {
				continue
			}
			if len(b.Succs) != 2 {
				continue
			}
			body := b.Succs[0]
			head := b
			w := (&Walker{
				Visit: func(i ssa.Instruction) int {
					if cl, ok := i.(*ssa.Call); ok {
						for _, a := range outAppend {
							if a == cl {
								return wStop
							}
						}
					}
					if i.Block() == head {
						return wHit
					}
					return wContinue
				},
				// follow only edges that are possible while the output is still empty
				Edge: func(l Lit) bool { return !(emptyAtoms[l.Atom] && !l.Pos) },
			}).Run(Point{body, 0})
			c.Check("C28.P10.contract", "playback.concatenateSegments: while the output is empty every iteration appends an entry", w == nil, p.Pos(cs.Pos()), w.String(p))
		}
		// the result is the accumulated output
		for _, r := range returnsOf(cs) {
			d := desc(retVal(r, 0))
			c.Check("C28.P10.contract", "playback.concatenateSegments: returns the accumulated output", strings.Contains(d, "append("), p.Pos(r.Pos()), trunc(d, 120))
		}
	}
}
