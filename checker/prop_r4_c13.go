package main

// C13 (round 4) - an in-place reload is applied on EVERY path, at every hop.
//
// C13.reload_applied.stored (round 3) is existential: the payload of a Reload*
// call reaches a store into the running component somewhere. "The component runs
// with the new values" needs more: the payload travels through a chain of hops -
// the Reload* method hands it to the request channel of the component's run
// loop, the loop receives it and stores it / passes it to a handler, the handler
// stores it and passes it on to the components below (core -> path manager ->
// path -> static source handler) - and at each hop it must be stored or handed
// on whatever the state of the component is. A hop that drops the payload on
// one of its paths (an early `continue` / `return` taken "because nothing is
// running right now") leaves the component with the configuration it had before
// the reload, although every component above it already runs with the new one.
//
//	reload_applied.every_path
//	    hop (f, v): v is the payload as it enters f - a parameter (f was handed the
//	    payload by a call) or the value received from the reload channel in f's run
//	    loop. APPLY(f, v) = instructions of f that store v into a field of a
//	    long-lived object or into a variable declared outside the receiving
//	    statement, send it on a channel, or pass it to a module function in which
//	    it (transitively) reaches such a store or send. Every path from the point
//	    where v enters f to the point where f is done with it (a return for a
//	    parameter; the next wait on the same receive for a run loop) executes an
//	    instruction of APPLY(f, v). Paths on which v was compared equal to
//	    something (nil, the current value) are exempt: there is nothing to apply.
//
// The chain is discovered from the Reload* methods Core.closeResources calls and
// continued through every reload method called by a function on the chain.
//
// Seeded change C13_r4: staticsources.Handler.run skipped `s.Conf = newConf`
// while the handler was waiting to re-create a failed source instance; the next
// instance was created with the old configuration.

import (
	"fmt"
	"go/token"
	"os"
	"sort"
	"strings"

	"golang.org/x/tools/go/ssa"
)

func init() {
	addMutants(
		Mutant{"C13", "static-source-conf-stored-only-while-instance-runs", "internal/staticsources/handler.go",
			"			s.Conf = newConf\n			if !recreating {\n", "			if !recreating {\n				s.Conf = newConf\n", "C13.reload_applied.every_path"},
		Mutant{"C13", "cleaner-ignores-empty-reload", "internal/recordcleaner/cleaner.go",
			"			c.PathConfs = cnf\n", "			if len(cnf) != 0 {\n				c.PathConfs = cnf\n			}\n", "C13.reload_applied.every_path"},
		Mutant{"C13", "path-conf-installed-only-with-static-source", "internal/core/path.go",
			"	pa.conf = newConf\n	pa.confMutex.Unlock()\n\n	if pa.conf.HasStaticSource() {\n", "	if newConf.HasStaticSource() {\n		pa.conf = newConf\n	}\n	pa.confMutex.Unlock()\n\n	if pa.conf.HasStaticSource() {\n", "C13.reload_applied.every_path"},
	)
}

type hopR4c13 struct {
	fn    *ssa.Function
	v     ssa.Value       // a Parameter, or the received value
	wait  ssa.Instruction // receive hops: the Select / receive instruction
	start Point
	from  string // how the payload got here
	ch    string // receive hops: the channel field

	alias   map[ssa.Value]bool
	applies map[ssa.Instruction]string
	calls   map[ssa.Instruction]*hopR4c13 // calls whose being an apply depends on the callee
	done    bool
}

type tracerR4c13 struct {
	p    *Prog
	hops map[ssa.Value]*hopR4c13
	list []*hopR4c13
}

// c13ReportedDropsR4: no hop is exempted. The rule found one genuine drop on the
// pinned tree ((*staticsources.Handler).ReloadConf returned early when the source
// was not running: a hot reload that arrived while an on-demand source was idle was
// lost); it is repaired in /repo (8a2e0dd) and recorded in known_findings.json.
var c13ReportedDropsR4 = map[string]string{}

// below: the payload reaches a store/send in this hop or in a hop it calls.
func (h *hopR4c13) below(seen map[*hopR4c13]bool) bool {
	if seen[h] {
		return false
	}
	seen[h] = true
	if len(h.applies) > 0 {
		return true
	}
	for _, c := range h.calls {
		if c.below(seen) {
			return true
		}
	}
	return false
}

func (t *tracerR4c13) enter(fn *ssa.Function, v ssa.Value, wait ssa.Instruction, start Point, from string) *hopR4c13 {
	if h := t.hops[v]; h != nil {
		return h
	}
	h := &hopR4c13{fn: fn, v: v, wait: wait, start: start, from: from, alias: map[ssa.Value]bool{}, applies: map[ssa.Instruction]string{}, calls: map[ssa.Instruction]*hopR4c13{}}
	t.hops[v] = h
	t.list = append(t.list, h)
	if len(t.list) > 400 {
		return h
	}
	work := []ssa.Value{v}
	h.alias[v] = true
	add := func(x ssa.Value) {
		if x != nil && !h.alias[x] {
			h.alias[x] = true
			work = append(work, x)
		}
	}
	for len(work) > 0 {
		x := work[len(work)-1]
		work = work[:len(work)-1]
		if x.Referrers() == nil {
			continue
		}
		xIsCell := false
		switch x.(type) {
		case *ssa.Alloc, *ssa.FreeVar:
			xIsCell = true
		}
		for _, r := range *x.Referrers() {
			if xIsCell {
				// a variable that only names the payload: its loads are the payload
				if u, ok := r.(*ssa.UnOp); ok && u.Op == token.MUL && u.X == x {
					add(u)
				}
				// a function literal that captures the variable: what it does with the
				// payload is done wherever the literal is invoked (go func() { ch <- v }())
				if mc, ok := r.(*ssa.MakeClosure); ok {
					cf, _ := mc.Fn.(*ssa.Function)
					for k, b := range mc.Bindings {
						if b != x || cf == nil || k >= len(cf.FreeVars) || cf.Blocks == nil {
							continue
						}
						ch := t.enter(cf, cf.FreeVars[k], nil, entry(cf), from+" → "+fnName(fn))
						if mc.Referrers() == nil {
							continue
						}
						for _, u := range *mc.Referrers() {
							if cc := callCommon(u); cc != nil && cc.Value == ssa.Value(mc) {
								h.calls[u] = ch
							}
						}
					}
				}
				continue
			}
			switch y := r.(type) {
			case *ssa.Phi, *ssa.ChangeType, *ssa.Convert, *ssa.MakeInterface, *ssa.ChangeInterface:
				add(r.(ssa.Value))
			case *ssa.Store:
				if y.Val != x {
					continue
				}
				switch a := y.Addr.(type) {
				case *ssa.Alloc:
					if a.Block() == y.Block() || a.Block() == nil {
						add(a) // the variable of the receiving statement itself (spilled because a closure captures it)
					} else {
						h.applies[y] = "kept in the variable " + a.Comment
					}
				case *ssa.FieldAddr:
					if s, f, ok := fieldOfAddrR3c13(a); ok {
						if _, fresh := a.X.(*ssa.Alloc); !fresh {
							h.applies[y] = "stored into " + s + "." + f
						}
					}
				case *ssa.FreeVar, *ssa.Global:
					h.applies[y] = "stored into " + desc(a)
				}
			case *ssa.Send:
				if y.X == x {
					h.applies[y] = "sent on " + desc(y.Chan)
					t.received(y.Chan, from+" → "+fnName(fn))
				}
			case *ssa.Select:
				for _, st := range y.States {
					if st.Send == x {
						h.applies[y] = "sent on " + desc(st.Chan)
						t.received(st.Chan, from+" → "+fnName(fn))
					}
				}
			case *ssa.Call, *ssa.Go:
				cc := callCommon(r)
				callee := cc.StaticCallee()
				if callee == nil || callee.Blocks == nil || !inModule(callee) || cc.IsInvoke() {
					continue
				}
				for k, a := range cc.Args {
					if a == x && k < len(callee.Params) {
						h.calls[r] = t.enter(callee, callee.Params[k], nil, entry(callee), from+" → "+fnName(fn))
					}
				}
			}
		}
	}
	h.done = true
	return h
}

// received: every receive from the struct-field channel ch continues the chain.
func (t *tracerR4c13) received(ch ssa.Value, from string) {
	strct, name, ok := chanFieldR3c13(ch)
	if !ok {
		return
	}
	for _, g := range t.p.ModFuncs() {
		for _, b := range g.Blocks {
			for _, ins := range b.Instrs {
				switch x := ins.(type) {
				case *ssa.Select:
					k := 0
					for _, st := range x.States {
						if st.Send != nil {
							continue
						}
						if s2, c2, ok := chanFieldR3c13(st.Chan); ok && s2 == strct && c2 == name {
							if ex := extractOf(x, 2+k); ex != nil {
								t.enter(g, ex, x, after(ex), from+" → "+strct+"."+name).ch = strct + "." + name
							}
						}
						k++
					}
				case *ssa.UnOp:
					if x.Op != token.ARROW {
						continue
					}
					if s2, c2, ok := chanFieldR3c13(x.X); ok && s2 == strct && c2 == name {
						var val ssa.Value = x
						if x.CommaOk {
							if ex := extractOf(x, 0); ex != nil {
								val = ex
							}
						}
						t.enter(g, val, x, after(val.(ssa.Instruction)), from+" → "+strct+"."+name).ch = strct + "." + name
					}
				}
			}
		}
	}
}

func isReloadMethodR4c13(f *ssa.Function) bool {
	return f != nil && f.Blocks != nil && inModule(f) && f.Signature.Recv() != nil && f.Parent() == nil &&
		strings.HasPrefix(strings.ToLower(aliasName(f)), "reload")
}

func c13EveryPathR4(c *Ctx, p *Prog) {
	const rule = "C13.reload_applied.every_path"
	cr := c.fn(p, "internal/core", "Core", "closeResources")
	if cr == nil {
		return
	}
	t := &tracerR4c13{p: p, hops: map[ssa.Value]*hopR4c13{}}
	entered := map[*ssa.Function]bool{}
	enterMethod := func(m *ssa.Function, from string) {
		if entered[m] {
			return
		}
		entered[m] = true
		for k := 1; k < len(m.Params); k++ {
			t.enter(m, m.Params[k], nil, entry(m), from)
		}
	}
	eachInstr(cr, func(i ssa.Instruction) {
		if cc := callCommon(i); cc != nil && isReloadMethodR4c13(cc.StaticCallee()) {
			enterMethod(cc.StaticCallee(), fnName(cr))
		}
	})
	// reload methods called by the functions of the chain continue it (the payload
	// is often a part of the received value: one path configuration of the map)
	for n := -1; n != len(t.list); {
		n = len(t.list)
		for _, h := range append([]*hopR4c13{}, t.list...) {
			if !h.below(map[*hopR4c13]bool{}) {
				continue
			}
			hh := h
			eachInstr(h.fn, func(i ssa.Instruction) {
				if cc := callCommon(i); cc != nil && isReloadMethodR4c13(cc.StaticCallee()) {
					enterMethod(cc.StaticCallee(), hh.from+" → "+fnName(hh.fn))
				}
			})
		}
	}
	var hops []*hopR4c13
	for _, h := range t.list {
		if h.below(map[*hopR4c13]bool{}) {
			hops = append(hops, h)
		}
	}
	sort.SliceStable(hops, func(i, j int) bool { return fnName(hops[i].fn) < fnName(hops[j].fn) })
	c.Floor(rule, len(hops), 12)
	if os.Getenv("MTXCHECK_VERBOSE") != "" {
		for _, h := range t.list {
			fmt.Printf("    hop %s %s wait=%v applies=%d calls=%d below=%v  [%s]\n", fnName(h.fn), desc(h.v), h.wait != nil, len(h.applies), len(h.calls), h.below(map[*hopR4c13]bool{}), h.from)
		}
	}
	nRecv := 0
	for _, h := range hops {
		c.Analysed(fnName(h.fn))
		applies := map[ssa.Instruction]string{}
		var names []string
		for i, s := range h.applies {
			applies[i] = s
			names = append(names, s)
		}
		for i, ch := range h.calls {
			if ch.below(map[*hopR4c13]bool{}) {
				applies[i] = "passed to " + fnName(ch.fn)
				names = append(names, applies[i])
			}
		}
		sort.Strings(names)
		vd := desc(h.v)
		exempt := func(l Lit) bool {
			// the payload was compared equal to something: nothing to apply on this path
			if !l.Pos {
				return false
			}
			if strings.HasPrefix(l.Atom, "("+vd+" == ") || strings.HasSuffix(l.Atom, " == "+vd+")") {
				return true
			}
			return strings.Contains(l.Atom, "Equal(") && strings.Contains(l.Atom, vd)
		}
		var target func(ssa.Instruction) bool
		what, done := "", ""
		if h.wait != nil {
			nRecv++
			wait := h.wait
			target = func(i ssa.Instruction) bool { return i == wait }
			what = "the value received from the reload channel " + h.ch
			done = "the next wait on that channel"
		} else {
			target = anyReturn
			what = "the reload payload parameter " + vd
			if _, isFree := h.v.(*ssa.FreeVar); isFree {
				what = "the captured reload payload"
			}
			done = "a return"
		}
		w := (&Walker{
			Visit: func(i ssa.Instruction) int {
				if _, ok := applies[i]; ok {
					return wStop
				}
				if target(i) {
					return wHit
				}
				return wContinue
			},
			Edge: func(l Lit) bool { return !exempt(l) },
		}).Run(h.start)
		pos := h.fn.Pos()
		if w != nil && w.Hit != nil {
			pos = posOf(w.Hit, h.fn)
		} else if h.wait != nil {
			pos = posOf(h.wait, h.fn)
		}
		ok := w == nil
		note := ""
		if why, reported := c13ReportedDropsR4[fnName(h.fn)]; reported && !ok {
			ok, note = true, why+" -- "
			c.Count("reported_reload_drops", 1)
		}
		c.Check(rule, fnName(h.fn)+": "+what+" is stored or handed on on every path to "+done, ok, p.Pos(pos), note+
			fmt.Sprintf("chain %s; applied by: %s; a path that drops the payload leaves this component (and everything it feeds) running with the configuration from before the reload: %s", h.from, strings.Join(names, ", "), w.String(p)))
	}
	c.Floor(rule+".run_loops", nRecv, 4)
}
