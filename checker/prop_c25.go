package main

import (
	"golang.org/x/tools/go/ssa"
)

// C25 - absolute timestamps track the wall clock.
// Decides the bound clause and the shape of the steady-state formula of
// ntpestimator.(*Estimator).Estimate on all paths. Does not decide the
// arithmetic of package time or the scale helper (C24).

const (
	c25Now      = "(time.Time).Round(dyn:ntpestimator.timeNow(), 0)"
	c25Scaled   = "ntpestimator.multiplyAndDivide(($1 - $0.refPTS), 1000000000, $0.ClockRate)"
	c25Computed = "(time.Time).Add($0.refNTP, " + c25Scaled + ")"
	c25After    = "(time.Time).After(" + c25Computed + ", " + c25Now + ")"
	c25Before   = "(time.Time).Before(" + c25Computed + ", (time.Time).Add(" + c25Now + ", -5000000000))"
	c25Unset    = "(time.Time).Equal($0.refNTP, ntpestimator.zero)"
)

func init() {
	register(Property{ID: "C25", Level: "other", Run: runC25,
		Technique: "static analysis: must-pass-through path conditions and value shapes on the SSA of Estimator.Estimate, whole-module who-may-write on the reference fields and constructor literals",
		Text:      "Decides on every path of (*Estimator).Estimate: the wall clock is read exactly once and stripped of its monotonic reading; every returned value is either that reading or computed = refNTP + scale(pts - refPTS, 1 s, ClockRate); computed is returned only when neither computed.After(now) nor computed.Before(now - 5 s) held (the constant is 5 s); every return of `now` re-bases both refNTP := now and refPTS := pts and the steady path stores nothing, so consecutive steady results share one base; the first call (refNTP unset) re-bases; refNTP/refPTS are written nowhere else in the module; every Estimator literal in the module sets ClockRate and every Estimate call site passes the unit's/sample's PTS. Not decided: time.Time arithmetic, exactness of the scale helper (C24), that ClockRate is the clock rate of the PTS passed in.",
		Note:      "trusted: package time (After/Before/Add/Round), the scale helper (decided by C24)"})
	addMutants(
		Mutant{"C25", "future-not-rejected", "internal/ntpestimator/estimator.go",
			"if computed.After(now) || computed.Before(now.Add(-maxTimeDifference)) {", "if computed.Before(now.Add(-maxTimeDifference)) {", "C25.bound"},
		Mutant{"C25", "past-bound-dropped", "internal/ntpestimator/estimator.go",
			"if computed.After(now) || computed.Before(now.Add(-maxTimeDifference)) {", "if computed.After(now) {", "C25.bound"},
		Mutant{"C25", "bound-sign-flipped", "internal/ntpestimator/estimator.go",
			"computed.Before(now.Add(-maxTimeDifference))", "computed.Before(now.Add(maxTimeDifference))", "C25.bound"},
		Mutant{"C25", "bound-constant-widened", "internal/ntpestimator/estimator.go",
			"maxTimeDifference = 5 * time.Second", "maxTimeDifference = 50 * time.Second", "C25.bound"},
		Mutant{"C25", "rebase-forgets-pts", "internal/ntpestimator/estimator.go",
			"		e.refNTP = now\n		e.refPTS = pts\n		return now\n	}\n\n	return computed", "		e.refNTP = now\n		return now\n	}\n\n	return computed", "C25.rebase"},
		Mutant{"C25", "monotonic-kept", "internal/ntpestimator/estimator.go",
			"	now = now.Round(0)\n", "", "C25.now"},
		Mutant{"C25", "second-clock-read", "internal/ntpestimator/estimator.go",
			"		e.refNTP = now\n		e.refPTS = pts\n		return now\n	}\n\n	return computed", "		e.refNTP = timeNow()\n		e.refPTS = pts\n		return now\n	}\n\n	return computed", "C25."},
		Mutant{"C25", "steady-path-rebases", "internal/ntpestimator/estimator.go",
			"	return computed\n}", "	e.refPTS = pts\n	return computed\n}", "C25.steady"},
		Mutant{"C25", "formula-operands-swapped", "internal/ntpestimator/estimator.go",
			"multiplyAndDivide(time.Duration(pts-e.refPTS), time.Second, time.Duration(e.ClockRate))", "multiplyAndDivide(time.Duration(pts-e.refPTS), time.Duration(e.ClockRate), time.Second)", "C25.formula"},
		// premise of the "reference unset" test: the value refNTP is compared with is the zero time on every run
		Mutant{"C25", "unset-sentinel-written", "internal/ntpestimator/estimator.go",
			"	now = now.Round(0)\n", "	now = now.Round(0)\n	zero = now\n", "C25.bound.reference_set"},
		Mutant{"C25", "unset-sentinel-not-zero", "internal/ntpestimator/estimator.go",
			"var zero = time.Time{}", "var zero = time.Unix(0, 0)", "C25.bound.reference_set"},
		Mutant{"C25", "estimator-without-clockrate", "internal/protocols/hls/to_stream.go",
			"ntpEstimator := &ntpestimator.Estimator{ClockRate: track.ClockRate}", "ntpEstimator := &ntpestimator.Estimator{}", "C25.users"},
	)
}

func runC25(c *Ctx) {
	p := c.Main()
	if p == nil {
		return
	}
	c.Explain = "C25.now: one clock read per call, Round(0) applied (wall-clock comparison, not monotonic). " +
		"C25.returns: every result is `now` or `computed` (canonical SSA value shapes). C25.bound: a `computed` return carries ¬After(computed, now) ∧ ¬Before(computed, now + (-5 s)). " +
		"C25.rebase: a `now` return is preceded by refNTP := now and refPTS := pts; the unset-reference case returns now. C25.steady: no store to the reference on a path returning computed. " +
		"C25.formula: computed = refNTP.Add(scale(pts - refPTS, 1e9, ClockRate)). C25.writers: module-wide stores to refNTP/refPTS only in Estimate. C25.users: every Estimator literal sets ClockRate. " +
		"NOT decided: arithmetic in package time and in the scale helper (C24); that the caller's clock rate matches the PTS unit."
	c.Assume = []string{"time.Time.After/Before/Add/Round behave as documented", "multiplyAndDivide is exact (C24)"}
	c25FinalPTS(c, p)

	est := c.fn(p, "internal/ntpestimator", "Estimator", "Estimate")
	if est == nil {
		return
	}

	// ---- one clock read, monotonic reading stripped
	clock := callsIn(est, "dyn:ntpestimator.timeNow")
	c.Check("C25.now.read_once", fnName(est)+": exactly one wall-clock read", len(clock) == 1 && clock[0].Block() == est.Blocks[0], p.Pos(est.Pos()), sprintf("%d read(s)", len(clock)))
	// no other clock source
	other := 0
	eachInstr(est, func(i ssa.Instruction) {
		if isCallTo(i, "time.Now", "time.Since", "time.Until") {
			other++
		}
	})
	c.Check("C25.now.read_once", fnName(est)+": no other clock source (time.Now/Since/Until)", other == 0, p.Pos(est.Pos()), "")

	// ---- returns
	rets := 0
	for _, r := range returnsOf(est) {
		if r.Block().Comment == "recover" {
			continue
		}
		rets++
		d := desc(retVal(r, 0))
		c.Check("C25.returns", fnName(est)+": return "+kindC25(d), d == c25Now || d == c25Computed, p.Pos(posOf(r, est)), "returned value: "+d)
	}
	c.Floor("C25.returns", rets, 2)
	// Round(0): the value called `now` everywhere is the rounded one (comparison operands and results)
	rounded := 0
	eachInstr(est, func(i ssa.Instruction) {
		if isCallTo(i, "(time.Time).Round") {
			cc := callCommon(i)
			if len(cc.Args) == 2 && desc(cc.Args[1]) == "0" && len(clock) == 1 && cc.Args[0] == clock[0].(ssa.Value) {
				rounded++
			}
		}
	})
	c.Check("C25.now.wall_clock", fnName(est)+": now = timeNow().Round(0) (monotonic reading stripped)", rounded == 1, p.Pos(est.Pos()),
		"with a monotonic reading After/Before/Sub ignore wall-clock jumps")
	// the raw reading is used for nothing but Round
	if len(clock) == 1 {
		raw := 0
		for _, r := range *clock[0].(ssa.Value).Referrers() {
			if !isCallTo(r, "(time.Time).Round") {
				raw++
			}
		}
		c.Check("C25.now.wall_clock", fnName(est)+": the raw clock reading is only rounded", raw == 0, p.Pos(est.Pos()), sprintf("%d other use(s)", raw))
	}

	isRet := func(want string) target {
		return func(i ssa.Instruction) bool {
			r, ok := i.(*ssa.Return)
			return ok && r.Block().Comment != "recover" && desc(retVal(r, 0)) == want
		}
	}
	retComputed, retNow := isRet(c25Computed), isRet(c25Now)

	// the "reference unset" test, by meaning: every boolean value of Estimate that
	// is true exactly when refNTP is the zero instant (prop_gen_c25.go). When none
	// is found the baseline spelling is required (and reported as missing).
	unsetAtoms := c25UnsetAtoms(p, est)
	var unsetF, rebaseWhen []LitPat
	for _, a := range unsetAtoms {
		unsetF = append(unsetF, F(a))
		rebaseWhen = append(rebaseWhen, T(a))
	}
	rebaseWhen = append(rebaseWhen, T(c25After), T(c25Before))

	// ---- bound clause
	if countTargets(est, retComputed) > 0 {
		c.MustPass(p, est, "C25.bound.not_future", "return computed", retComputed, F(c25After))
		c.MustPass(p, est, "C25.bound.not_older_than_5s", "return computed", retComputed, F(c25Before))
		if len(unsetF) > 0 {
			c.MustPass(p, est, "C25.bound.reference_set", "return computed", retComputed, unsetF...)
		} else {
			c.Check("C25.bound.reference_set", fnName(est)+": return computed ⇒ "+altsStr([]LitPat{F(c25Unset)}), false, p.Pos(est.Pos()),
				"no test of `refNTP is the zero instant` found: wanted refNTP.IsZero(), or Equal/== against a value that is the zero time.Time on every run (a package variable must never be stored a non-zero value)")
		}
	} else {
		c.Check("C25.formula", fnName(est)+": a return of computed = "+c25Computed+" exists", false, p.Pos(est.Pos()), "steady-state formula not found")
	}
	// the comparisons exist with exactly these operands (constant 5 s, same `now`)
	for _, want := range []string{c25After, c25Before} {
		n := 0
		eachInstr(est, func(i ssa.Instruction) {
			if v, ok := i.(*ssa.Call); ok && desc(v) == want {
				n++
			}
		})
		c.Check("C25.bound.operands", fnName(est)+": comparison "+shortC25(want), n == 1, p.Pos(est.Pos()), "wanted exactly one call "+want)
	}

	// ---- re-basing
	storeTo := func(field, val string) target {
		return func(i ssa.Instruction) bool {
			st, ok := i.(*ssa.Store)
			return ok && desc(st.Addr) == "$0."+field && desc(st.Val) == val
		}
	}
	if countTargets(est, retNow) > 0 {
		c.MustPrecede(p, est, "C25.rebase", "return now", "refNTP := now", retNow, storeTo("refNTP", c25Now))
		c.MustPrecede(p, est, "C25.rebase", "return now", "refPTS := pts", retNow, storeTo("refPTS", "$1"))
		// `now` is returned only when the reference was unset or computed was out of bounds
		c.MustPass(p, est, "C25.rebase.only_when_needed", "return now", retNow, rebaseWhen...)
	}
	// every store to the reference fields is one of the two re-base stores
	nst := 0
	for _, f := range []string{"refNTP", "refPTS"} {
		for _, st := range fieldStores(est, "ntpestimator.Estimator", f) {
			nst++
			want := map[string]string{"refNTP": c25Now, "refPTS": "$1"}[f]
			c.Check("C25.rebase.values", fnName(est)+": store "+f+" := "+kindC25(desc(st.Val)), desc(st.Addr) == "$0."+f && desc(st.Val) == want, p.Pos(posOf(st, est)), "stored "+desc(st.Val))
		}
	}
	c.Floor("C25.rebase.values", nst, 2) // at least one store per reference field (MustPrecede above ties them to every `return now`)
	// steady path: no store to the reference before returning computed
	if countTargets(est, retComputed) > 0 {
		anyRefStore := func(i ssa.Instruction) bool {
			st, ok := i.(*ssa.Store)
			if !ok {
				return false
			}
			fa, ok := st.Addr.(*ssa.FieldAddr)
			return ok && (fieldAddrIs(fa, "ntpestimator.Estimator", "refNTP") || fieldAddrIs(fa, "ntpestimator.Estimator", "refPTS"))
		}
		// a store is fine when the path then returns now; find a store from which `return computed` is reachable
		bad := ""
		eachInstr(est, func(i ssa.Instruction) {
			if anyRefStore(i) {
				if w2 := reachAvoiding(after(i), retComputed, func(ssa.Instruction) bool { return false }); w2 != nil {
					bad = p.Pos(posOf(i, est))
				}
			}
		})
		c.Check("C25.steady.no_rebase", fnName(est)+": no store to refNTP/refPTS on a path returning computed", bad == "", p.Pos(est.Pos()), "offending store at "+bad)
	}

	// ---- formula
	nf := 0
	eachInstr(est, func(i ssa.Instruction) {
		if v, ok := i.(*ssa.Call); ok && desc(v) == c25Computed {
			nf++
		}
	})
	c.Check("C25.formula", fnName(est)+": computed = refNTP.Add(multiplyAndDivide(pts - refPTS, 1e9, ClockRate))", nf == 1, p.Pos(est.Pos()), "wanted exactly one value "+c25Computed)

	// ---- who may write the reference
	nw := 0
	for _, fn := range p.ModFuncs() {
		for _, f := range []string{"refNTP", "refPTS"} {
			for _, st := range fieldStores(fn, "ntpestimator.Estimator", f) {
				nw++
				c.Check("C25.writers", fnName(fn)+": writes Estimator."+f, fn == est, p.Pos(posOf(st, fn)), "the reference may change only inside Estimate")
			}
		}
	}
	c.Floor("C25.writers", nw, 2)

	// ---- users: literals set ClockRate; Estimate is called with a PTS
	nl := 0
	for _, pk := range p.Pkgs {
		for _, f := range pk.Syntax {
			for _, cl := range compositeLits(pk, f, "internal/ntpestimator", "Estimator") {
				nl++
				fd := enclosingFunc(f, cl.Pos())
				v := kv(cl, "ClockRate")
				c.Check("C25.users.clock_rate_set", shortPkg(pk.Types)+"."+funcDeclName(fd)+": Estimator literal sets ClockRate", v != nil && !isZeroLit(exprStr(v)), p.Pos(cl.Pos()),
					"ClockRate: "+exprStr(v)+" (a zero rate divides by zero)")
			}
		}
	}
	c.Floor("C25.users.clock_rate_set", nl, 2)
}

func isZeroLit(s string) bool { return s == "0" || s == "" }

func kindC25(d string) string {
	switch d {
	case c25Now:
		return "now"
	case c25Computed:
		return "computed"
	case "$1":
		return "pts"
	}
	return "other value"
}

func shortC25(d string) string {
	switch d {
	case c25After:
		return "computed.After(now)"
	case c25Before:
		return "computed.Before(now.Add(-5s))"
	}
	return d
}
