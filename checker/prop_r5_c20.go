package main

import (
	"strings"

	"golang.org/x/tools/go/ssa"
)

// C20.demand.initial_after_stop (round 5) - "hooks fire in well-formed start/stop
// pairs", runOnDemand / runOnUnDemand.
//
// path.onDemandPublisherState == initial is the path's record of "no runOnDemand
// pair is open": doDescribe / doAddReader start a new pair (onDemandPublisherStart
// overwrites onUnDemandHook) exactly when they see that state. The existing rules
// say where the stop closure may run (stop_callers), that it is cleared after the
// call (call_then_clear) and that the teardown runs it (closed_when_open). None of
// them says that the state may only go back to initial THROUGH the stop closure: a
// second site that resets the state (a "nothing left to wait for" shortcut when the
// publisher leaves) leaves the pair open, and the next demand starts a second
// runOnDemand without a runOnUnDemand in between; the first command is never stopped.
//
// Rule: for every store of the constant `initial` (0) into path.onDemandPublisherState
// anywhere in internal/core, every path of the storing function that passes the
// store also passes a call of the closure held in path.onUnDemandHook - before or
// after it (there is no way to the store without the call, or no way from the
// store to a return without it). When the store
// sits in a helper that does not call the closure itself, the obligation moves to
// every static call site of the helper (up to three levels), so extracting the
// reset into a helper called after the hook is not reported.
func c20InitialAfterStop(c *Ctx, p *Prog) {
	const rule = "C20.demand.initial_after_stop"
	isHookCall := func(i ssa.Instruction) bool {
		cc := callCommon(i)
		if cc == nil || cc.IsInvoke() {
			return false
		}
		ld, ok := cc.Value.(*ssa.UnOp)
		if !ok {
			return false
		}
		fa, ok := ld.X.(*ssa.FieldAddr)
		return ok && fieldAddrIs(fa, "core.path", "onUnDemandHook")
	}
	var core []*ssa.Function
	for _, fn := range p.ModFuncs() {
		if strings.HasSuffix(funcPkgPath(fn), "/internal/core") {
			core = append(core, fn)
		}
	}
	var reach func(fn *ssa.Function, target ssa.Instruction, depth int) string
	reach = func(fn *ssa.Function, target ssa.Instruction, depth int) string {
		walk := func(from Point, hit func(ssa.Instruction) bool) *Witness {
			return (&Walker{
				Visit: func(x ssa.Instruction) int {
					if isHookCall(x) {
						return wStop
					}
					if hit(x) {
						return wHit
					}
					return wContinue
				},
				Edge: func(Lit) bool { return true },
			}).Run(from)
		}
		// the closure may run before or after the store (both fields belong to the
		// path goroutine, nothing observes the order): a violating run needs a way
		// to the store without the call AND a way from the store to a return
		// without it
		w := walk(entry(fn), func(x ssa.Instruction) bool { return x == target })
		if w == nil {
			return ""
		}
		if walk(after(target), anyReturn) == nil {
			return ""
		}
		if depth == 0 {
			return fnName(fn) + ": " + w.String(p)
		}
		// the function itself does not run the closure first: every caller must
		n := 0
		for _, g := range core {
			var bad string
			eachInstr(g, func(i ssa.Instruction) {
				cc := callCommon(i)
				if cc == nil || cc.StaticCallee() != fn || bad != "" {
					return
				}
				n++
				bad = reach(g, i, depth-1)
			})
			if bad != "" {
				return bad
			}
		}
		if n == 0 {
			return fnName(fn) + ": " + w.String(p)
		}
		return ""
	}
	n := 0
	for _, fn := range core {
		for _, st := range fieldStores(fn, "core.path", "onDemandPublisherState") {
			if v, ok := smallConst(st.Val); !ok || v != 0 {
				continue
			}
			n++
			bad := reach(fn, st, 3)
			c.Check(rule, fnName(fn)+": onDemandPublisherState = initial only after the onUnDemandHook closure ran", bad == "", p.Pos(st.Pos()),
				"the state says no runOnDemand pair is open while the stop closure was not called: the next demand starts runOnDemand again without runOnUnDemand in between and overwrites the closure of the first command; "+bad)
		}
	}
	c.Floor(rule, n, 1)
}

func init() {
	addMutants(
		// round 5 class: the state goes back to initial although the stop closure did not run on one path
		Mutant{"C20", "demand-state-reset-without-stop", "internal/core/path.go",
			"	pa.onUnDemandHook(reason)\n	pa.onUnDemandHook = nil\n\n	pa.onDemandPublisherState = pathOnDemandStateInitial\n",
			"	if pa.source != nil {\n		pa.onUnDemandHook(reason)\n		pa.onUnDemandHook = nil\n	}\n\n	pa.onDemandPublisherState = pathOnDemandStateInitial\n", "C20.demand.initial_after_stop"},
		// round 5 class (C13): the in-place reload of one component also waits for another component's flag
		Mutant{"C13", "playback-reload-guarded-by-cleaner-flag", "internal/core/core.go",
			"	if !closePlaybackServer && p.playbackServer != nil && !reflect.DeepEqual(newConf.Paths, currentConf.Paths) {",
			"	if !closePlaybackServer && !closeRecorderCleaner && p.playbackServer != nil && !reflect.DeepEqual(newConf.Paths, currentConf.Paths) {", "C13.hot_guard"},
		// round 5 class (C28): a size read from the file positions into a fixed-size buffer, only its lower end is tested
		Mutant{"C28", "tfhd-payload-into-fixed-buffer", "internal/playback/segment_fmp4.go",
			"		buf2 := make([]byte, tfhdSize-8)\n", "		var hdrBuf [32]byte\n		buf2 := hdrBuf[:tfhdSize-8]\n", "C28.P9"},
	)
}
