package main

import (
	"go/types"

	"golang.org/x/tools/go/ssa"
)

// C30.walk_complete - the directory walks the cleaner relies on visit every
// entry below their root.
//
// filepath.WalkDir gives its callback three ways to cut the walk short: return
// fs.SkipDir (from a file callback: the remaining entries of the CONTAINING
// directory - sibling files, sub-directories, segments of other paths - are
// skipped), return fs.SkipAll, or return any other non-nil error (the walk
// stops). The enumeration of the paths to clean (regexpPathFindPathsWithSegments),
// the listing of the segments to delete (FindSegments) and the directory sweep
// (deleteEmptyDirs) only see "every segment" if their callbacks never do that.
// Hence, for every filepath.WalkDir / filepath.Walk call in the static closure
// of the cleaner's goroutine, every value the callback can return is
//
//   - the constant nil, or
//   - the callback's own error parameter (nil, or the error WalkDir itself
//     reports for the entry - handing it back is the documented default), or
//   - a sentinel error variable of the module, and then only in a yes/no probe:
//     the function that calls WalkDir returns a single bool and hands the walk's
//     result to errors.Is(result, that same sentinel) (fixedPathHasSegments:
//     "is there at least one segment" - stopping at the first hit is the point).
//
// Everything else (fs.SkipDir, fs.SkipAll, filepath.SkipDir, a call result, an
// error built on the spot) prunes or aborts a collecting walk and is reported.
// Values are looked at through phis (`var ret error ... return ret`), through
// defer-spilled results (retVal) and through the engine's helper inlining, so
// an extra early `return nil`, merged guards or an extracted helper do not matter.

var c30WalkFuncs = []string{"path/filepath.WalkDir", "path/filepath.Walk", "io/fs.WalkDir"}

func c30WalkComplete(c *Ctx, p *Prog, reach []*ssa.Function) {
	const rule = "C30.walk_complete"
	n := 0
	for _, f := range reach {
		for _, i := range callsIn(f, c30WalkFuncs...) {
			cc := callCommon(i)
			walk, _ := i.(*ssa.Call)
			n++
			cbArg := cc.Args[len(cc.Args)-1]
			for { // func literal converted to fs.WalkDirFunc
				ct, ok := cbArg.(*ssa.ChangeType)
				if !ok {
					break
				}
				cbArg = ct.X
			}
			var cb *ssa.Function
			switch x := cbArg.(type) {
			case *ssa.MakeClosure:
				cb, _ = x.Fn.(*ssa.Function)
			case *ssa.Function:
				cb = x
			}
			if cb == nil || cb.Blocks == nil || walk == nil {
				c.Check(rule, fnName(f)+": the callback of "+calleeName(cc)+" is a function literal or declared function of the module", false, p.Pos(i.Pos()),
					"callback is "+desc(cbArg)+": what it returns cannot be enumerated")
				continue
			}
			c.Analysed(fnName(cb))
			np := len(cb.Params)
			var errParam ssa.Value
			if np > 0 {
				errParam = cb.Params[np-1] // func(path, d/info, err) error
			}
			rets := returnsOf(cb)
			if len(rets) == 0 {
				c.Check(rule, fnName(cb)+": returns", false, p.Pos(cb.Pos()), "no return found")
			}
			bad := map[string]bool{}
			for _, r := range rets {
				v := retVal(r, 0)
				if v == nil {
					continue
				}
				for _, leaf := range phiLeaves(v) {
					leaf = c30StripIface(leaf)
					d := desc(leaf)
					switch {
					case isNilConst(leaf):
					case errParam != nil && leaf == errParam:
					case c30ProbeSentinel(f, walk, leaf):
					default:
						if !bad[d] {
							bad[d] = true
							c.Check(rule, fnName(cb)+": returns "+trunc(d, 70)+" to "+calleeName(cc), false, p.Pos(posOf(r, cb)),
								"a non-nil result other than the walk's own error prunes (SkipDir: the rest of the containing directory, i.e. sibling segments, sub-directories and other paths) or stops the walk: segments / paths that follow are never seen by the cleaner and never deleted")
						}
					}
				}
			}
			c.Check(rule, fnName(cb)+": every result handed to "+calleeName(cc)+" is nil, the callback's own err parameter, or the sentinel of a yes/no probe", len(bad) == 0 && len(rets) > 0,
				p.Pos(cb.Pos()), "")
		}
	}
	// FindSegments, regexpPathFindPathsWithSegments, fixedPathHasSegments, deleteEmptyDirs
	c.Floor(rule, n, 4)
}

// c30StripIface looks through an error value boxed from a concrete value.
func c30StripIface(v ssa.Value) ssa.Value {
	for {
		switch x := v.(type) {
		case *ssa.ChangeInterface:
			v = x.X
			continue
		}
		return v
	}
}

// c30ProbeSentinel: leaf is a load of a module-level error variable G, the
// function that runs the walk returns exactly one bool, and it passes the
// walk's result to errors.Is(result, G).
func c30ProbeSentinel(parent *ssa.Function, walk *ssa.Call, leaf ssa.Value) bool {
	u, ok := leaf.(*ssa.UnOp)
	if !ok {
		return false
	}
	g, ok := u.X.(*ssa.Global)
	if !ok || g.Pkg == nil || g.Pkg.Pkg == nil || !inModulePath(g.Pkg.Pkg.Path()) {
		return false
	}
	res := parent.Signature.Results()
	if res.Len() != 1 {
		return false
	}
	if b, ok := res.At(0).Type().Underlying().(*types.Basic); !ok || b.Kind() != types.Bool {
		return false
	}
	recognised := false
	eachInstr(parent, func(i ssa.Instruction) {
		if !isCallTo(i, "errors.Is") {
			return
		}
		a := callCommon(i).Args
		if len(a) != 2 || a[0] != ssa.Value(walk) {
			return
		}
		if lu, ok := a[1].(*ssa.UnOp); ok && lu.X == ssa.Value(g) {
			recognised = true
		}
	})
	return recognised
}

func inModulePath(path string) bool {
	return len(path) >= len(modPath) && path[:len(modPath)] == modPath
}
