package main

import (
	"go/token"
	"strings"

	"golang.org/x/tools/go/ssa"
)

// C39 - forward destinations reconcile with configuration.
// Decides the shape of each transition function (ReloadConf, Start, Stop,
// DestHandler.start/stop, the three call sites in core.path); does not decide
// histories.

const (
	c39Create = "(*forward.Manager).createDestHandler"
	c39HStart = "(*forward.DestHandler).start"
	c39HStop  = "(*forward.DestHandler).stop"
	c39HRun   = "(*forward.DestHandler).run"
	c39Old    = "$0.destHandlers"
)

func init() {
	register(Property{ID: "C39", Level: "other", Run: runC39,
		Technique: "static analysis: who-may (call/write) enumeration over the whole module, must-pass-through / must-precede / must-follow path rules and loop-idiom recognition on go/ssa for forward.Manager.{ReloadConf,Start,Stop,Initialize}, forward.DestHandler.{start,stop} and their three call sites in core.path",
		Text:      "Decides per transition function: ReloadConf installs, for every index i of the new list (full range), either the old handler i - only under destHandlers[i].Conf == forward[i], whole-struct equality - or a handler created from forward[i] with Pos i+1, which is started with m.stream iff m.started before it is installed; every replaced handler (i < len(old)) and every old handler at index >= len(forward) is queued, and exactly the queued handlers are stopped, under m.started, by a full-range loop; the new list is committed on every path. Start records started/stream and starts every handler with the stream argument; Stop clears started and stops every handler. DestHandler.start spawns exactly one run goroutine after creating ctx/done; stop cancels and waits. Who-may: DestHandler.start/stop/run/createDestHandler are called, and Manager.started/stream/destHandlers written, only by those functions; Manager.Start/Stop/ReloadConf only by path.setAvailable (after Stream.Initialize succeeded, before every nil return) / path.setNotAvailable (on every path, before the stream is dropped) / path.doReloadConf (on every path, with newConf.Forward); path.stream is written only by setAvailable/setNotAvailable. Not decided: histories (that Start/Stop alternate), the forwarder's own run loop, data races.",
		Note:      "trusted: go/ssa CFG and range-loop lowering; path.run serialises setAvailable/setNotAvailable/doReloadConf (single goroutine)"})
	addMutants(
		Mutant{"C39", "reload-starts-unconditionally", "internal/forward/manager.go",
			"\t\t\tif m.started {\n\t\t\t\tdestHandler.start(m.stream)\n\t\t\t}\n", "\t\t\tdestHandler.start(m.stream)\n", "C39.reload.start_iff_started"},
		Mutant{"C39", "reload-never-starts-new", "internal/forward/manager.go",
			"\t\t\tif m.started {\n\t\t\t\tdestHandler.start(m.stream)\n\t\t\t}\n", "", "C39.reload.start_iff_started"},
		Mutant{"C39", "reuse-compares-url-only", "internal/forward/manager.go",
			"m.destHandlers[i].Conf == dest", "m.destHandlers[i].Conf.Dest == dest.Dest", "C39.reload.reuse_eq"},
		Mutant{"C39", "replaced-handler-not-queued", "internal/forward/manager.go",
			"\t\t\tif i < len(m.destHandlers) {\n\t\t\t\ttoClose = append(toClose, m.destHandlers[i])\n\t\t\t}\n", "", "C39.reload.replaced_closed"},
		Mutant{"C39", "removed-tail-off-by-one", "internal/forward/manager.go",
			"for i := len(forward); i < len(m.destHandlers); i++ {", "for i := len(forward) + 1; i < len(m.destHandlers); i++ {", "C39.reload.removed_closed"},
		// the slice spelling of the same queueing, broken
		Mutant{"C39", "removed-tail-slice-off-by-one", "internal/forward/manager.go",
			"\tfor i := len(forward); i < len(m.destHandlers); i++ {\n\t\ttoClose = append(toClose, m.destHandlers[i])\n\t}\n",
			"\tif len(m.destHandlers) > len(forward) {\n\t\ttoClose = append(toClose, m.destHandlers[len(forward)+1:]...)\n\t}\n", "C39.reload.removed_closed"},
		Mutant{"C39", "removed-tail-slice-guard-too-strict", "internal/forward/manager.go",
			"\tfor i := len(forward); i < len(m.destHandlers); i++ {\n\t\ttoClose = append(toClose, m.destHandlers[i])\n\t}\n",
			"\tif len(m.destHandlers) > len(forward)+1 {\n\t\ttoClose = append(toClose, m.destHandlers[len(forward):]...)\n\t}\n", "C39.reload.removed_closed"},
		Mutant{"C39", "removed-tail-slice-of-new-list", "internal/forward/manager.go",
			"\tfor i := len(forward); i < len(m.destHandlers); i++ {\n\t\ttoClose = append(toClose, m.destHandlers[i])\n\t}\n",
			"\tif len(newHandlers) > len(forward) {\n\t\ttoClose = append(toClose, newHandlers[len(forward):]...)\n\t}\n", "C39.reload.removed_closed"},
		Mutant{"C39", "reload-stops-installed-handlers", "internal/forward/manager.go",
			"for _, handler := range toClose {", "for _, handler := range m.destHandlers {", "C39.reload.stop_only_queued"},
		Mutant{"C39", "reload-stops-regardless-of-started", "internal/forward/manager.go",
			"\tif m.started {\n\t\tfor _, handler := range toClose {\n\t\t\thandler.stop()\n\t\t}\n\t}", "\tfor _, handler := range toClose {\n\t\thandler.stop()\n\t}", "C39.reload.stop_iff_started"},
		Mutant{"C39", "reload-position-off-by-one", "internal/forward/manager.go",
			"destHandler := m.createDestHandler(i+1, dest)\n\t\t\tif m.started", "destHandler := m.createDestHandler(i, dest)\n\t\t\tif m.started", "C39.reload.order"},
		Mutant{"C39", "start-forgets-stream", "internal/forward/manager.go",
			"\tm.stream = strm\n", "", "C39.start.state"},
		Mutant{"C39", "stop-keeps-started", "internal/forward/manager.go",
			"\tm.started = false\n", "", "C39.stop.state"},
		Mutant{"C39", "path-does-not-stop-forwarders", "internal/core/path.go",
			"\tpa.forwardManager.Stop()\n\n", "", "C39.path.stop"},
		Mutant{"C39", "path-starts-forwarders-before-stream-init", "internal/core/path.go",
			"\terr := pa.stream.Initialize()\n\tif err != nil {\n\t\treturn err\n\t}\n", "\tpa.forwardManager.Start(pa.stream)\n\terr := pa.stream.Initialize()\n\tif err != nil {\n\t\treturn err\n\t}\n", "C39.path.start"},
		Mutant{"C39", "handler-restarted-on-api-get", "internal/forward/manager.go",
			"\t\tif handler.ID() == id {\n", "\t\tif handler.ID() == id {\n\t\t\tif m.started {\n\t\t\t\thandler.start(m.stream)\n\t\t\t}\n", "C39.who_may"},
	)
}

func runC39(c *Ctx) {
	p := c.Main()
	if p == nil {
		return
	}
	c.Explain = "E1/E2/E4 on internal/forward and core.path. reload.{commit,order,reuse_eq,start_args,start_iff_started,replaced_closed,removed_closed,stop_only_queued,stop_iff_started}; start.{all,state}; stop.{all,state}; handler.{start,stop}; who_may (calls of DestHandler.start/stop/run, createDestHandler, Manager.Start/Stop/ReloadConf/Initialize; writes of Manager.started/stream/destHandlers and path.stream); path.{start,stop,reload,init}. " +
		"Loops are recognised as go/ssa range-index loops over the named slice with a single-block body (full range, unconditional). " +
		"NOT decided: histories (alternation of Start/Stop is C20's subject), the run loop of a forwarder, races between API readers and the path goroutine."
	c.Assume = []string{
		"setAvailable / setNotAvailable / doReloadConf run on the path goroutine only (serialised)",
		"conf.ForwardDest is a comparable struct; == compares every field",
	}
	c39Reload(c, p)
	c39StartStop(c, p)
	c39Handler(c, p)
	c39WhoMay(c, p)
	c39Path(c, p)
}

func notRecoverReturn(i ssa.Instruction) bool {
	r, ok := i.(*ssa.Return)
	return ok && r.Block().Comment != "recover"
}

// appendsReach collects the append calls that may have produced slice v
// (through phis and the first argument of append).
func appendsReach(v ssa.Value, seen map[ssa.Value]bool, out map[*ssa.Call]bool) {
	if v == nil || seen[v] {
		return
	}
	seen[v] = true
	switch x := v.(type) {
	case *ssa.Phi:
		for _, e := range x.Edges {
			appendsReach(e, seen, out)
		}
	case *ssa.Call:
		if calleeName(&x.Call) == "append" {
			out[x] = true
			appendsReach(x.Call.Args[0], seen, out)
		}
	}
}

func c39Reload(c *Ctx, p *Prog) {
	rc := c.fn(p, "internal/forward", "Manager", "ReloadConf")
	if rc == nil {
		return
	}
	f := shortFn(rc)
	if len(rc.Params) != 2 {
		c.Undecided("UNRESOLVED ANCHOR C39: ReloadConf signature")
		return
	}
	fwd := ssa.Value(rc.Params[1])
	isOld := func(v ssa.Value) bool { return desc(v) == c39Old }

	// ---- commit
	sts := fieldStores(rc, "forward.Manager", "destHandlers")
	var ns *ssa.MakeSlice
	if len(sts) == 1 {
		ns, _ = sts[0].Val.(*ssa.MakeSlice)
	}
	okNS := ns != nil
	if okNS {
		lc, isCall := ns.Len.(*ssa.Call)
		okNS = isCall && calleeName(&lc.Call) == "len" && through(lc.Call.Args[0]) == fwd
	}
	c.Check("C39.reload.commit", f+": m.destHandlers is assigned once, a fresh slice of len(forward)", okNS, p.Pos(rc.Pos()), "")
	if !okNS {
		return
	}
	commit := ssa.Instruction(sts[0])
	c.precedeE(p, rc, "C39.reload.commit", f+": every return follows m.destHandlers = newHandlers", notRecoverReturn,
		func(i ssa.Instruction) bool { return i == commit })

	// ---- created handler
	creates := callsIn(rc, c39Create)
	var cr *ssa.Call
	if len(creates) == 1 {
		cr, _ = creates[0].(*ssa.Call)
	}
	var k ssa.Value
	var body *ssa.BasicBlock
	okOrder := cr != nil
	why := "want exactly one createDestHandler call"
	if okOrder {
		fx, fk, isElem := elemOf(cr.Call.Args[2])
		x, _, b, isRange := rangeCounter(fk)
		pos, isAdd := cr.Call.Args[1].(*ssa.BinOp)
		one := int64(0)
		if isAdd {
			one, _ = constIntE(pos.Y)
		}
		switch {
		case !isElem || through(fx) != fwd:
			okOrder, why = false, "configuration argument is "+desc(cr.Call.Args[2])+", not forward[i]"
		case !isRange || through(x) != fwd:
			okOrder, why = false, "i is not the counter of a full range over forward"
		case !isAdd || pos.Op != token.ADD || pos.X != fk || one != 1:
			okOrder, why = false, "position argument is "+desc(cr.Call.Args[1])+", not i+1"
		default:
			k, body, why = fk, b, ""
		}
	}
	c.Check("C39.reload.order", f+": handler i is created from forward[i] with Pos i+1 inside a full range over forward", okOrder, p.Pos(rc.Pos()), why)
	if !okOrder {
		return
	}

	// ---- what is installed
	var createdSt, reuseSt *ssa.Store
	okInst, why := true, ""
	for _, r := range *ns.Referrers() {
		ia, isIA := r.(*ssa.IndexAddr)
		if !isIA {
			continue
		}
		for _, rr := range *ia.Referrers() {
			st, isSt := rr.(*ssa.Store)
			if !isSt || st.Addr != ssa.Value(ia) {
				continue
			}
			if ia.Index != k {
				okInst, why = false, "an element is installed at an index other than i"
				continue
			}
			if st.Val == ssa.Value(cr) {
				createdSt = st
			} else if ox, oi, isElem := elemOf(st.Val); isElem && isOld(ox) && oi == k {
				reuseSt = st
			} else {
				okInst, why = false, "newHandlers[i] = "+desc(st.Val)
			}
		}
	}
	if okInst && (createdSt == nil || reuseSt == nil) {
		okInst, why = false, "want one store of the created handler and one store of the old handler i"
	}
	c.Check("C39.reload.order", f+": newHandlers[i] is the old handler i or the handler created for forward[i]", okInst, p.Pos(rc.Pos()), why)

	// ---- reuse only under whole-struct equality
	eqAtom := ""
	for _, b := range rc.Blocks {
		ifi := ifOf(b)
		if ifi == nil {
			continue
		}
		bo, isB := ifi.Cond.(*ssa.BinOp)
		if !isB || bo.Op != token.EQL || typeStr(bo.X.Type()) != "conf.ForwardDest" {
			continue
		}
		oldConf := func(v ssa.Value) bool {
			fa, isFA := loadAddr(v).(*ssa.FieldAddr)
			if !isFA || fieldAddrName(fa) != "Conf" {
				return false
			}
			ox, oi, isElem := elemOf(fa.X)
			return isElem && isOld(ox) && oi == k
		}
		newConf := func(v ssa.Value) bool {
			nx, ni, isElem := elemOf(v)
			return isElem && through(nx) == fwd && ni == k
		}
		if (oldConf(bo.X) && newConf(bo.Y)) || (oldConf(bo.Y) && newConf(bo.X)) {
			eqAtom = litOf(ifi.Cond, true).Atom
		}
	}
	if reuseSt != nil {
		rs := ssa.Instruction(reuseSt)
		alts := []LitPat{}
		if eqAtom != "" {
			alts = append(alts, T(eqAtom))
		}
		c.passE(p, rc, "C39.reload.reuse_eq", f+": an old handler is kept only under destHandlers[i].Conf == forward[i] (whole-struct equality)",
			func(i ssa.Instruction) bool { return i == rs }, alts...)
	}

	// ---- start of the created handler
	isStartOfCr := func(i ssa.Instruction) bool {
		cc := callCommon(i)
		return cc != nil && isCallTo(i, c39HStart) && len(cc.Args) == 2 && cc.Args[0] == ssa.Value(cr)
	}
	for _, s := range callsIn(rc, c39HStart) {
		cc := callCommon(s)
		c.Check("C39.reload.start_args", f+": start is applied to the handler just created, with m.stream", cc.Args[0] == ssa.Value(cr) && desc(cc.Args[1]) == "$0.stream",
			p.Pos(posOf(s, rc)), "start("+desc(cc.Args[0])+", "+desc(cc.Args[1])+")")
	}
	c.passE(p, rc, "C39.reload.start_iff_started", f+": a handler is started by ReloadConf only under m.started", callTo(c39HStart), T("$0.started"))
	if createdSt != nil {
		cs := ssa.Instruction(createdSt)
		w := walkTo(after(cr), func(i ssa.Instruction) bool { return i == cs }, isStartOfCr,
			func(l Lit) bool { return !(!l.Pos && l.Atom == "$0.started") })
		d := ""
		if w != nil {
			d = "installed without start although m.started may hold: " + w.String(p)
		}
		c.Check("C39.reload.start_iff_started", f+": a handler created while started is started before it is installed", w == nil, p.Pos(cr.Pos()), d)
	}

	// ---- queueing of replaced and removed handlers
	closeAppend := func(i ssa.Instruction, idx ssa.Value) bool {
		cl, isCall := i.(*ssa.Call)
		if !isCall || calleeName(&cl.Call) != "append" || len(cl.Call.Args) != 2 {
			return false
		}
		for _, e := range variadicElemsE(cl.Call.Args[1]) {
			if ox, oi, isElem := elemOf(e); isElem && isOld(ox) && (idx == nil || oi == idx) {
				return true
			}
		}
		return false
	}
	oldLenAtom := ""
	for _, b := range rc.Blocks {
		if ifi := ifOf(b); ifi != nil {
			if bo, isB := ifi.Cond.(*ssa.BinOp); isB && bo.Op == token.LSS && bo.X == k {
				if lc, isCall := bo.Y.(*ssa.Call); isCall && calleeName(&lc.Call) == "len" && isOld(lc.Call.Args[0]) {
					oldLenAtom = litOf(ifi.Cond, true).Atom
				}
			}
		}
	}
	{
		w := walkTo(Point{body, 0}, func(i ssa.Instruction) bool { return i == ssa.Instruction(cr) },
			func(i ssa.Instruction) bool { return closeAppend(i, k) },
			func(l Lit) bool { return !(oldLenAtom != "" && !l.Pos && l.Atom == oldLenAtom) })
		d := ""
		if w != nil {
			d = "a successor is created for index i < len(old) without queueing the old handler: " + w.String(p)
		}
		c.Check("C39.reload.replaced_closed", f+": a replaced handler (i < len(old), Conf differs) is queued for stop before its successor is created", w == nil, p.Pos(cr.Pos()), d)
	}
	okTail := false
	eachInstr(rc, func(i ssa.Instruction) {
		ph, isPhi := i.(*ssa.Phi)
		if !isPhi || len(ph.Edges) != 2 {
			return
		}
		init, back := false, false
		for _, e := range ph.Edges {
			if lc, isCall := e.(*ssa.Call); isCall && calleeName(&lc.Call) == "len" && through(lc.Call.Args[0]) == fwd {
				init = true
			}
			if bo, isB := e.(*ssa.BinOp); isB && bo.Op == token.ADD && bo.X == ssa.Value(ph) {
				if n, isK := constIntE(bo.Y); isK && n == 1 {
					back = true
				}
			}
		}
		ifi := ifOf(ph.Block())
		if !init || !back || ifi == nil {
			return
		}
		bo, isB := ifi.Cond.(*ssa.BinOp)
		if !isB || bo.Op != token.LSS || bo.X != ssa.Value(ph) {
			return
		}
		lc, isCall := bo.Y.(*ssa.Call)
		if !isCall || calleeName(&lc.Call) != "len" || !isOld(lc.Call.Args[0]) {
			return
		}
		b := ph.Block().Succs[0]
		// body appends old[j]; the increment may live in a separate post block
		has := false
		for _, x := range b.Instrs {
			if closeAppend(x, ph) {
				has = true
			}
		}
		if has && len(b.Preds) == 1 && len(b.Succs) == 1 {
			okTail = true
		}
	})
	// the same set queued as a slice: append(q, old[len(forward):]...) or a full range
	// over old[len(forward):], on every path to the commit that may have a tail (prop_gen_c39.go)
	tail := &c39Tail{rc: rc, fwd: fwd, isOld: isOld}
	tailDetail := ""
	if !okTail {
		okTail, tailDetail = tail.tailQueuedBeforeCommit(p, commit)
	}
	c.Check("C39.reload.removed_closed", f+": every old handler at index >= len(forward) is queued for stop (loop from len(forward) to len(old), unconditional)", okTail, p.Pos(rc.Pos()), tailDetail)

	// ---- exactly the queued handlers are stopped
	var queue []*ssa.Call
	eachInstr(rc, func(i ssa.Instruction) {
		if closeAppend(i, nil) || tail.queuesOldHandlers(i) {
			queue = append(queue, i.(*ssa.Call))
		}
	})
	stops := callsIn(rc, c39HStop)
	c.Check("C39.reload.stop_only_queued", f+": ReloadConf stops the queued handlers", len(stops) > 0, p.Pos(rc.Pos()), "no DestHandler.stop call")
	for _, s := range stops {
		cc := callCommon(s)
		tx, tk, isElem := elemOf(cc.Args[0])
		ok, why := isElem, "stop receiver is "+desc(cc.Args[0])
		if ok {
			x, head, b, isRange := rangeCounter(tk)
			reach := map[*ssa.Call]bool{}
			appendsReach(tx, map[ssa.Value]bool{}, reach)
			switch {
			case !isRange || x != tx || b != s.Block() || !unconditionalBody(head, b):
				ok, why = false, "stop is not the unconditional body of a full range over the queue"
			case isOld(tx) || tx == ssa.Value(ns):
				ok, why = false, "ReloadConf stops handlers of the installed list"
			default:
				for _, q := range queue {
					if !reach[q] {
						ok, why = false, "the stopped slice does not include every queued handler"
					}
				}
				if len(queue) < 2 {
					ok, why = false, "want the replaced and the removed queueing sites"
				}
			}
			if ok {
				hb := head
				w := walkTo(after(commit), notRecoverReturn, func(i ssa.Instruction) bool { return i.Block() == hb },
					func(l Lit) bool { return !(!l.Pos && l.Atom == "$0.started") })
				if w != nil {
					ok, why = false, "return reachable under m.started without running the stop loop: "+w.String(p)
				}
			}
		}
		c.Check("C39.reload.stop_only_queued", f+": stop is applied to every queued (replaced or removed) handler and to nothing else", ok, p.Pos(posOf(s, rc)), why)
	}
	c.passE(p, rc, "C39.reload.stop_iff_started", f+": queued handlers are stopped only under m.started (they were never started otherwise)", callTo(c39HStop), T("$0.started"))
}

// c39AllHandlers: call `callee` is applied to every element of m.destHandlers
// in an unconditional full-range loop.
func c39AllHandlers(c *Ctx, p *Prog, fn *ssa.Function, rule, callee string, extra func(cc *ssa.CallCommon) (bool, string)) {
	f := shortFn(fn)
	calls := callsIn(fn, callee)
	c.Check(rule, f+": calls "+callee, len(calls) == 1, p.Pos(fn.Pos()), "want exactly one call site")
	for _, s := range calls {
		cc := callCommon(s)
		hx, hk, isElem := elemOf(cc.Args[0])
		ok, why := isElem && desc(hx) == c39Old, "receiver is "+desc(cc.Args[0])
		if ok {
			x, head, b, isRange := rangeCounter(hk)
			if !isRange || !sameVal(x, hx) || b != s.Block() || !unconditionalBody(head, b) {
				ok, why = false, "not the unconditional body of a full range over m.destHandlers"
			}
		}
		if ok && extra != nil {
			ok, why = extra(cc)
		}
		if ok {
			why = ""
		}
		c.Check(rule, f+": "+callee+" is applied to every handler of m.destHandlers", ok, p.Pos(posOf(s, fn)), why)
	}
}

func c39StartStop(c *Ctx, p *Prog) {
	if st := c.fn(p, "internal/forward", "Manager", "Start"); st != nil {
		f := shortFn(st)
		c39AllHandlers(c, p, st, "C39.start.all", c39HStart, func(cc *ssa.CallCommon) (bool, string) {
			return cc.Args[1] == ssa.Value(st.Params[1]), "handlers are started with " + desc(cc.Args[1]) + ", not the stream argument"
		})
		setStarted := func(i ssa.Instruction) bool {
			s, ok := i.(*ssa.Store)
			if !ok || !isStoreTo("forward.Manager", "started")(i) {
				return false
			}
			v, isC := constBool(s.Val)
			return isC && v
		}
		setStream := func(i ssa.Instruction) bool {
			s, ok := i.(*ssa.Store)
			return ok && isStoreTo("forward.Manager", "stream")(i) && s.Val == ssa.Value(st.Params[1])
		}
		c.precedeE(p, st, "C39.start.state", f+": m.started = true on every path", notRecoverReturn, setStarted)
		c.precedeE(p, st, "C39.start.state", f+": m.stream = strm on every path", notRecoverReturn, setStream)
		c.precedeE(p, st, "C39.start.state", f+": m.stream = strm precedes the start of handlers", callTo(c39HStart), setStream)
	}
	if sp := c.fn(p, "internal/forward", "Manager", "Stop"); sp != nil {
		f := shortFn(sp)
		c39AllHandlers(c, p, sp, "C39.stop.all", c39HStop, nil)
		clr := func(i ssa.Instruction) bool {
			s, ok := i.(*ssa.Store)
			if !ok || !isStoreTo("forward.Manager", "started")(i) {
				return false
			}
			v, isC := constBool(s.Val)
			return isC && !v
		}
		c.precedeE(p, sp, "C39.stop.state", f+": m.started = false on every path", notRecoverReturn, clr)
	}
	if in := c.fn(p, "internal/forward", "Manager", "Initialize"); in != nil {
		f := shortFn(in)
		creates := callsIn(in, c39Create)
		ok, why := len(creates) == 1, "want exactly one createDestHandler call"
		if ok {
			cr := creates[0].(*ssa.Call)
			fx, fk, isElem := elemOf(cr.Call.Args[2])
			x, head, b, isRange := rangeCounter(fk)
			pos, isAdd := cr.Call.Args[1].(*ssa.BinOp)
			appended := false
			for _, i := range cr.Block().Instrs {
				if cl, isCall := i.(*ssa.Call); isCall && calleeName(&cl.Call) == "append" {
					for _, e := range variadicElemsE(cl.Call.Args[1]) {
						if e == ssa.Value(cr) && desc(cl.Call.Args[0]) == c39Old {
							appended = true
						}
					}
				}
			}
			switch {
			case !isElem || desc(fx) != "$0.Forward" || !isRange || !sameVal(x, fx) || b != cr.Block() || !unconditionalBody(head, b):
				ok, why = false, "handlers are not created in an unconditional full range over m.Forward"
			case !isAdd || pos.Op != token.ADD || pos.X != fk:
				ok, why = false, "position is not i+1"
			case !appended:
				ok, why = false, "the created handler is not appended to m.destHandlers"
			default:
				why = ""
			}
		}
		c.Check("C39.init.order", f+": one handler per configured destination, appended in configuration order", ok, p.Pos(in.Pos()), why)
	}
}

func c39Handler(c *Ctx, p *Prog) {
	if hs := c.fn(p, "internal/forward", "DestHandler", "start"); hs != nil {
		f := shortFn(hs)
		var gos []*ssa.Go
		eachInstr(hs, func(i ssa.Instruction) {
			if g, ok := i.(*ssa.Go); ok {
				gos = append(gos, g)
			}
		})
		ok, why := len(gos) == 1, "want exactly one go statement"
		if ok {
			g := gos[0]
			switch {
			case calleeName(&g.Call) != c39HRun || desc(g.Call.Args[0]) != "$0" || desc(g.Call.Args[1]) != "$1":
				ok, why = false, "go "+calleeName(&g.Call)+"("+desc(g.Call.Args[0])+", …)"
			case walkTo(after(g), func(i ssa.Instruction) bool { return i == ssa.Instruction(g) }, nil, nil) != nil:
				ok, why = false, "the go statement is inside a loop"
			default:
				why = ""
			}
		}
		c.Check("C39.handler.start", f+": spawns exactly one run(strm) goroutine", ok, p.Pos(hs.Pos()), why)
		isGo := func(i ssa.Instruction) bool { _, ok := i.(*ssa.Go); return ok }
		c.precedeE(p, hs, "C39.handler.start", f+": h.done is created before the goroutine starts", isGo, func(i ssa.Instruction) bool {
			s, ok := i.(*ssa.Store)
			if !ok || !isStoreTo("forward.DestHandler", "done")(i) {
				return false
			}
			_, mk := s.Val.(*ssa.MakeChan)
			return mk
		})
		c.precedeE(p, hs, "C39.handler.start", f+": h.ctxCancel is set before the goroutine starts", isGo, isStoreTo("forward.DestHandler", "ctxCancel"))
	}
	if hp := c.fn(p, "internal/forward", "DestHandler", "stop"); hp != nil {
		f := shortFn(hp)
		c.precedeE(p, hp, "C39.handler.stop", f+": cancels the handler's context", notRecoverReturn, callTo("dyn:$0.ctxCancel"))
		c.precedeE(p, hp, "C39.handler.stop", f+": waits for the run goroutine (<-h.done)", notRecoverReturn, func(i ssa.Instruction) bool {
			u, ok := i.(*ssa.UnOp)
			return ok && u.Op == token.ARROW && desc(u.X) == "$0.done"
		})
	}
	if hr := c.fn(p, "internal/forward", "DestHandler", "run"); hr != nil {
		// done is closed when run returns (deferred close)
		n := 0
		eachInstr(hr, func(i ssa.Instruction) {
			if d, ok := i.(*ssa.Defer); ok && calleeName(&d.Call) == "close" && desc(d.Call.Args[0]) == "$0.done" {
				n++
			}
		})
		c.Check("C39.handler.stop", shortFn(hr)+": closes h.done by defer", n == 1, p.Pos(hr.Pos()), "")
	}
}

func c39WhoMay(c *Ctx, p *Prog) {
	callers := map[string][]string{
		c39HStart:                       {"(*forward.Manager).Start", "(*forward.Manager).ReloadConf"},
		c39HStop:                        {"(*forward.Manager).Stop", "(*forward.Manager).ReloadConf"},
		c39HRun:                         {c39HStart},
		c39Create:                       {"(*forward.Manager).Initialize", "(*forward.Manager).ReloadConf"},
		"(*forward.Manager).Start":      {"(*core.path).setAvailable"},
		"(*forward.Manager).Stop":       {"(*core.path).setNotAvailable"},
		"(*forward.Manager).ReloadConf": {"(*core.path).doReloadConf"},
		"(*forward.Manager).Initialize": {"(*core.path).initialize"},
	}
	writers := map[string][]string{
		"forward.Manager.started":      {"(*forward.Manager).Start", "(*forward.Manager).Stop"},
		"forward.Manager.stream":       {"(*forward.Manager).Start"},
		"forward.Manager.destHandlers": {"(*forward.Manager).Initialize", "(*forward.Manager).ReloadConf"},
		"core.path.stream":             {"(*core.path).setAvailable", "(*core.path).setNotAvailable"},
		"core.path.forwardManager":     {"(*core.path).initialize"},
	}
	nCalls, nWrites := 0, 0
	for _, fn := range p.ModFuncs() {
		me := shortFn(fn)
		eachInstr(fn, func(i ssa.Instruction) {
			if cc := callCommon(i); cc != nil {
				// direct calls, go/defer, and method values (bound closures)
				name := calleeName(cc)
				if allowed, ok := callers[name]; ok {
					nCalls++
					c.Check("C39.who_may", "call of "+name+" from "+me, contains(allowed, me), p.Pos(posOf(i, fn)), "allowed callers: "+strings.Join(allowed, ", "))
				}
			}
			if mc, ok := i.(*ssa.MakeClosure); ok {
				// method value (bound method wrapper): the method escapes as a func value
				if f2, ok := mc.Fn.(*ssa.Function); ok && f2.Synthetic != "" && f2.Object() != nil {
					full := objFullName(f2.Object())
					for name := range callers {
						if strings.Replace(name, "(*", "(", 1) == full {
							nCalls++
							c.Check("C39.who_may", "method value of "+name+" taken in "+me, false, p.Pos(posOf(i, fn)), "the method may then be called from anywhere")
						}
					}
				}
			}
			if st, ok := i.(*ssa.Store); ok {
				if fa, ok := st.Addr.(*ssa.FieldAddr); ok {
					pt := typeStr(fa.X.Type())
					key := strings.TrimPrefix(pt, "*") + "." + fieldAddrName(fa)
					if allowed, ok := writers[key]; ok {
						nWrites++
						c.Check("C39.who_may", "write of "+key+" in "+me, contains(allowed, me), p.Pos(st.Pos()), "allowed writers: "+strings.Join(allowed, ", "))
					}
				}
			}
		})
	}
	c.Floor("C39.who_may.calls", nCalls, 10)
	c.Floor("C39.who_may.writes", nWrites, 8)
}

func c39Path(c *Ctx, p *Prog) {
	if sa := c.fn(p, "internal/core", "path", "setAvailable"); sa != nil {
		f := shortFn(sa)
		isStart := callTo("(*forward.Manager).Start")
		for _, s := range callsIn(sa, "(*forward.Manager).Start") {
			cc := callCommon(s)
			c.Check("C39.path.start", f+": forwarders are started with pa.stream", desc(cc.Args[0]) == "$0.forwardManager" && desc(cc.Args[1]) == "$0.stream", p.Pos(posOf(s, sa)), "Start("+desc(cc.Args[1])+")")
		}
		c.passE(p, sa, "C39.path.start", f+": forwarders are started only after Stream.Initialize succeeded", isStart, T("((*stream.Stream).Initialize($0.stream) == nil)"))
		c.precedeE(p, sa, "C39.path.start", f+": every nil return has started the forwarders", retNil(0), isStart)
		c.precedeE(p, sa, "C39.path.start", f+": the stream is created before the forwarders start", isStart, func(i ssa.Instruction) bool {
			s, ok := i.(*ssa.Store)
			if !ok || !isStoreTo("core.path", "stream")(i) {
				return false
			}
			_, fresh := s.Val.(*ssa.Alloc)
			return fresh
		})
	}
	if sn := c.fn(p, "internal/core", "path", "setNotAvailable"); sn != nil {
		f := shortFn(sn)
		isStop := callTo("(*forward.Manager).Stop")
		c.precedeE(p, sn, "C39.path.stop", f+": forwarders are stopped on every path", notRecoverReturn, isStop)
		c.precedeE(p, sn, "C39.path.stop", f+": forwarders are stopped before the stream is closed", callTo("(*stream.Stream).Close"), isStop)
	}
	if dr := c.fn(p, "internal/core", "path", "doReloadConf"); dr != nil {
		f := shortFn(dr)
		isReload := func(i ssa.Instruction) bool {
			cc := callCommon(i)
			return cc != nil && isCallTo(i, "(*forward.Manager).ReloadConf") && desc(cc.Args[0]) == "$0.forwardManager" && desc(cc.Args[1]) == "$1.Forward"
		}
		c.precedeE(p, dr, "C39.path.reload", f+": forwardManager.ReloadConf(newConf.Forward) on every path", notRecoverReturn, isReload)
	}
	if in := c.fn(p, "internal/core", "path", "initialize"); in != nil {
		f := shortFn(in)
		n := 0
		eachInstr(in, func(i ssa.Instruction) {
			st, ok := i.(*ssa.Store)
			if !ok || !isStoreTo("forward.Manager", "Forward")(i) {
				return
			}
			n++
			c.Check("C39.path.init", f+": the manager is created for pa.conf.Forward", desc(st.Val) == "$0.conf.Forward", p.Pos(st.Pos()), "Forward = "+desc(st.Val))
		})
		c.Check("C39.path.init", f+": the manager's Forward list is set", n == 1, p.Pos(in.Pos()), "")
		c.precedeE(p, in, "C39.path.init", f+": forwardManager.Initialize() on every path", notRecoverReturn, callTo("(*forward.Manager).Initialize"))
	}
}
