package main

// C12 (round 4) - a configuration read answers with the configuration that is
// current when the request is served.
//
// "A successful edit is what subsequent reads return" has two halves. The core
// half is decided by C12.reload_publishes / C12.read_returns_current: an edit
// ends in Core.conf.Store(newConf) and Core.apiConfigSnapshot returns
// Core.conf.Load(). The API half is this rule: the only access the API has to
// the running configuration is its parent's APIConfigSnapshot(); the core never
// tells the API that the configuration changed. A read handler that can answer
// without asking the parent during the request therefore answers from state kept
// since an earlier request (a cache, a copy taken at start-up), and nothing
// orders that state after the edits the core applies: whatever invalidation the
// API does on its own side of the interface races with Core.reloadConf (the core
// replies to the edit before it stores the new configuration).
//
//	read_is_fresh  for every handler registered with GET under /config/ in
//	               API.Initialize: every path from the handler's entry to a
//	               response body written through the gin context passes a call
//	               of the parent's APIConfigSnapshot() (new helpers are inlined,
//	               so a helper that returns a remembered copy on one of its paths
//	               is seen).
//
// Seeded change C12_r4 kept the redacted clone in an atomic.Pointer of the API
// "until the next edit" and dropped it in a middleware before the edit ran.

import (
	"sort"
	"strings"

	"golang.org/x/tools/go/ssa"
)

func init() {
	addMutants(
		Mutant{"C12", "global-read-served-from-remembered-copy", "internal/api/api_config_global.go",
			"func (a *API) onConfigGlobalGet(ctx *gin.Context) {\n	c := redactCredentials(a.Parent.APIConfigSnapshot())\n",
			"var rememberedGlobal *conf.Conf\n\nfunc (a *API) onConfigGlobalGet(ctx *gin.Context) {\n	c := rememberedGlobal\n	if c == nil {\n		c = redactCredentials(a.Parent.APIConfigSnapshot())\n		rememberedGlobal = c\n	}\n", "C12.read_is_fresh"},
		Mutant{"C12", "pathdefaults-read-answers-before-asking-the-core", "internal/api/api_config_pathdefaults.go",
			"func (a *API) onConfigPathDefaultsGet(ctx *gin.Context) {\n	c := redactCredentials(a.Parent.APIConfigSnapshot())\n\n	ctx.JSON(http.StatusOK, c.PathDefaults)\n",
			"var lastPathDefaults *conf.Path\n\nfunc (a *API) onConfigPathDefaultsGet(ctx *gin.Context) {\n	if lastPathDefaults != nil && ctx.Query(\"refresh\") == \"\" {\n		ctx.JSON(http.StatusOK, lastPathDefaults)\n		return\n	}\n\n	c := redactCredentials(a.Parent.APIConfigSnapshot())\n	lastPathDefaults = &c.PathDefaults\n\n	ctx.JSON(http.StatusOK, c.PathDefaults)\n", "C12.read_is_fresh"},
	)
}

// ginBodyWritersR4c12: methods of *gin.Context that write a response body.
var ginBodyWritersR4c12 = map[string]bool{
	"JSON": true, "IndentedJSON": true, "PureJSON": true, "SecureJSON": true, "AsciiJSON": true, "JSONP": true,
	"Data": true, "String": true, "Render": true, "XML": true, "YAML": true, "TOML": true, "ProtoBuf": true,
	"AbortWithStatusJSON": true, "DataFromReader": true,
}

// handlerFuncsR4c12 resolves the functions behind a gin handler argument
// (`a.onX` becomes a bound-method wrapper stored in the variadic slice).
func handlerFuncsR4c12(v ssa.Value, depth int, out map[*ssa.Function]bool) {
	if v == nil || depth > 6 {
		return
	}
	switch x := stripConv(v).(type) {
	case *ssa.Function:
		if x.Synthetic != "" && x.Blocks != nil {
			// bound method / thunk wrapper: the method it forwards to
			for _, b := range x.Blocks {
				for _, ins := range b.Instrs {
					if cl, ok := ins.(*ssa.Call); ok {
						if sf := cl.Call.StaticCallee(); sf != nil && inModule(sf) {
							out[sf] = true
						}
					}
				}
			}
			return
		}
		out[x] = true
	case *ssa.MakeClosure:
		handlerFuncsR4c12(x.Fn, depth+1, out)
	case *ssa.Slice:
		handlerFuncsR4c12(x.X, depth+1, out)
	case *ssa.Alloc:
		for _, r := range *x.Referrers() {
			switch y := r.(type) {
			case *ssa.IndexAddr:
				for _, r2 := range *y.Referrers() {
					if st, ok := r2.(*ssa.Store); ok && st.Addr == ssa.Value(y) {
						handlerFuncsR4c12(st.Val, depth+1, out)
					}
				}
			case *ssa.Store:
				if y.Addr == ssa.Value(x) {
					handlerFuncsR4c12(y.Val, depth+1, out)
				}
			}
		}
	case *ssa.UnOp:
		handlerFuncsR4c12(x.X, depth+1, out)
	case *ssa.Phi:
		for _, e := range x.Edges {
			handlerFuncsR4c12(e, depth+1, out)
		}
	}
}

func c12ReadFreshR4(c *Ctx, p *Prog) {
	const rule = "C12.read_is_fresh"
	ini := c.fn(p, "internal/api", "API", "Initialize")
	if ini == nil {
		return
	}
	c.Analysed(fnName(ini))
	routes := map[*ssa.Function][]string{}
	eachInstr(ini, func(i ssa.Instruction) {
		cc := callCommon(i)
		if cc == nil || cc.IsInvoke() {
			return
		}
		sf := cc.StaticCallee()
		if sf == nil || sf.Signature.Recv() == nil || !strings.HasSuffix(typeStr(sf.Signature.Recv().Type()), "gin.RouterGroup") {
			return
		}
		// GET(path, handlers...) or Handle("GET", path, handlers...)
		var path string
		var hs []ssa.Value
		switch {
		case sf.Name() == "GET" && len(cc.Args) >= 3:
			path, _ = constStringB(cc.Args[1])
			hs = cc.Args[2:]
		case sf.Name() == "Handle" && len(cc.Args) >= 4:
			if m, _ := constStringB(cc.Args[1]); m != "GET" {
				return
			}
			path, _ = constStringB(cc.Args[2])
			hs = cc.Args[3:]
		default:
			return
		}
		if !strings.Contains(path, "/config/") {
			return
		}
		set := map[*ssa.Function]bool{}
		for _, h := range hs {
			handlerFuncsR4c12(h, 0, set)
		}
		if len(set) == 0 {
			c.Check(rule, "API.Initialize: the handler of GET "+path+" is resolved", false, p.Pos(posOf(i, ini)), "cannot name the function that serves this configuration read")
		}
		for f := range set {
			routes[f] = append(routes[f], path)
		}
	})
	var hs []*ssa.Function
	for f := range routes {
		hs = append(hs, f)
	}
	sort.Slice(hs, func(i, j int) bool { return fnName(hs[i]) < fnName(hs[j]) })
	c.Floor(rule, len(hs), 4)
	isSnapshot := func(i ssa.Instruction) bool {
		cc := callCommon(i)
		if cc == nil {
			return false
		}
		if cc.IsInvoke() {
			return cc.Method.Name() == "APIConfigSnapshot"
		}
		sf := cc.StaticCallee()
		return sf != nil && aliasName(sf) == "APIConfigSnapshot"
	}
	isBody := func(i ssa.Instruction) bool {
		cc := callCommon(i)
		if cc == nil || cc.IsInvoke() {
			return false
		}
		sf := cc.StaticCallee()
		return sf != nil && sf.Signature.Recv() != nil && ginBodyWritersR4c12[sf.Name()] && strings.HasSuffix(typeStr(sf.Signature.Recv().Type()), "gin.Context")
	}
	for _, h := range hs {
		sort.Strings(routes[h])
		c.Analysed(fnName(h))
		if countTargets(h, isBody) == 0 {
			c.Check(rule, fnName(h)+" (GET "+strings.Join(routes[h], ", ")+"): writes its answer through the gin context", false, p.Pos(h.Pos()), "no response body call found in the handler (helpers inlined): the rule cannot see where the configuration is answered")
			continue
		}
		c.MustPrecede(p, h, rule, "response body of GET "+strings.Join(routes[h], ", "), "Parent.APIConfigSnapshot() in this request", isBody, isSnapshot)
	}
}
