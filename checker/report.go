package main

// Obligations, evidence and known findings (DESIGN.md section 2,
// "Cross-cutting practice").

import (
	"encoding/json"
	"fmt"
	"os"
	"path/filepath"
	"sort"
	"strings"
	"time"
)

var verifDir = "/verif"

// Obl is one (rule, construct) obligation. Key is stable: rule id plus a
// description of the construct (package, function, callee, field path) -
// never a line number.
type Obl struct {
	Rule   string `json:"rule"`
	Key    string `json:"construct"`
	OK     bool   `json:"discharged"`
	Detail string `json:"detail,omitempty"`
	Pos    string `json:"pos,omitempty"`
	Cfg    string `json:"build_config,omitempty"`
	Known  bool   `json:"known_finding,omitempty"`
}

type Finding struct {
	Property string `json:"property"`
	Status   string `json:"status"` // "known" or "fixed"
	Rule     string `json:"rule"`
	Key      string `json:"construct"`
	What     string `json:"what"`
	Commit   string `json:"commit,omitempty"`
}

// Ctx is the state of one property check.
type Ctx struct {
	Prop      string
	Tier      string
	Seed      int
	Level     string
	start     time.Time
	progs     map[string]*Prog
	Obls      []Obl
	undecided []string
	floors    []string
	Explain   string
	Assume    []string
	Trusted   []string
	Counters  map[string]int
	Funcs     map[string]bool // functions analysed
	cfgs      map[string]bool
	selftest  map[string]int
	overlay   map[string][]byte // mutant mode
	quiet     bool
	curCfg    string
}

func newCtx(prop, tier string, seed int) *Ctx {
	return &Ctx{
		Prop: prop, Tier: tier, Seed: seed, start: time.Now(),
		progs: map[string]*Prog{}, Counters: map[string]int{}, Funcs: map[string]bool{},
		cfgs: map[string]bool{}, selftest: map[string]int{},
	}
}

var progCache = map[string]*Prog{}

// Load returns the program for a build configuration (cached per process when
// no mutant overlay is active). A load failure makes the check undecided.
func (c *Ctx) Load(goos, goarch string) *Prog {
	key := goos + "/" + goarch
	c.curCfg = key
	if p, ok := c.progs[key]; ok {
		return p
	}
	var p *Prog
	if c.overlay == nil {
		p = progCache[key]
	}
	if p == nil {
		var err error
		p, err = Load(LoadCfg{GOOS: goos, GOARCH: goarch, Overlay: c.overlay})
		if err != nil {
			c.Undecided("load " + key + ": " + err.Error())
			return nil
		}
		if c.overlay == nil {
			progCache[key] = p
		}
	}
	if len(p.Pkgs) < 80 {
		c.Undecided(fmt.Sprintf("load %s: only %d module packages (floor 80)", key, len(p.Pkgs)))
	}
	c.progs[key] = p
	c.cfgs[key] = true
	return p
}

func (c *Ctx) Main() *Prog { return c.Load("linux", "amd64") }

// Undecided records that the check could not decide (unresolved anchor, load
// failure, cap exceeded). It is a failure, never a pass.
func (c *Ctx) Undecided(msg string) {
	c.undecided = append(c.undecided, msg)
}

// Check records an obligation.
func (c *Ctx) Check(rule, key string, ok bool, pos, detail string) bool {
	c.Obls = append(c.Obls, Obl{Rule: rule, Key: key, OK: ok, Detail: detail, Pos: pos, Cfg: c.curCfg})
	return ok
}

// Floor fails the check when a rule matched fewer instances than were
// confirmed by hand on the pinned tree (a rule matching zero sites passes
// vacuously forever).
func (c *Ctx) Floor(rule string, got, min int) {
	c.Counters["instances:"+rule] = got
	if got < min {
		c.Undecided(fmt.Sprintf("INSTANCE FLOOR rule=%s got=%d floor=%d", rule, got, min))
	}
}

func (c *Ctx) Count(name string, n int) { c.Counters[name] += n }

func (c *Ctx) Analysed(fn string) { c.Funcs[fn] = true }

func loadFindings() ([]Finding, error) {
	b, err := os.ReadFile(filepath.Join(verifDir, "known_findings.json"))
	if err != nil {
		if os.IsNotExist(err) {
			return nil, nil
		}
		return nil, err
	}
	var f struct {
		Findings []Finding `json:"findings"`
	}
	if err := json.Unmarshal(b, &f); err != nil {
		return nil, err
	}
	return f.Findings, nil
}

type evidence struct {
	PropertyID  string         `json:"property_id"`
	Tier        string         `json:"tier"`
	Seed        int            `json:"seed"`
	Level       string         `json:"level"`
	Coverage    map[string]any `json:"coverage"`
	Assumptions []string       `json:"assumptions"`
	WallS       float64        `json:"wall_s"`
	Violations  int            `json:"violations"`
}

// Finish writes evidence, prints the verdict lines and returns the exit code.
func (c *Ctx) Finish() int {
	findings, ferr := loadFindings()
	if ferr != nil {
		c.Undecided("known_findings.json: " + ferr.Error())
	}
	known := map[string]Finding{}
	for _, f := range findings {
		if f.Property == c.Prop && f.Status == "known" {
			known[f.Rule+"|"+f.Key] = f
		}
	}
	// rules iterate maps: order the obligations so that the evidence file (samples,
	// violation list) is the same on every run of the same tree
	sort.SliceStable(c.Obls, func(i, j int) bool {
		a, b := c.Obls[i], c.Obls[j]
		if a.Rule != b.Rule {
			return a.Rule < b.Rule
		}
		if a.Key != b.Key {
			return a.Key < b.Key
		}
		if a.Cfg != b.Cfg {
			return a.Cfg < b.Cfg
		}
		return a.Pos < b.Pos
	})
	var viol, knownHit []Obl
	discharged := 0
	perRule := map[string]int{}
	distinct := map[string]bool{}
	for i := range c.Obls {
		o := &c.Obls[i]
		perRule[o.Rule]++
		distinct[o.Rule+"|"+o.Key] = true
		if o.OK {
			discharged++
			continue
		}
		if f, ok := known[o.Rule+"|"+o.Key]; ok {
			o.Known = true
			knownHit = append(knownHit, *o)
			_ = f
			continue
		}
		viol = append(viol, *o)
	}
	// samples: up to 12 discharged obligations spread over rules + all failures
	var samples []any
	seenRule := map[string]int{}
	for _, o := range c.Obls {
		if o.OK && seenRule[o.Rule] < 2 && len(samples) < 24 {
			seenRule[o.Rule]++
			samples = append(samples, o)
		}
	}
	for _, o := range knownHit {
		samples = append(samples, o)
	}
	for _, o := range viol {
		samples = append(samples, o)
	}
	var fns []string
	for f := range c.Funcs {
		fns = append(fns, f)
	}
	sort.Strings(fns)
	var cfgs []string
	for k := range c.cfgs {
		cfgs = append(cfgs, k)
	}
	sort.Strings(cfgs)
	npk := 0
	if p := c.progs["linux/amd64"]; p != nil {
		npk = len(p.Pkgs)
	}
	trusted := append([]string{
		"go/types + go/packages loader (go1.26.8), golang.org/x/tools v0.50.0 go/ssa",
		"embed overlay for git-ignored generated files (core/VERSION, hls/hls.min.js, rpicamera binaries)",
		"third-party packages are type-checked but not analysed",
	}, c.Trusted...)
	cov := map[string]any{
		"obligations":         len(c.Obls),
		"discharged":          discharged,
		"evaluations":         len(c.Obls),
		"distinct_nontrivial": len(distinct),
		"rule":                "one obligation per (rule, construct) found in /repo's current source; distinct = distinct (rule, construct) keys",
		"checker_cmd":         fmt.Sprintf("bin/mtxcheck -p %s -tier %s", c.Prop, c.Tier),
		"trusted_base":        trusted,
		"explanation":         c.Explain,
		"build_configs":       cfgs,
		"module_packages":     npk,
		"functions_analysed":  fns,
		"rule_instances":      perRule,
		"counters":            c.Counters,
		"samples":             samples,
		"selftest":            c.selftest,
		"undecided":           c.undecided,
		"known_findings_hit":  len(knownHit),
		"exhaustive":          len(c.undecided) == 0,
	}
	if len(samples) == 0 {
		cov["samples"] = []any{"no obligations generated"}
	}
	ev := evidence{
		PropertyID: c.Prop, Tier: c.Tier, Seed: c.Seed, Level: c.Level, Coverage: cov,
		Assumptions: c.Assume, WallS: time.Since(c.start).Seconds(), Violations: len(viol),
	}
	if ev.Assumptions == nil {
		ev.Assumptions = []string{}
	}
	code := 0
	if !c.quiet {
		os.MkdirAll(filepath.Join(verifDir, "evidence", "replay"), 0o755)
		b, _ := json.MarshalIndent(ev, "", " ")
		if err := os.WriteFile(filepath.Join(verifDir, "evidence", c.Prop+".json"), append(b, '\n'), 0o644); err != nil {
			fmt.Println("cannot write evidence:", err)
			code = 2
		}
		fmt.Printf("property=%s tier=%s obligations=%d discharged=%d known=%d violations=%d undecided=%d configs=%s wall=%.1fs\n",
			c.Prop, c.Tier, len(c.Obls), discharged, len(knownHit), len(viol), len(c.undecided), strings.Join(cfgs, ","), ev.WallS)
		var rules []string
		for r := range perRule {
			rules = append(rules, r)
		}
		sort.Strings(rules)
		for _, r := range rules {
			fmt.Printf("  rule %-40s instances=%d\n", r, perRule[r])
		}
	}
	printed := map[string]bool{}
	for _, o := range knownHit {
		k := o.Rule + "|" + o.Key
		if printed[k] {
			continue
		}
		printed[k] = true
		if !c.quiet {
			fmt.Printf("KNOWN-FINDING: property=%s rule=%s construct=%q at %s: %s\n", c.Prop, o.Rule, o.Key, o.Pos, known[k].What)
		}
	}
	if len(viol) > 0 {
		code = 1
		if !c.quiet {
			rp := filepath.Join(verifDir, "evidence", "replay", c.Prop+".json")
			b, _ := json.MarshalIndent(map[string]any{"property": c.Prop, "violations": viol}, "", " ")
			os.WriteFile(rp, append(b, '\n'), 0o644)
			for _, o := range viol {
				fmt.Printf("  FAIL rule=%s construct=%q at %s [%s]: %s\n", o.Rule, o.Key, o.Pos, o.Cfg, o.Detail)
			}
			fmt.Printf("VIOLATION property=%s replay=%s\n", c.Prop, rp)
		}
	}
	if len(c.undecided) > 0 {
		// Undecided (unresolved anchor, load failure, instance floor, selftest
		// failure) is never a pass: it is reported as a violation of the check.
		if !c.quiet {
			for _, u := range c.undecided {
				fmt.Printf("  UNDECIDED: %s\n", u)
			}
			if code == 0 {
				rp := filepath.Join(verifDir, "evidence", "replay", c.Prop+".json")
				b, _ := json.MarshalIndent(map[string]any{"property": c.Prop, "undecided": c.undecided}, "", " ")
				os.WriteFile(rp, append(b, '\n'), 0o644)
				fmt.Printf("VIOLATION property=%s replay=%s\n", c.Prop, rp)
			}
		}
		code = 1
	}
	return code
}

// failedObls returns the non-discharged obligations (used by the mutant
// self-test, which does not consult known findings for matching).
func (c *Ctx) failedObls() []Obl {
	var out []Obl
	for _, o := range c.Obls {
		if !o.OK {
			out = append(out, o)
		}
	}
	return out
}
