package main

import (
	"go/ast"
	"go/token"
	"go/types"
	"sort"
	"strings"

	"golang.org/x/tools/go/ast/astutil"
	"golang.org/x/tools/go/packages"
	"golang.org/x/tools/go/ssa"
)

// C03 - every media publish or read is authorized for that path and action.

func init() {
	register(Property{ID: "C03", Level: "proof", Run: runC03,
		Technique: "static analysis: whole-program who-may/enumeration of PathAccessRequest constructions and SkipAuth sites, must-pass-through path conditions on the path-manager handlers (go/ssa), AST origin classification of ConfToCompare",
		Text:      "Proof obligations over the whole module: (1) on every path of pathManager.doFindPathConf/doDescribe/doAddReader/doAddPublisher a success reply is sent only after conf.FindPathConf succeeded for the request's name and the auth manager admitted ToAuthRequest() of the same request (or SkipAuth), doAddPublisher additionally only if ConfToCompare is nil or Equal to the resolved conf; doFindPathConf never honours SkipAuth; (2) ToAuthRequest maps name/action/IP/credentials/query/protocol field by field; (3) (*path).describe/addReader/addPublisher are called only from the manager wrappers after a nil-error reply; (4) every SkipAuth:true site in the module (all build configurations that contain one) is classified: publisher sites carry a ConfToCompare that flows from the Conf of a FindPathConf(Publish:true) result, internal-reader sites are a frozen table, the CDN site is guarded by isCDN = secret configured ∧ bearer equality; any other site is a violation; (5) Publish constants match the manager call; (6) 'exactly that path and the matching action': in every boolean decision function that branches on the Path of an element of a []conf.AuthInternalUserPermission (auth.matchesPermission), no path test of an element leads to a return that may be true unless, in the same loop iteration, `thatElement.Action == request.Action` held - action and path are granted by ONE entry (decided on SSA with element identity = index value, through copies, pointers and extracted helpers); (7) 'the client's IP': on the HTTP-based servers (HLS, WebRTC, MoQ) the IP of the access request is gin's ctx.ClientIP(), which a freshly constructed engine takes from the X-Forwarded-For / X-Real-Ip header of EVERY peer; every gin engine constructed under internal/servers/ (enumerated, not listed) whose handlers can reach ClientIP() receives SetTrustedProxies(recv.<field of type conf.IPNetworks>.ToTrustedProxies()) on every path - also when the list is empty - before it is stored into a server's Handler / that server is initialised, the unexported list field only ever receives the component's TrustedProxies, and no function writes gin.Engine.TrustedPlatform / RemoteIPHeaders / ForwardedByClientIP (C03.client_ip.*, prop_r4_c04.go; the engines of the administrative endpoints are C04's); an engine none of whose handlers can reach ClientIP() (MoQ HTTP/3) is recorded as needing no list. Obligations = sites x clauses.",
		Note:      "trusted: auth manager (C01/C02), gortsplib invariant announced path == rsession.Path()[1:], conf.Path.Equal = reflect.DeepEqual, go/ssa CFG construction; flow through struct fields is resolved per package over all stores/literal keys of that field (flow-insensitive)"})
	addMutants(
		Mutant{"C03", "drop-skipauth-guard-addreader", "internal/core/path_manager.go",
			"	var user string\n\n	if !req.AccessRequest.SkipAuth {\n		var authErr *auth.Error\n		user, authErr = pm.authManager.Authenticate(req.AccessRequest.ToAuthRequest())\n		if authErr != nil {\n			req.Res <- defs.PathAddReaderRes{Err: authErr}\n			return\n		}\n	}",
			"	var user string", "C03.handler.auth"},
		Mutant{"C03", "skipauth-on-srt-reader", "internal/servers/srt/conn.go",
			"			Name:  streamID.path,\n			Query: streamID.query,\n			Proto: auth.ProtocolSRT,",
			"			Name:  streamID.path,\n			Query: streamID.query,\n			SkipAuth: true,\n			Proto: auth.ProtocolSRT,", "C03.skipauth"},
		Mutant{"C03", "drop-conftocompare-webrtc", "internal/servers/webrtc/session.go",
			"		ConfToCompare: res1.Conf,\n", "", "C03.skipauth"},
		Mutant{"C03", "rtmp-findpathconf-as-reader", "internal/servers/rtmp/conn.go",
			"			Query:     c.rconn.URL.RawQuery,\n			Publish:   true,\n			UserAgent: c.userAgent,",
			"			Query:     c.rconn.URL.RawQuery,\n			Publish:   false,\n			UserAgent: c.userAgent,", "C03.skipauth"},
		Mutant{"C03", "toauthrequest-path-from-query", "internal/defs/path_access_request.go",
			"Path:                 r.Name,", "Path:                 r.Query,", "C03.to_auth_request"},
		Mutant{"C03", "toauthrequest-action-inverted", "internal/defs/path_access_request.go",
			"			if r.Publish {", "			if !r.Publish {", "C03.to_auth_request"},
		Mutant{"C03", "toauthrequest-always-read", "internal/defs/path_access_request.go",
			"				return conf.AuthActionPublish", "				return conf.AuthActionRead", "C03.to_auth_request"},
		Mutant{"C03", "cdn-guard-inverted", "internal/servers/hls/session.go",
			"	if s.isCDN {\n		accessReq.SkipAuth = true", "	if !s.isCDN {\n		accessReq.SkipAuth = true", "C03.cdn.guard"},
		Mutant{"C03", "cdn-any-bearer", "internal/servers/hls/http_server.go",
			`isCDN := (s.cdnSecret != "" && ctx.Request.Header.Get("Authorization") == "Bearer "+s.cdnSecret)`,
			`isCDN := (s.cdnSecret != "" || ctx.Request.Header.Get("Authorization") == "Bearer "+s.cdnSecret)`, "C03.cdn.definition"},
		Mutant{"C03", "findpathconf-honours-skipauth", "internal/core/path_manager.go",
			"	user, err2 := pm.authManager.Authenticate(req.AccessRequest.ToAuthRequest())\n	if err2 != nil {",
			"	user, err2 := pm.authManager.Authenticate(req.AccessRequest.ToAuthRequest())\n	if err2 != nil && !req.AccessRequest.SkipAuth {", "C03.handler"},
		Mutant{"C03", "publisher-conf-not-compared", "internal/core/path_manager.go",
			"if req.ConfToCompare != nil && !pathConf.Equal(req.ConfToCompare) {", "if req.ConfToCompare == nil && !pathConf.Equal(req.ConfToCompare) {", "C03.handler.conf_in_force"},
		Mutant{"C03", "wrapper-ignores-manager-error", "internal/core/path_manager.go",
			"		res1 := <-req.Res\n		if res1.Err != nil {\n			if terr, ok := errors.AsType[*auth.Error](res1.Err); ok && !terr.AskCredentials {\n				auth.LogAndDelayError(req.Author, terr)\n			}\n			return nil, res1.Err\n		}\n\n		res2, err := res1.Path.(*path).addReader(req)",
			"		res1 := <-req.Res\n		if res1.Err != nil && res1.Path == nil {\n			if terr, ok := errors.AsType[*auth.Error](res1.Err); ok && !terr.AskCredentials {\n				auth.LogAndDelayError(req.Author, terr)\n			}\n			return nil, res1.Err\n		}\n\n		res2, err := res1.Path.(*path).addReader(req)", "C03.wrapper"},
		Mutant{"C03", "cdn-without-secret", "internal/servers/hls/http_server.go",
			`isCDN := (s.cdnSecret != "" && ctx.Request.Header.Get("Authorization") == "Bearer "+s.cdnSecret)`,
			`isCDN := (ctx.Request.Header.Get("Authorization") == "Bearer "+s.cdnSecret)`, "C03.cdn"},
		Mutant{"C03", "addpublisher-publish-false", "internal/servers/moq/session.go",
			"Publish:              true,", "Publish:              false,", "C03.publish_flag"},
		Mutant{"C03", "action-granted-by-any-entry", "internal/auth/manager.go",
			"	for _, perm := range perms {\n		if perm.Action == req.Action {",
			"	actionGranted := func() bool {\n		for _, q := range perms {\n			if q.Action == req.Action {\n				return true\n			}\n		}\n		return false\n	}()\n	for _, perm := range perms {\n		if actionGranted {", "C03.perm.same_entry"},
		Mutant{"C03", "action-match-sticks-to-later-entries", "internal/auth/manager.go",
			"	for _, perm := range perms {\n		if perm.Action == req.Action {",
			"	granted := false\n	for _, perm := range perms {\n		granted = granted || perm.Action == req.Action\n		if granted {", "C03.perm.same_entry"},
		// round 4: the IP the manager admits is the client's own claim
		Mutant{"C03", "hls-trusted-proxies-only-when-configured", "internal/servers/hls/http_server.go",
			"	router.SetTrustedProxies(s.trustedProxies.ToTrustedProxies()) //nolint:errcheck\n",
			"	if len(s.trustedProxies) > 0 {\n		router.SetTrustedProxies(s.trustedProxies.ToTrustedProxies()) //nolint:errcheck\n	}\n", "C03.client_ip.trusted_proxies"},
		Mutant{"C03", "webrtc-trusted-proxies-dropped", "internal/servers/webrtc/http_server.go",
			"	router.SetTrustedProxies(s.trustedProxies.ToTrustedProxies()) //nolint:errcheck\n", "", "C03.client_ip.trusted_proxies"},
		Mutant{"C03", "moq-trusted-proxies-only-when-configured", "internal/servers/moq/http_server.go",
			"	routerHTTP2.SetTrustedProxies(s.trustedProxies.ToTrustedProxies()) //nolint:errcheck\n",
			"	if len(s.trustedProxies) != 0 {\n		routerHTTP2.SetTrustedProxies(s.trustedProxies.ToTrustedProxies()) //nolint:errcheck\n	}\n", "C03.client_ip.trusted_proxies"},
		Mutant{"C03", "webrtc-proxy-list-is-everybody", "internal/servers/webrtc/server.go",
			"		trustedProxies: s.TrustedProxies,\n", "		trustedProxies: conf.IPNetworks{{IP: net.IPv4zero, Mask: net.CIDRMask(0, 32)}},\n", "C03.client_ip.trusted_proxies"},
		Mutant{"C03", "moq-client-ip-from-platform-header", "internal/servers/moq/http_server.go",
			"	routerHTTP2.Use(s.middlewarePreflightRequests)\n", "	routerHTTP2.TrustedPlatform = gin.PlatformCloudflare\n	routerHTTP2.Use(s.middlewarePreflightRequests)\n", "C03.client_ip.engine_fields"},
	)
}

const (
	aFind     = "(conf.FindPathConf($0.pathConfs, $1.AccessRequest.Name)#2 == nil)"
	aAuth     = "((core.pathManagerAuthManager).Authenticate($0.authManager, (*defs.PathAccessRequest).ToAuthRequest($1.AccessRequest))#1 == nil)"
	aSkip     = "$1.AccessRequest.SkipAuth"
	aConfNil  = "($1.ConfToCompare == nil)"
	aConfSame = "(*conf.Path).Equal(conf.FindPathConf($0.pathConfs, $1.AccessRequest.Name)#0, $1.ConfToCompare)"
)

// sentFields returns the fields stored into the struct literal sent by a Send.
func sentFields(s *ssa.Send) map[string]ssa.Value {
	out := map[string]ssa.Value{}
	u, ok := s.X.(*ssa.UnOp)
	if !ok {
		return out
	}
	a, ok := u.X.(*ssa.Alloc)
	if !ok {
		return out
	}
	for _, r := range *a.Referrers() {
		fa, ok := r.(*ssa.FieldAddr)
		if !ok {
			continue
		}
		st := fa.X.Type().Underlying().(*types.Pointer).Elem().Underlying().(*types.Struct)
		for _, rr := range *fa.Referrers() {
			if sto, ok := rr.(*ssa.Store); ok && sto.Addr == fa {
				out[st.Field(fa.Field).Name()] = sto.Val
			}
		}
	}
	return out
}

func successReply(i ssa.Instruction) bool {
	s, ok := i.(*ssa.Send)
	if !ok || desc(s.Chan) != "$1.Res" {
		return false
	}
	_, hasErr := sentFields(s)["Err"]
	return !hasErr
}

func runC03(c *Ctx) {
	p := c.Main()
	if p == nil {
		return
	}
	defer dumpObls(c)
	c.Explain = "E1 on the four path-manager handlers and the three wrappers; E3 on ToAuthRequest (Action: evaluation under the assumption Publish == true / false, prop_gen_c03.go); the CDN SkipAuth store: dominated by a boolean receiver field whose every store in the package evaluates to false when the secret is empty or the bearer comparison fails; E2 enumeration of every defs.PathAccessRequest composite literal and SkipAuth store in the module with per-site classification (publisher / internal reader / CDN), ConfToCompare origin resolved through locals, same-package struct fields and parameters of unexported functions. linux/arm is loaded additionally because the rpicamera SkipAuth site exists only there. Rule C03.perm.same_entry (prop_r3_c03.go): two edge-filtered walks per list element of every boolean decision function that branches on a permission entry's Path - (1) from the function entry avoiding every edge on which `element.Action == request.Action` holds, (2) from each path test reached that way, staying in the element's loop iteration, to a return that is not the constant false; a hit means path and action can be granted by different entries. Rule C03.client_ip.* (prop_r4_c04.go): enumeration of the gin.New()/gin.Default() calls of internal/servers/*, call-graph walk from the handlers installed on each engine (static calls, closures, bound methods, interface calls into the module; an escaping *gin.Context counts as reaching) to gin.Context.ClientIP, and for each reaching engine a barrier walk: serve points (store into a Handler field, Initialize of that server, engine.Run*) are preceded on every path by SetTrustedProxies(engine, configured list). Not decided there: that Core passes the right configuration field into the component's TrustedProxies."
	c.Assume = []string{
		"the auth manager decides correctly (C01, C02) apart from the entry binding of action and path, which is decided here",
		"gortsplib: the path announced in ANNOUNCE equals ServerSession.Path() afterwards",
		"conf.Path.Equal is reflect.DeepEqual on the configuration",
	}

	// ---- (1) handlers
	type h struct {
		name      string
		skipOK    bool
		confCheck bool
	}
	for _, hd := range []h{{"doFindPathConf", false, false}, {"doDescribe", true, false}, {"doAddReader", true, false}, {"doAddPublisher", true, true}} {
		fn := c.fn(p, "internal/core", "pathManager", hd.name)
		if fn == nil {
			continue
		}
		c.MustPass(p, fn, "C03.handler.conf_found", "success reply on req.Res", successReply, T(aFind))
		if hd.skipOK {
			c.MustPass(p, fn, "C03.handler.auth", "success reply on req.Res", successReply, T(aAuth), T(aSkip))
		} else {
			c.MustPass(p, fn, "C03.handler.auth", "success reply on req.Res", successReply, T(aAuth))
			// no reference to SkipAuth at all in the witness handler
			n := 0
			eachInstr(fn, func(i ssa.Instruction) {
				if v, ok := i.(ssa.Value); ok && strings.Contains(desc(v), "SkipAuth") {
					n++
				}
			})
			c.Check("C03.handler.findpathconf_never_skips", fnName(fn)+": no use of SkipAuth", n == 0, p.Pos(fn.Pos()), "FindPathConf is the authorisation witness of publishers; it must not honour SkipAuth")
		}
		if hd.confCheck {
			c.MustPass(p, fn, "C03.handler.conf_in_force", "success reply on req.Res", successReply, T(aConfNil), T(aConfSame))
		}
		// the path handed back is the one registered under the authorised name
		eachInstr(fn, func(i ssa.Instruction) {
			s, ok := i.(*ssa.Send)
			if !ok || !successReply(i) {
				return
			}
			f := sentFields(s)
			if hd.name == "doFindPathConf" {
				d := ""
				if f["Conf"] != nil {
					d = desc(f["Conf"])
				}
				c.Check("C03.handler.reply_binding", fnName(fn)+": reply Conf is the resolved configuration", d == "conf.FindPathConf($0.pathConfs, $1.AccessRequest.Name)#0", p.Pos(posOf(i, fn)), "got "+d)
				return
			}
			d := ""
			if f["Path"] != nil {
				d = desc(f["Path"])
			}
			c.Check("C03.handler.reply_binding", fnName(fn)+": reply Path is paths[req.AccessRequest.Name]", d == "$0.paths[$1.AccessRequest.Name]", p.Pos(posOf(i, fn)), "got "+d)
		})
		// createPath is called with the resolved conf and the authorised name
		for _, cl := range callsIn(fn, "(*core.pathManager).createPath") {
			d := desc(cl.(ssa.Value))
			want := "(*core.pathManager).createPath($0, conf.FindPathConf($0.pathConfs, $1.AccessRequest.Name)#0, $1.AccessRequest.Name, conf.FindPathConf($0.pathConfs, $1.AccessRequest.Name)#1)"
			c.Check("C03.handler.create_binding", fnName(fn)+": createPath(conf, name, matches) of the resolved request", d == want, p.Pos(cl.Pos()), "got "+d)
		}
	}

	// ---- (2) ToAuthRequest
	ta := c.fn(p, "internal/defs", "PathAccessRequest", "ToAuthRequest")
	if ta != nil {
		want := map[string]string{"Path": "$0.Name", "Query": "$0.Query", "Protocol": "$0.Proto", "Credentials": "$0.Credentials",
			"IP": "$0.IP", "CustomVerifyFunc": "$0.CustomVerifyFunc", "EnableAskCredentials": "$0.EnableAskCredentials"}
		got := map[string]string{}
		for _, st := range allFieldStores(ta) {
			got[st.field] = desc(st.val)
		}
		for f, w := range want {
			c.Check("C03.to_auth_request", "PathAccessRequest.ToAuthRequest: auth.Request."+f+" ← "+w, got[f] == w, p.Pos(ta.Pos()), "got "+got[f])
		}
		// Action: publish exactly when the Publish flag is set (prop_gen_c03.go)
		c.c03Action(p, ta)
	}

	// ---- (3) wrappers and who-may-call
	wrappers := map[string]string{"Describe": "describe", "AddReader": "addReader", "AddPublisher": "addPublisher"}
	for w, inner := range wrappers {
		fn := c.fn(p, "internal/core", "pathManager", w)
		if fn == nil {
			continue
		}
		c.MustPass(p, fn, "C03.wrapper.after_manager_ok", "call (*path)."+inner, callTo("(*core.path)."+inner), T("(<-$1.Res.Err == nil)"))
		for _, cl := range callsIn(fn, "(*core.path)."+inner) {
			args := callCommon(cl).Args
			ok := len(args) == 2 && desc(args[0]) == "<-$1.Res.Path.(*core.path)" && desc(args[1]) == "$1"
			c.Check("C03.wrapper.binding", fnName(fn)+": (*path)."+inner+" on the path returned by the manager with the same request", ok, p.Pos(cl.Pos()), desc(cl.(ssa.Value)))
		}
	}
	nCalls := 0
	chanOwners := map[string]string{"chDescribe": "describe", "chAddReader": "addReader", "chAddPublisher": "addPublisher"}
	for _, fn := range p.ModFuncs() {
		eachInstr(fn, func(i ssa.Instruction) {
			for w, inner := range wrappers {
				if isCallTo(i, "(*core.path)."+inner) {
					nCalls++
					c.Check("C03.who_may_call", "(*path)."+inner+" called from "+fnName(fn), fnName(fn) == "(*internal/core.pathManager)."+w, p.Pos(i.Pos()), "only the path-manager wrapper may enter the path")
				}
			}
			// sends on the path's request channels only from the path's own wrappers
			var ch ssa.Value
			switch x := i.(type) {
			case *ssa.Send:
				ch = x.Chan
			case *ssa.Select:
				for _, st := range x.States {
					if st.Send != nil {
						d := desc(st.Chan)
						for f, owner := range chanOwners {
							if strings.HasSuffix(d, "."+f) && strings.HasPrefix(d, "$0.") && isPathRecv(fn) {
								nCalls++
								c.Check("C03.who_may_send", "send on path."+f+" from "+fnName(fn), fnName(fn) == "(*internal/core.path)."+owner, p.Pos(posOf(i, fn)), "")
							}
						}
					}
				}
			}
			_ = ch
		})
	}
	c.Floor("C03.who_may", nCalls, 6)

	// ---- (6) action and path are granted by the same permission entry (prop_r3_c03.go)
	c.c03SameEntry(p)

	// ---- (7) "admitted the client's ... IP": on the HTTP-based media servers (HLS,
	// WebRTC, MoQ) PathAccessRequest.IP is gin's ctx.ClientIP(); every gin engine
	// of internal/servers/* whose handlers can reach it is given the configured
	// proxy list on every path before it serves (prop_r4_c04.go).
	c.Floor("C03.client_ip.trusted_proxies", c.ginClientIPR4(p, "C03", isMediaServerPkgR4), 3)
	c.ginEngineFieldsR4(p, "C03")

	// ---- (4),(5) sites, per build configuration
	c.accessSites(p, true)
	if parm := c.Load("linux", "arm"); parm != nil {
		c.accessSites(parm, false)
	}
}

func isPathRecv(fn *ssa.Function) bool {
	return fn.Signature.Recv() != nil && typeStr(fn.Signature.Recv().Type()) == "*core.path"
}

type fstore struct {
	field string
	val   ssa.Value
}

func allFieldStores(fn *ssa.Function) []fstore {
	var out []fstore
	eachInstr(fn, func(i ssa.Instruction) {
		st, ok := i.(*ssa.Store)
		if !ok {
			return
		}
		if fa, ok := st.Addr.(*ssa.FieldAddr); ok {
			s := fa.X.Type().Underlying().(*types.Pointer).Elem().Underlying().(*types.Struct)
			out = append(out, fstore{s.Field(fa.Field).Name(), st.Val})
		}
	})
	return out
}

// ---------------- site enumeration (AST) ----------------

// internal-reader SkipAuth sites: no network client is behind them.
var internalReaderSites = map[string]string{
	"internal/servers/hls|muxer.runInner":                    "the HLS muxer's own reader; its media leaves the server only through muxer.handleRequest, guarded by C43",
	"internal/staticsources/rpicamera|Source.waitForPrimary": "rpicamera secondary stream reads the primary stream of the same configuration (no client)",
}

func (c *Ctx) accessSites(p *Prog, primary bool) {
	nLits, nSkip := 0, 0
	for _, pk := range p.Pkgs {
		for _, file := range pk.Syntax {
			var lits []*ast.CompositeLit
			ast.Inspect(file, func(n ast.Node) bool {
				switch x := n.(type) {
				case *ast.CompositeLit:
					if tv, ok := pk.TypesInfo.Types[x]; ok && isNamed(tv.Type, "internal/defs", "PathAccessRequest") {
						lits = append(lits, x)
					}
				case *ast.AssignStmt:
					// stores X.SkipAuth = ...
					for k, lhs := range x.Lhs {
						se, ok := lhs.(*ast.SelectorExpr)
						if !ok || se.Sel.Name != "SkipAuth" {
							continue
						}
						if tv, ok := pk.TypesInfo.Types[se.X]; !ok || !isNamed(tv.Type, "internal/defs", "PathAccessRequest") {
							continue
						}
						if !primary && !onlyInThisCfg(p, file) {
							continue
						}
						nSkip++
						c.skipStoreSite(p, pk, file, x, x.Rhs[k])
					}
				}
				return true
			})
			for _, cl := range lits {
				if !primary && !onlyInThisCfg(p, file) {
					continue // already decided in the primary configuration
				}
				nLits++
				if c.accessLiteral(p, pk, file, cl) {
					nSkip++
				}
			}
		}
	}
	if primary {
		c.Floor("C03.sites.literals", nLits, 21)
		c.Floor("C03.sites.skipauth", nSkip, 7)
	} else {
		c.Floor("C03.sites.literals(arm-only)", nLits, 1)
		c.Floor("C03.sites.skipauth(arm-only)", nSkip, 1)
	}
}

// onlyInThisCfg: the file is excluded from linux/amd64 by build constraints
// (file name suffix or //go:build), so it is analysed in the secondary load.
func onlyInThisCfg(p *Prog, f *ast.File) bool {
	name := p.Fset.Position(f.Pos()).Filename
	main := progCache["linux/amd64"]
	if main == nil {
		return true
	}
	_, inMain := main.fileOf[name]
	return !inMain
}

func siteKey(p *Prog, pk *packages.Package, file *ast.File, pos token.Pos) string {
	fd := enclosingFunc(file, pos)
	return strings.TrimPrefix(pk.PkgPath, modPath+"/") + "|" + funcDeclName(fd)
}

// enclosing request literal kind of an access literal: the composite literal
// it is the AccessRequest field of.
func enclosingReq(pk *packages.Package, file *ast.File, cl *ast.CompositeLit) (*ast.CompositeLit, string) {
	path, _ := astutil.PathEnclosingInterval(file, cl.Pos(), cl.End())
	for _, n := range path[1:] {
		if outer, ok := n.(*ast.CompositeLit); ok {
			if tv, ok := pk.TypesInfo.Types[outer]; ok {
				if nt := namedOf(tv.Type); nt != nil {
					return outer, nt.Obj().Name()
				}
			}
		}
	}
	return nil, ""
}

func isTrue(e ast.Expr) bool {
	id, ok := unparen(e).(*ast.Ident)
	return ok && id.Name == "true"
}

func isFalseOrAbsent(e ast.Expr) bool {
	if e == nil {
		return true
	}
	id, ok := unparen(e).(*ast.Ident)
	return ok && id.Name == "false"
}

// accessLiteral decides one PathAccessRequest literal; returns true when it
// is a SkipAuth:true site.
func (c *Ctx) accessLiteral(p *Prog, pk *packages.Package, file *ast.File, cl *ast.CompositeLit) bool {
	key := siteKey(p, pk, file, cl.Pos())
	outer, kind := enclosingReq(pk, file, cl)
	pos := p.Pos(cl.Pos())
	skip := kv(cl, "SkipAuth")
	pub := kv(cl, "Publish")

	// (5) Publish constant matches the request kind
	switch kind {
	case "PathAddPublisherReq":
		c.Check("C03.publish_flag", key+": AddPublisher request has Publish: true", pub != nil && isTrue(pub), pos, exprStr(pub))
	case "PathAddReaderReq", "PathDescribeReq":
		c.Check("C03.publish_flag", key+": "+kind+" has Publish false", isFalseOrAbsent(pub), pos, exprStr(pub))
	case "PathFindPathConfReq":
		// any boolean is fine here: FindPathConf authorises the action it is
		// asked about; it counts as a publisher witness only with a constant
		// true (checked in witnessCall).
		c.Check("C03.publish_flag", key+": FindPathConf request authenticates (no SkipAuth)", skip == nil, pos, exprStr(skip))
	default:
		// a literal not directly inside a request literal (hls session builds it
		// in a local first): it must end up in a known request kind
		c.Check("C03.publish_flag", key+": standalone access request literal has constant Publish", pub == nil || isTrue(pub) || isFalseOrAbsent(pub), pos, exprStr(pub))
	}

	if skip == nil || !isTrue(skip) {
		if skip != nil {
			c.Check("C03.skipauth.constant", key+": SkipAuth is a constant", isFalseOrAbsent(skip), pos, exprStr(skip))
		}
		// non-skip site: carries the client's identity
		need := []string{"Name", "Proto", "IP"}
		for _, f := range need {
			c.Check("C03.site.identity", key+": non-skip access request sets "+f, kv(cl, f) != nil, pos, "")
		}
		hasCred := kv(cl, "Credentials") != nil || laterFieldStore(pk, file, cl, "Credentials")
		c.Check("C03.site.identity", key+": non-skip access request sets Credentials", hasCred, pos, "")
		return false
	}

	// SkipAuth: true
	if why, ok := internalReaderSites[key]; ok {
		c.Check("C03.skipauth.internal_reader", key+": SkipAuth internal reader (frozen table)", kind == "PathAddReaderReq" && isFalseOrAbsent(pub), pos, why)
		return true
	}
	if kind != "PathAddPublisherReq" {
		c.Check("C03.skipauth.unclassified", key+": SkipAuth:true in "+kindOr(kind), false, pos, "SkipAuth is accepted only for publishers that carry the authorised configuration, the internal-reader table and the CDN store")
		return true
	}
	ctc := kv(outer, "ConfToCompare")
	if ctc == nil {
		c.Check("C03.skipauth.publisher_conf", key+": SkipAuth publisher carries ConfToCompare", false, pos, "ConfToCompare missing: the publisher is attached without authorisation witness")
		return true
	}
	fd := enclosingFunc(file, cl.Pos())
	fl := &flow{c: c, p: p, pk: pk, seen: map[string]bool{}}
	ok, why := fl.fromFindPathConf(ctc, file, fd, exprStr(kv(cl, "Name")), exprStr(kv(cl, "Query")))
	c.Check("C03.skipauth.publisher_conf", key+": ConfToCompare flows from FindPathConf(Publish:true).Conf", ok, pos, why)
	return true
}

func kindOr(k string) string {
	if k == "" {
		return "a standalone literal"
	}
	return k
}

// laterFieldStore: `local := lit; ...; local.F = v` in the same function.
func laterFieldStore(pk *packages.Package, file *ast.File, cl *ast.CompositeLit, field string) bool {
	fd := enclosingFunc(file, cl.Pos())
	if fd == nil {
		return false
	}
	found := false
	ast.Inspect(fd, func(n ast.Node) bool {
		as, ok := n.(*ast.AssignStmt)
		if !ok {
			return true
		}
		for _, lhs := range as.Lhs {
			if se, ok := lhs.(*ast.SelectorExpr); ok && se.Sel.Name == field {
				if tv, ok := pk.TypesInfo.Types[se.X]; ok && isNamed(tv.Type, "internal/defs", "PathAccessRequest") {
					found = true
				}
			}
		}
		return true
	})
	return found
}

// skipStoreSite: `x.SkipAuth = v` outside a literal. Accepted only as the CDN
// idiom: v == true, guarded by `if s.isCDN`, and isCDN defined as the
// conjunction (secret configured ∧ Authorization == "Bearer "+secret).
func (c *Ctx) skipStoreSite(p *Prog, pk *packages.Package, file *ast.File, as *ast.AssignStmt, rhs ast.Expr) {
	key := siteKey(p, pk, file, as.Pos())
	pos := p.Pos(as.Pos())
	if !isTrue(rhs) {
		c.Check("C03.skipauth.unclassified", key+": SkipAuth store of non-constant", isFalseOrAbsent(rhs), pos, exprStr(rhs))
		return
	}
	// decided on SSA (prop_gen_c03.go): the store is dominated by an edge on which a
	// boolean field of the receiver holds, and every value stored into that
	// field in this package is false unless the secret is configured and the
	// Authorization header equals "Bearer "+secret.
	c.c03CDNGuard(p, pk.PkgPath, key, pos, as.Pos(), as.End())
}

// ---------------- ConfToCompare origin ----------------

type flow struct {
	c    *Ctx
	p    *Prog
	pk   *packages.Package
	seen map[string]bool
}

func fileOfNode(p *Prog, pk *packages.Package, pos token.Pos) *ast.File {
	for _, f := range pk.Syntax {
		if f.Pos() <= pos && pos <= f.End() {
			return f
		}
	}
	return nil
}

// fromFindPathConf: does expression e (in function fd) always hold the .Conf of
// the result of a pathManager.FindPathConf call whose access request has
// Publish:true and no SkipAuth? name/query are the expressions of the SkipAuth
// site; they are compared with the witness when it is in the same function
// (or reached through parameters that are passed along unchanged).
func (f *flow) fromFindPathConf(e ast.Expr, file *ast.File, fd *ast.FuncDecl, name, query string) (bool, string) {
	e = unparen(e)
	switch x := e.(type) {
	case *ast.SelectorExpr:
		// res.Conf where res := X.FindPathConf(...)
		if x.Sel.Name == "Conf" {
			if id, ok := unparen(x.X).(*ast.Ident); ok {
				if call := f.defCall(id, fd); call != nil {
					return f.witnessCall(call, file, name, query)
				}
			}
		}
		// struct field of this package: every store / literal key must flow
		if sel, ok := f.pk.TypesInfo.Selections[x]; ok && sel.Kind() == types.FieldVal {
			fv := sel.Obj().(*types.Var)
			if fv.Pkg() != f.pk.Types {
				return false, "field " + fv.Name() + " of another package"
			}
			k := "field:" + fv.Pkg().Path() + "." + fv.Name() + "@" + f.p.Pos(fv.Pos())
			if f.seen[k] {
				return true, "(recursive)"
			}
			f.seen[k] = true
			n := 0
			allOK := true
			why := ""
			for _, file2 := range f.pk.Syntax {
				ast.Inspect(file2, func(nd ast.Node) bool {
					var val ast.Expr
					var at token.Pos
					switch y := nd.(type) {
					case *ast.AssignStmt:
						for k2, lhs := range y.Lhs {
							if se, ok := lhs.(*ast.SelectorExpr); ok {
								if s2, ok := f.pk.TypesInfo.Selections[se]; ok && s2.Obj() == fv && k2 < len(y.Rhs) {
									val, at = y.Rhs[k2], y.Pos()
								}
							}
						}
					case *ast.KeyValueExpr:
						if id, ok := y.Key.(*ast.Ident); ok && f.pk.TypesInfo.Uses[id] == fv {
							val, at = y.Value, y.Pos()
						}
					}
					if val == nil {
						return true
					}
					n++
					fd2 := enclosingFunc(file2, at)
					// name/query are not compared across functions (table: gortsplib invariant)
					ok, w := f.fromFindPathConf(val, file2, fd2, "", "")
					if !ok {
						allOK = false
						why = "store to " + fv.Name() + " at " + f.p.Pos(at) + ": " + w
					}
					return true
				})
			}
			if n == 0 {
				return false, "field " + fv.Name() + " is never assigned"
			}
			if !allOK {
				return false, why
			}
			return true, "every store to field " + fv.Name() + " (" + itoa(n) + ") is the Conf of a FindPathConf(Publish:true) result"
		}
	case *ast.Ident:
		obj := f.pk.TypesInfo.Uses[x]
		v, ok := obj.(*types.Var)
		if !ok {
			return false, "not a variable: " + x.Name
		}
		// parameter of the enclosing (unexported) function: all call sites
		if fd != nil && isParamOf(f.pk, fd, v) {
			if ast.IsExported(fd.Name.Name) {
				return false, "parameter of exported function " + fd.Name.Name
			}
			idx := paramPos(f.pk, fd, v)
			fobj := f.pk.TypesInfo.Defs[fd.Name]
			n := 0
			allOK := true
			why := ""
			for _, file2 := range f.pk.Syntax {
				ast.Inspect(file2, func(nd ast.Node) bool {
					call, ok := nd.(*ast.CallExpr)
					if !ok || calleeObj(f.pk, call) != fobj || idx >= len(call.Args) {
						return true
					}
					n++
					fd2 := enclosingFunc(file2, call.Pos())
					// translate name/query through parameters passed along unchanged
					nm, q := translateArgs(f.pk, fd, call, name), translateArgs(f.pk, fd, call, query)
					ok2, w := f.fromFindPathConf(call.Args[idx], file2, fd2, nm, q)
					if !ok2 {
						allOK = false
						why = "call at " + f.p.Pos(call.Pos()) + ": " + w
					}
					return true
				})
			}
			// a function value use (not a call) would escape this rule
			uses := 0
			for id, o := range f.pk.TypesInfo.Uses {
				if o == fobj {
					_ = id
					uses++
				}
			}
			if uses != n {
				return false, "function " + fd.Name.Name + " is used as a value"
			}
			if n == 0 {
				return false, "no call site of " + fd.Name.Name
			}
			if !allOK {
				return false, why
			}
			return true, "every call of " + fd.Name.Name + " passes the Conf of a FindPathConf(Publish:true) result"
		}
		// local defined once from another expression
		if call := f.defCall(x, fd); call != nil {
			return false, "local defined by a call, not a .Conf selection"
		}
		if def := f.singleDef(x, fd); def != nil {
			return f.fromFindPathConf(def, file, fd, name, query)
		}
	}
	return false, "unrecognised origin: " + exprStr(e)
}

func itoa(n int) string {
	s := ""
	if n == 0 {
		return "0"
	}
	for n > 0 {
		s = string(rune('0'+n%10)) + s
		n /= 10
	}
	return s
}

func isParamOf(pk *packages.Package, fd *ast.FuncDecl, v *types.Var) bool {
	return paramPos(pk, fd, v) >= 0
}

func paramPos(pk *packages.Package, fd *ast.FuncDecl, v *types.Var) int {
	i := 0
	for _, fl := range fd.Type.Params.List {
		for _, n := range fl.Names {
			if pk.TypesInfo.Defs[n] == v {
				return i
			}
			i++
		}
		if len(fl.Names) == 0 {
			i++
		}
	}
	return -1
}

// translateArgs rewrites an expression of the callee (in terms of its
// parameters) into the caller's terms when it is `param` or `param.sel...`.
func translateArgs(pk *packages.Package, fd *ast.FuncDecl, call *ast.CallExpr, e string) string {
	if e == "" {
		return ""
	}
	i := 0
	for _, fl := range fd.Type.Params.List {
		for _, n := range fl.Names {
			if i < len(call.Args) && (e == n.Name || strings.HasPrefix(e, n.Name+".")) {
				return exprStr(call.Args[i]) + strings.TrimPrefix(e, n.Name)
			}
			i++
		}
	}
	return e
}

// defCall: the single `id, ... := call(...)` definition of a local.
func (f *flow) defCall(id *ast.Ident, fd *ast.FuncDecl) *ast.CallExpr {
	if fd == nil {
		return nil
	}
	obj := f.pk.TypesInfo.Uses[id]
	if obj == nil {
		return nil
	}
	var call *ast.CallExpr
	n := 0
	ast.Inspect(fd, func(nd ast.Node) bool {
		as, ok := nd.(*ast.AssignStmt)
		if !ok {
			return true
		}
		for _, lhs := range as.Lhs {
			if l, ok := lhs.(*ast.Ident); ok && (f.pk.TypesInfo.Defs[l] == obj || f.pk.TypesInfo.Uses[l] == obj) {
				n++
				if len(as.Rhs) == 1 {
					if ce, ok := unparen(as.Rhs[0]).(*ast.CallExpr); ok {
						call = ce
					}
				}
			}
		}
		return true
	})
	if n != 1 {
		return nil
	}
	return call
}

func (f *flow) singleDef(id *ast.Ident, fd *ast.FuncDecl) ast.Expr {
	if fd == nil {
		return nil
	}
	obj := f.pk.TypesInfo.Uses[id]
	var def ast.Expr
	n := 0
	ast.Inspect(fd, func(nd ast.Node) bool {
		as, ok := nd.(*ast.AssignStmt)
		if !ok {
			return true
		}
		for k, lhs := range as.Lhs {
			if l, ok := lhs.(*ast.Ident); ok && (f.pk.TypesInfo.Defs[l] == obj || f.pk.TypesInfo.Uses[l] == obj) {
				n++
				if len(as.Lhs) == len(as.Rhs) {
					def = as.Rhs[k]
				}
			}
		}
		return true
	})
	if n != 1 {
		return nil
	}
	return def
}

// witnessCall: call is X.FindPathConf(defs.PathFindPathConfReq{AccessRequest: {Publish:true, no SkipAuth, Name, Query}}).
func (f *flow) witnessCall(call *ast.CallExpr, file *ast.File, name, query string) (bool, string) {
	obj := calleeObj(f.pk, call)
	if obj == nil || obj.Name() != "FindPathConf" {
		return false, "defining call is not FindPathConf"
	}
	fo, ok := obj.(*types.Func)
	if !ok {
		return false, "not a method"
	}
	sig := fo.Type().(*types.Signature)
	if sig.Params().Len() != 1 || !isNamed(sig.Params().At(0).Type(), "internal/defs", "PathFindPathConfReq") {
		return false, "FindPathConf with unexpected signature"
	}
	if len(call.Args) != 1 {
		return false, "FindPathConf args"
	}
	reqLit, ok := unparen(call.Args[0]).(*ast.CompositeLit)
	if !ok {
		return false, "FindPathConf request is not a literal"
	}
	ar, ok := unparen(kv(reqLit, "AccessRequest")).(*ast.CompositeLit)
	if !ok {
		return false, "FindPathConf access request is not a literal"
	}
	if !isTrue(kv(ar, "Publish")) {
		return false, "witness FindPathConf at " + f.p.Pos(call.Pos()) + " does not authorise the publish action (Publish is not true)"
	}
	if kv(ar, "SkipAuth") != nil {
		return false, "witness FindPathConf sets SkipAuth"
	}
	for _, fld := range []string{"Credentials", "IP", "Proto"} {
		if kv(ar, fld) == nil {
			return false, "witness FindPathConf lacks " + fld
		}
	}
	if name != "" && exprStr(kv(ar, "Name")) != name {
		if !(pathInvariantTable[exprStr(kv(ar, "Name"))+"≡"+name]) {
			return false, "witness authorises name " + exprStr(kv(ar, "Name")) + " but the publisher is attached to " + name
		}
	}
	if query != "" && exprStr(kv(ar, "Query")) != query {
		if !(pathInvariantTable[exprStr(kv(ar, "Query"))+"≡"+query]) {
			return false, "witness authorises query " + exprStr(kv(ar, "Query")) + " but the publisher uses " + query
		}
	}
	return true, "witness FindPathConf(Publish:true) at " + f.p.Pos(call.Pos())
}

// expressions that denote the same value by a library invariant.
var pathInvariantTable = map[string]bool{}

func sortedKeys(m map[string]bool) []string {
	var out []string
	for k := range m {
		out = append(out, k)
	}
	sort.Strings(out)
	return out
}
