package main

import (
	"go/ast"
	"go/token"
	"go/types"

	"golang.org/x/tools/go/packages"
)

// C13 helpers that make the AST rules independent of how a condition is spelled:
//
//   * a local that is defined once and never written again is a NAME for its
//     defining expression ("a condition given a name", "a hoisted expression"):
//     the rules look through it (resolve / lits / inspect), in conditions, in
//     call arguments and in composite literals alike. Premise checked here: one
//     definition, no later assignment, no ++/--, address never taken.
//     (Substituting the definition at the use is valid for the questions C13 asks
//     - which configuration fields are read, which are compared - because those
//     do not depend on WHEN the expression is evaluated.)
//   * a condition is read as a list of literals (expression, polarity) of a
//     conjunction or a disjunction: `!` distributes (De Morgan), parentheses and
//     names are transparent, `a == b` under a negation is `a != b`.
//   * nested `if`s and merged `&&` guards are the same thing: statements are
//     visited with the stack of literals that hold when they run (else-branches
//     with the negated condition).

type c13locals struct {
	pk  *packages.Package
	def map[types.Object]ast.Expr
}

func c13singleDefLocals(pk *packages.Package, fd *ast.FuncDecl) *c13locals {
	L := &c13locals{pk: pk, def: map[types.Object]ast.Expr{}}
	killed := map[types.Object]bool{}
	ndef := map[types.Object]int{}
	kill := func(e ast.Expr) {
		if id, ok := unparen(e).(*ast.Ident); ok {
			if o := pk.TypesInfo.Uses[id]; o != nil {
				killed[o] = true
			}
		}
	}
	ast.Inspect(fd.Body, func(n ast.Node) bool {
		switch x := n.(type) {
		case *ast.AssignStmt:
			for i, l := range x.Lhs {
				id, ok := l.(*ast.Ident)
				if !ok {
					continue
				}
				if x.Tok == token.DEFINE {
					if o := pk.TypesInfo.Defs[id]; o != nil {
						ndef[o]++
						if len(x.Lhs) == len(x.Rhs) {
							L.def[o] = x.Rhs[i]
						}
						continue
					}
				}
				kill(l) // plain or compound assignment, or := re-using the variable
			}
		case *ast.GenDecl:
			for _, sp := range x.Specs {
				vs, ok := sp.(*ast.ValueSpec)
				if !ok {
					continue
				}
				for i, id := range vs.Names {
					if o := pk.TypesInfo.Defs[id]; o != nil {
						ndef[o]++
						if len(vs.Names) == len(vs.Values) {
							L.def[o] = vs.Values[i]
						}
					}
				}
			}
		case *ast.IncDecStmt:
			kill(x.X)
		case *ast.UnaryExpr:
			if x.Op == token.AND {
				kill(x.X)
			}
		case *ast.RangeStmt:
			if x.Tok == token.ASSIGN {
				if x.Key != nil {
					kill(x.Key)
				}
				if x.Value != nil {
					kill(x.Value)
				}
			}
		}
		return true
	})
	for o := range L.def {
		if killed[o] || ndef[o] != 1 {
			delete(L.def, o)
		}
	}
	return L
}

// defOf returns the defining expression of a single-definition local named by e.
func (L *c13locals) defOf(e ast.Expr) (types.Object, ast.Expr) {
	id, ok := unparen(e).(*ast.Ident)
	if !ok {
		return nil, nil
	}
	o := L.pk.TypesInfo.Uses[id]
	if o == nil {
		return nil, nil
	}
	return o, L.def[o]
}

// resolve looks through parentheses and names.
func (L *c13locals) resolve(e ast.Expr) ast.Expr {
	for i := 0; i < 16; i++ {
		e = unparen(e)
		_, d := L.defOf(e)
		if d == nil {
			return e
		}
		e = d
	}
	return e
}

// objOf returns the object an expression names after resolving names
// (a parameter, a multiply-assigned variable...), nil when it is no identifier.
func (L *c13locals) objOf(e ast.Expr) types.Object {
	if id, ok := L.resolve(e).(*ast.Ident); ok {
		return L.pk.TypesInfo.Uses[id]
	}
	return nil
}

type c13lit struct {
	e   ast.Expr
	neg bool
}

func (l c13lit) String() string {
	if l.neg {
		return "!(" + exprStr(l.e) + ")"
	}
	return exprStr(l.e)
}

// lits flattens e (negated when neg) into the literals of a want-junction
// (token.LAND or token.LOR). A name is looked through unless keep says it is a
// unit of its own (a close flag).
func (L *c13locals) lits(e ast.Expr, want token.Token, neg bool, keep func(types.Object, ast.Expr) bool) []c13lit {
	return L.lits1(e, want, neg, keep, 0)
}

func (L *c13locals) lits1(e ast.Expr, want token.Token, neg bool, keep func(types.Object, ast.Expr) bool, depth int) []c13lit {
	e = unparen(e)
	if depth > 32 {
		return []c13lit{{e, neg}}
	}
	switch x := e.(type) {
	case *ast.Ident:
		if o, d := L.defOf(x); d != nil && (keep == nil || !keep(o, d)) {
			return L.lits1(d, want, neg, keep, depth+1)
		}
	case *ast.UnaryExpr:
		if x.Op == token.NOT {
			return L.lits1(x.X, want, !neg, keep, depth+1)
		}
	case *ast.BinaryExpr:
		if x.Op == token.LAND || x.Op == token.LOR {
			eff := x.Op
			if neg { // De Morgan
				if eff == token.LAND {
					eff = token.LOR
				} else {
					eff = token.LAND
				}
			}
			if eff == want {
				return append(L.lits1(x.X, want, neg, keep, depth+1), L.lits1(x.Y, want, neg, keep, depth+1)...)
			}
		}
	}
	return []c13lit{{e, neg}}
}

// walk visits every non-if statement under stmts with the literals that hold
// there (conjunction). Only if/else and blocks contribute conditions.
func (L *c13locals) walk(stmts []ast.Stmt, conds []c13lit, keep func(types.Object, ast.Expr) bool, visit func(ast.Stmt, []c13lit)) {
	for _, st := range stmts {
		switch x := st.(type) {
		case *ast.BlockStmt:
			L.walk(x.List, conds, keep, visit)
		case *ast.IfStmt:
			if x.Init != nil {
				visit(x.Init, conds)
			}
			then := append(append([]c13lit{}, conds...), L.lits(x.Cond, token.LAND, false, keep)...)
			L.walk(x.Body.List, then, keep, visit)
			if x.Else != nil {
				els := append(append([]c13lit{}, conds...), L.lits(x.Cond, token.LAND, true, keep)...)
				L.walk([]ast.Stmt{x.Else}, els, keep, visit)
			}
		default:
			visit(st, conds)
		}
	}
}

// inspect is ast.Inspect that also enters the definition of every name it meets
// (once).
func (L *c13locals) inspect(n ast.Node, f func(ast.Node) bool) {
	seen := map[types.Object]bool{}
	var rec func(n ast.Node)
	rec = func(n ast.Node) {
		ast.Inspect(n, func(m ast.Node) bool {
			if !f(m) {
				return false
			}
			if id, ok := m.(*ast.Ident); ok {
				if o := L.pk.TypesInfo.Uses[id]; o != nil && L.def[o] != nil && !seen[o] {
					seen[o] = true
					rec(L.def[o])
				}
			}
			return true
		})
	}
	rec(n)
}

// isNilIdent: the predeclared nil.
func c13isNil(pk *packages.Package, e ast.Expr) bool {
	id, ok := unparen(e).(*ast.Ident)
	if !ok {
		return false
	}
	_, isNil := pk.TypesInfo.Uses[id].(*types.Nil)
	return isNil
}

// eqParts: the literal is an (in)equality; returns operands and whether it
// asserts "differ".
func c13eqParts(l c13lit) (x, y ast.Expr, differ, ok bool) {
	be, isBin := unparen(l.e).(*ast.BinaryExpr)
	if !isBin || (be.Op != token.EQL && be.Op != token.NEQ) {
		return nil, nil, false, false
	}
	return be.X, be.Y, (be.Op == token.NEQ) != l.neg, true
}
