package main

// Generalisation of the C07 rules (DESIGN.md section 11, second round).
//
// C07.redact.*: the rule took the stores of api.redactCredentials itself and
// described each by its access path from the clone. A redaction that is
// extracted into a helper (taking the address of the field, the pointer held
// in the field, the enclosing struct, or returning the value to store) has ONE
// store whose address is a parameter. The stores are now enumerated per CALL
// CHAIN: a store inside a new helper is one redaction per call site, its
// access path is the path of the argument followed by the path inside the
// helper, and its controlling conditions are those of the store inside the
// helper (described for that call site) plus those of the call site.
//
// C07.dump.no_bulk: the rule listed the instructions that may use the header
// map (len / range / lookup). Collecting the KEYS with a library function is
// a fourth use that cannot disclose a value: see c07KeysOnly.

import (
	"go/types"
	"strings"

	"golang.org/x/tools/go/ssa"
)

// c07Site is one store of redactCredentials, seen through the chain of new
// helper calls that leads to it (outermost first; empty: in the function itself).
type c07Site struct {
	st    *ssa.Store
	chain []*ssa.Call
}

func c07Sites(fn *ssa.Function) []c07Site {
	var out []c07Site
	var walk func(f *ssa.Function, chain []*ssa.Call)
	walk = func(f *ssa.Function, chain []*ssa.Call) {
		for _, b := range f.Blocks {
			for _, ins := range b.Instrs {
				if st, ok := ins.(*ssa.Store); ok {
					out = append(out, c07Site{st, append([]*ssa.Call(nil), chain...)})
				}
				if h := newHelperCallee(ins); h != nil && len(chain) < 4 {
					walk(h, append(append([]*ssa.Call(nil), chain...), ins.(*ssa.Call)))
				}
			}
		}
	}
	walk(fn, nil)
	return out
}

// bound runs f with every helper of the chain described for its call site.
func (s c07Site) bound(f func()) {
	saved := map[*ssa.Function]*ssa.Call{}
	had := map[*ssa.Function]bool{}
	for _, c := range s.chain {
		h := c.Call.StaticCallee()
		saved[h], had[h] = descBind[h], descBind[h] != nil
		descBind[h] = c
	}
	f()
	for _, c := range s.chain {
		h := c.Call.StaticCallee()
		if had[h] {
			descBind[h] = saved[h]
		} else {
			delete(descBind, h)
		}
	}
}

// c07Path resolves the access path of an address through helper parameters:
// a path rooted at a parameter of the innermost helper continues at the
// argument of its call site.
func c07Path(v ssa.Value, chain []*ssa.Call) (ssa.Value, string) {
	root, path := accessPath(v)
	if pr, ok := root.(*ssa.Parameter); ok && len(chain) > 0 {
		last := chain[len(chain)-1]
		if pr.Parent() == last.Call.StaticCallee() {
			if k := paramIndex(pr); k >= 0 && k < len(last.Call.Args) {
				r2, p2 := c07Path(last.Call.Args[k], chain[:len(chain)-1])
				return r2, p2 + path
			}
		}
	}
	return root, path
}

// controlLits of the store and of every call site of its chain.
func (s c07Site) controlLits() []Lit {
	var out []Lit
	s.bound(func() {
		out = append(out, controlLits(s.st.Block())...)
		for _, c := range s.chain {
			out = append(out, controlLits(c.Block())...)
		}
	})
	return out
}

// c07StoredValue: the values the store can write when the field is set (its
// own emptiness / nil tests fail). A constant, a named local and a helper
// `return placeholder / return v` all evaluate to the placeholder.
func (s c07Site) storedWhenSet(own func(atom string) bool) []string {
	var vals []string
	s.bound(func() {
		ev := newAeval(func(atom string) (bool, bool) {
			if own(atom) {
				return false, true
			}
			return false, false
		})
		vals = ev.vals(s.st.Val)
	})
	return vals
}

// ---- dumpRequest: uses of the header map

// keyOnlyFuncs: library functions that read only the KEYS of the map they
// are given (the result cannot contain a header value).
var keyOnlyFuncs = map[string]bool{"maps.Keys": true}

// c07KeysOnly: the instruction uses the header map only to obtain its keys:
// a call of maps.Keys (possibly instantiated), whose result type is an
// iterator over strings - checked on the instantiated signature, so that a
// function of the same name with another meaning is not accepted.
func c07KeysOnly(i ssa.Instruction) bool {
	c, ok := i.(*ssa.Call)
	if !ok || c.Call.IsInvoke() {
		return false
	}
	f := c.Call.StaticCallee()
	if f == nil {
		return false
	}
	name := calleeName(&c.Call)
	if k := strings.Index(name, "["); k >= 0 {
		name = name[:k]
	}
	if !keyOnlyFuncs[name] || len(c.Call.Args) != 1 {
		return false
	}
	// iter.Seq[K]: func(yield func(K) bool) with K the key type of the map
	mt, ok := c.Call.Args[0].Type().Underlying().(*types.Map)
	if !ok {
		return false
	}
	sig, ok := c.Type().Underlying().(*types.Signature)
	if !ok || sig.Params().Len() != 1 {
		return false
	}
	ys, ok := sig.Params().At(0).Type().Underlying().(*types.Signature)
	return ok && ys.Params().Len() == 1 && types.Identical(ys.Params().At(0).Type(), mt.Key())
}
