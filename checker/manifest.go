package main

import (
	"encoding/json"
	"os"
	"path/filepath"
	"sort"
)

// notApplicable lists the properties that are not claimed, with the reason
// (DESIGN.md section 7). A property registered in `registry` must not be here.
var notApplicable = map[string]string{
	"C22": "equality of remuxed NAL-unit sequences with their inputs is a property of byte values over all access-unit sequences; no clause of it is visible in code shape (static analysis cannot decide it)",
	"C29": "exactness of returned time spans and sample sets is arithmetic over recorded timestamps and file contents; no sound static argument in reach bounds those values",
	"C34": "faithfulness of three pure string parsers over all strings is a value-level round trip; the only structural fragment (escape-table agreement) does not carry the property",
}

func writeManifest() error {
	var ids []string
	for id := range registry {
		ids = append(ids, id)
	}
	sort.Strings(ids)
	var checks []map[string]any
	for _, id := range ids {
		p := registry[id]
		checks = append(checks, map[string]any{
			"property_id":         id,
			"quick_cmd":           "bin/mtxcheck -p " + id + " -tier quick",
			"thorough_cmd":        "bin/mtxcheck -p " + id + " -tier thorough",
			"evidence_file":       "evidence/" + id + ".json",
			"replay_cmd_template": "bin/mtxcheck -p " + id + " -tier quick  # re-evaluates the obligations listed in {path} against the current tree",
			"engine":              "mtxcheck",
			"level_claimed": map[string]any{
				"category":   p.Level,
				"text":       p.Text,
				"design_ref": "DESIGN.md section 4, " + id,
			},
			"level_note": p.Note,
			"technique":  p.Technique,
		})
	}
	var na []map[string]string
	var naIDs []string
	for id := range notApplicable {
		if registry[id] == nil {
			naIDs = append(naIDs, id)
		}
	}
	// properties that are neither registered nor declined explicitly are
	// listed as "not yet decided by a rule" so the manifest is always complete
	for i := 1; i <= 44; i++ {
		id := "C" + string(rune('0'+i/10)) + string(rune('0'+i%10))
		if registry[id] == nil && notApplicable[id] == "" {
			naIDs = append(naIDs, id)
		}
	}
	sort.Strings(naIDs)
	for _, id := range naIDs {
		r := notApplicable[id]
		if r == "" {
			r = "no static rule set for this property has been armed yet (see DESIGN.md section 4 for the planned rules); not claimed"
		}
		na = append(na, map[string]string{"property_id": id, "reason": r})
	}
	m := map[string]any{
		"version":   1,
		"setup_cmd": "./build.sh",
		"hooks": map[string]any{
			"guard":            "verif",
			"enable":           "none needed: static analysis reads /repo's working tree; no instrumentation is compiled into the repository",
			"baseline_off_cmd": "cd /repo && go test -mod=mod -vet=off -count=1 -timeout 25m ./...",
			"source_commits":   sourceCommits,
			"add_only":         true,
		},
		"engines": []map[string]any{{
			"name":              "mtxcheck",
			"path":              "checker/",
			"serves_properties": ids,
			"kind_free_text":    "repository-specific static analyser over go/packages + go/types + go/ssa (x/tools v0.50.0): path-condition (must-pass-through) rules on SSA CFGs, who-may call/write rules, type-graph and field-coverage walks, typestate pairing, origin classification, sibling agreement; in-memory mutant self-tests through the loader overlay",
		}},
		"checks":         checks,
		"not_applicable": na,
		"notes":          "All checks are static: they load and type-check /repo's current working tree on every run (go/packages, no build cache dependency, nothing executed). Exit 0 = all obligations discharged (known findings printed as KNOWN-FINDING lines), exit 1 + VIOLATION line otherwise (including 'undecided': unresolved anchor, load failure, instance floor).",
	}
	b, err := json.MarshalIndent(m, "", " ")
	if err != nil {
		return err
	}
	return os.WriteFile(filepath.Join(verifDir, "MANIFEST.json"), append(b, '\n'), 0o644)
}

// sourceCommits lists the commits made to /repo by this work ("fix:" commits;
// there are no hook commits: static analysis needs none).
var sourceCommits = []string{}
