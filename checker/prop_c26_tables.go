package main

import (
	"go/ast"
	"go/constant"
	"go/types"
	"regexp/syntax"
	"sort"
	"strconv"
)

// c26LengthTables - sibling-table agreement (E7) for any further table keyed by
// the placeholders: a composite literal map[string]<integer> in package
// recordstore with at least three placeholder keys is a "length of the encoded
// placeholder" table (used e.g. for a fast reject before the regexp). Each
// entry must equal the exact width of the placeholder's Decode pattern, and
// placeholders whose encoding has no fixed width (%path, %z: "Z" or "+hhmm")
// must not be in such a table - otherwise names the recorder produces are
// rejected (seeded change C26: "%z": 5 rejected every UTC name).
func c26LengthTables(c *Ctx, p *Prog, decRe map[string]string) {
	pk := p.Pkg("internal/recordstore")
	if pk == nil {
		return
	}
	width := func(re string) (min, max int, ok bool) {
		rx, err := syntax.Parse(re, syntax.Perl)
		if err != nil {
			return 0, 0, false
		}
		var rng func(r *syntax.Regexp) (int, int)
		rng = func(r *syntax.Regexp) (int, int) {
			switch r.Op {
			case syntax.OpLiteral:
				return len(r.Rune), len(r.Rune)
			case syntax.OpCharClass, syntax.OpAnyChar, syntax.OpAnyCharNotNL:
				return 1, 1
			case syntax.OpCapture:
				return rng(r.Sub[0])
			case syntax.OpConcat:
				a, b := 0, 0
				for _, s := range r.Sub {
					x, y := rng(s)
					a += x
					if b >= 0 && y >= 0 {
						b += y
					} else {
						b = -1
					}
				}
				return a, b
			case syntax.OpAlternate:
				a, b := 1<<30, 0
				for _, s := range r.Sub {
					x, y := rng(s)
					if x < a {
						a = x
					}
					if y < 0 || b < 0 {
						b = -1
					} else if y > b {
						b = y
					}
				}
				return a, b
			case syntax.OpRepeat:
				x, y := rng(r.Sub[0])
				mx := -1
				if r.Max >= 0 && y >= 0 {
					mx = y * r.Max
				}
				return x * r.Min, mx
			case syntax.OpStar:
				return 0, -1
			case syntax.OpPlus:
				x, _ := rng(r.Sub[0])
				return x, -1
			case syntax.OpQuest:
				_, y := rng(r.Sub[0])
				return 0, y
			case syntax.OpEmptyMatch, syntax.OpBeginLine, syntax.OpEndLine, syntax.OpBeginText, syntax.OpEndText:
				return 0, 0
			}
			return 0, -1
		}
		a, b := rng(rx)
		return a, b, true
	}
	nTables := 0
	for _, f := range pk.Syntax {
		ast.Inspect(f, func(n ast.Node) bool {
			cl, ok := n.(*ast.CompositeLit)
			if !ok {
				return true
			}
			tv, ok := pk.TypesInfo.Types[cl]
			if !ok {
				return true
			}
			mt, ok := tv.Type.Underlying().(*types.Map)
			if !ok {
				return true
			}
			if b, ok := mt.Key().Underlying().(*types.Basic); !ok || b.Kind() != types.String {
				return true
			}
			if b, ok := mt.Elem().Underlying().(*types.Basic); !ok || b.Info()&types.IsInteger == 0 {
				return true
			}
			type ent struct {
				key string
				val int64
				pos ast.Node
			}
			var ents []ent
			hits := 0
			for _, e := range cl.Elts {
				kvx, ok := e.(*ast.KeyValueExpr)
				if !ok {
					continue
				}
				ktv, vtv := pk.TypesInfo.Types[kvx.Key], pk.TypesInfo.Types[kvx.Value]
				if ktv.Value == nil || vtv.Value == nil || ktv.Value.Kind() != constant.String {
					continue
				}
				k := constant.StringVal(ktv.Value)
				v, _ := constant.Int64Val(vtv.Value)
				if _, isPh := decRe[k]; isPh {
					hits++
				}
				ents = append(ents, ent{k, v, kvx})
			}
			if hits < 3 {
				return true
			}
			nTables++
			sort.Slice(ents, func(i, j int) bool { return ents[i].key < ents[j].key })
			for _, e := range ents {
				re, isPh := decRe[e.key]
				key := "recordstore: placeholder length table entry " + e.key + " = " + strconv.FormatInt(e.val, 10)
				if !isPh {
					c.Check("C26.length_tables", key+": key is a placeholder Decode knows", false, p.Pos(e.pos.Pos()), "")
					continue
				}
				mn, mx, ok := width(re)
				fixed := ok && mn == mx
				c.Check("C26.length_tables", key+": equals the fixed width of the Decode pattern "+re, fixed && int64(mn) == e.val, p.Pos(e.pos.Pos()),
					"Decode pattern width range ["+strconv.Itoa(mn)+", "+strconv.Itoa(mx)+"]; a placeholder without a fixed width must not be in a length table, and a wrong width rejects names the recorder produces")
			}
			return true
		})
	}
	c.Count("placeholder_length_tables", nTables)
}
