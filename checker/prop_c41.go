package main

import (
	"go/token"
	"go/types"
	"strings"

	"golang.org/x/tools/go/ssa"
)

// C41 - TLS fingerprint pinning accepts exactly the pinned certificate.

const mkCfg = "protocols/tls.MakeConfig"

func init() {
	register(Property{ID: "C41", Level: "proof", Run: runC41,
		Technique: "static analysis: must-pass-through path conditions on the VerifyConnection closure of tls.MakeConfig (go/ssa), whole-program enumeration of MakeConfig call sites, of stores to tls.Config.InsecureSkipVerify/VerifyConnection and of Clone-or-fresh merges of TLS configurations",
		Text:      "Proof obligations (sites x clauses) over the whole module: (1) the closure installed as VerifyConnection returns nil only under equality of hex(SHA-256(PeerCertificates[0].Raw)) with strings.ToLower(fingerprint) and returns an error only under inequality; the hash input is the leaf certificate's Raw, written once before Sum(nil); (2) MakeConfig returns a configuration exactly when the fingerprint is non-empty, with InsecureSkipVerify=true (chain validity irrelevant) and that closure; (3) every call of MakeConfig in the module (10 outgoing-TLS sites: auth HTTP, JWKS, 5 sources, 3 forwarders) passes the fingerprint field of its own configuration object (frozen table) and on every path to a return the result is stored into a TLS-configuration field or passed to the dialing callee; (4) InsecureSkipVerify / VerifyConnection are stored nowhere else in the module except on fresh configurations that also install a verifier, and never on an existing (possibly pinned) configuration; (5) wherever a configuration is merged with a fresh one (Clone-or-new), the fresh one is chosen only when the incoming configuration is nil; (6) 'the fingerprint configured' also after a hot reload: every component of Core.createResources that copies a conf field F into a field named *Fingerprint (auth.Manager.HTTPFingerprint, JWTJWKSFingerprint - the values clause 3 sees handed to MakeConfig) is dropped in Core.closeResources (Close call or nil store on its Core field) only under conditions that, expanded through ||/&& chains, close flags and extracted predicate functions, contain a comparison of F between the new and the current configuration - otherwise a reload that rotates or revokes a pin keeps the old one in force (C41.reload.*, prop_r4_c41.go).",
		Note:      "trusted: crypto/tls calls VerifyConnection on every handshake and fails the handshake on error; tls.Config.Clone keeps VerifyConnection and InsecureSkipVerify; third-party clients (net/http, gortsplib, gortmplib, gohlslib, quic-go, webtransport-go, pion) use the configuration they are given; crypto/sha256 and encoding/hex (lower-case output)"})
	addMutants(
		Mutant{"C41", "comparison-dropped", "internal/protocols/tls/make_config.go",
			"if hstr != fingerprintLower {", "if hstr == \"\" {", "C41.verify"},
		Mutant{"C41", "hash-of-last-chain-certificate", "internal/protocols/tls/make_config.go",
			"h.Write(cs.PeerCertificates[0].Raw)", "h.Write(cs.PeerCertificates[len(cs.PeerCertificates)-1].Raw)", "C41.verify.hash_input"},
		Mutant{"C41", "hash-of-public-key-only", "internal/protocols/tls/make_config.go",
			"h.Write(cs.PeerCertificates[0].Raw)", "h.Write(cs.PeerCertificates[0].RawSubjectPublicKeyInfo)", "C41.verify.hash_input"},
		Mutant{"C41", "case-sensitive-comparison", "internal/protocols/tls/make_config.go",
			"fingerprintLower := strings.ToLower(fingerprint)", "fingerprintLower := strings.TrimSpace(fingerprint)", "C41.verify.case"},
		Mutant{"C41", "chain-validation-kept", "internal/protocols/tls/make_config.go",
			"		conf.InsecureSkipVerify = true\n", "", "C41.config"},
		Mutant{"C41", "accept-on-mismatch-when-empty-hash", "internal/protocols/tls/make_config.go",
			"if hstr != fingerprintLower {", "if hstr != fingerprintLower && len(cs.PeerCertificates) > 1 {", "C41.verify.accept"},
		Mutant{"C41", "skip-verify-without-verifier", "internal/packetdumper/dial_tls_context.go",
			"		tlsConfig = &tls.Config{}\n", "		tlsConfig = &tls.Config{InsecureSkipVerify: true}\n", "C41.skip_verify"},
		Mutant{"C41", "pinned-config-replaced-by-fresh", "internal/staticsources/moq/source.go",
			"	if tlsConfig != nil {\n		cfg = tlsConfig.Clone()\n	}\n	cfg.NextProtos", "	if tlsConfig != nil && tlsConfig.ServerName != \"\" {\n		cfg = tlsConfig.Clone()\n	}\n	cfg.NextProtos", "C41.forward"},
		Mutant{"C41", "wrong-fingerprint-field", "internal/auth/manager.go",
			"tls.MakeConfig(m.HTTPFingerprint)", "tls.MakeConfig(m.JWTJWKSFingerprint)", "C41.callers.arg"},
		Mutant{"C41", "config-not-installed", "internal/staticsources/rtsp/source.go",
			"		c.TLSConfig = tlsConfig\n", "", "C41.callers.used"},
		Mutant{"C41", "verifier-cleared-after-clone", "internal/packetdumper/dial_tls_context.go",
			"	pdConn := netConn.(*conn)", "	tlsConfig.VerifyConnection = nil\n	pdConn := netConn.(*conn)", "C41.skip_verify"},
		// round 4: the pin in force after a reload is not the configured one
		Mutant{"C41", "jwks-fingerprint-not-compared-on-reload", "internal/core/core.go",
			"		newConf.AuthJWTJWKSFingerprint != currentConf.AuthJWTJWKSFingerprint ||\n", "", "C41.reload.compared"},
		Mutant{"C41", "http-fingerprint-compared-with-itself-on-reload", "internal/core/core.go",
			"newConf.AuthHTTPFingerprint != currentConf.AuthHTTPFingerprint ||", "newConf.AuthHTTPFingerprint != newConf.AuthHTTPFingerprint ||", "C41.reload.compared"},
		Mutant{"C41", "auth-manager-reset-under-another-flag", "internal/core/core.go",
			"	if closeAuthManager && p.authManager != nil {\n		p.authManager = nil\n	}", "	if closeLogger && p.authManager != nil {\n		p.authManager = nil\n	}", "C41.reload.compared"},
	)
}

// frozen table: caller -> fingerprint argument it must pass.
var c41Callers = map[string]string{
	"(*internal/auth.Manager).authenticateHTTP":   "$0.HTTPFingerprint",
	"(*internal/auth.Manager).pullJWTJWKS":        "$0.JWTJWKSFingerprint",
	"(*internal/staticsources/rtmp.Source).Run":   "$1.Conf.SourceFingerprint",
	"(*internal/staticsources/rtsp.Source).Run":   "$1.Conf.SourceFingerprint",
	"(*internal/staticsources/moq.Source).Run":    "$1.Conf.SourceFingerprint",
	"(*internal/staticsources/webrtc.Source).Run": "$1.Conf.SourceFingerprint",
	"(*internal/staticsources/hls.Source).Run":    "$1.Conf.SourceFingerprint",
	"(*internal/forward/rtmp.Dest).Run":           "$0.DestFingerprint",
	"(*internal/forward/rtsp.Dest).Run":           "$0.DestFingerprint",
	"(*internal/forward/webrtc.Dest).Run":         "$0.DestFingerprint",
}

func isTLSConfigPtr(t types.Type) bool {
	pt, ok := t.(*types.Pointer)
	return ok && typeStr(pt.Elem()) == "crypto/tls.Config"
}

func runC41(c *Ctx) {
	p := c.Main()
	if p == nil {
		return
	}
	c.Explain = "E1 on tls.MakeConfig and its VerifyConnection closure (accept/reject literals built from the resolved hash and captured fingerprint values; hash input and order of Write/Sum); E2 enumeration of every MakeConfig call (argument table, use on all paths to a return), of every store to crypto/tls.Config.{InsecureSkipVerify,VerifyConnection} in the module, and of every phi merging Clone(cfg) with a fresh configuration (fresh edge only under cfg == nil). C41.reload (prop_r4_c41.go, machinery of C05.config.reload): components of Core.createResources with a *Fingerprint field loaded from conf field F; their drop sites in Core.closeResources; the leaves of the dominating conditions (boolean phis, local flags, negations, module predicate calls with the guards of their returns) must contain a comparison of F of two configurations. Not decided there: fingerprints of path-level objects (sources, forwarders), which receive their configuration through the path reload mechanism (C13/C16)."
	defer dumpObls(c)
	c.Assume = []string{
		"crypto/tls invokes Config.VerifyConnection on every handshake, also with InsecureSkipVerify, and aborts on a non-nil error",
		"tls.Config.Clone preserves InsecureSkipVerify and VerifyConnection",
		"client libraries dial with the configuration installed in their TLSConfig/TLSClientConfig field",
	}
	c.c41Make(p)
	c.c41Callers(p)
	c.c41Stores(p)
	c.c41Forward(p)
	// the fingerprint handed to MakeConfig by a long-lived component is the configured one after a reload (prop_r4_c41.go)
	c.c41ReloadR4(p)
}

func (c *Ctx) c41Make(p *Prog) {
	fn := c.fn(p, "internal/protocols/tls", "", "MakeConfig")
	if fn == nil {
		return
	}
	name := "tls.MakeConfig"
	// the configuration object and its two stores
	var cfg *ssa.Alloc
	var mc *ssa.MakeClosure
	var vcStore *ssa.Store
	for _, st := range allStores(fn) {
		fa, ok := st.Addr.(*ssa.FieldAddr)
		if !ok || !fieldAddrIs(fa, "crypto/tls.Config", "VerifyConnection") {
			continue
		}
		if a, ok := fa.X.(*ssa.Alloc); ok {
			if m, ok := deref(st.Val).(*ssa.MakeClosure); ok {
				cfg, mc, vcStore = a, m, st
			}
		}
	}
	if cfg == nil {
		c.Check("C41.config.verifier", name+": installs a closure as VerifyConnection on a fresh tls.Config", false, p.Pos(fn.Pos()), "")
		return
	}
	c.Check("C41.config.verifier", name+": installs a closure as VerifyConnection on a fresh tls.Config", true, p.Pos(vcStore.Pos()), "")
	isv := structFieldStores(cfg)["InsecureSkipVerify"]
	okISV := len(isv) == 1
	if okISV {
		b, isC := constBool(isv[0])
		okISV = isC && b
	}
	c.Check("C41.config.skip_chain", name+": InsecureSkipVerify = true on the same configuration (chain validity is irrelevant)", okISV, p.Pos(cfg.Pos()), "")
	retCfg := func(i ssa.Instruction) bool {
		r, ok := i.(*ssa.Return)
		return ok && deref(retVal(r, 0)) == ssa.Value(cfg)
	}
	for _, r := range returnsOf(fn) {
		v := deref(retVal(r, 0))
		c.Check("C41.config.result", name+": returns nil or the pinned configuration", isNilConst(v) || v == ssa.Value(cfg), p.Pos(posOf(r, fn)), desc(v))
	}
	c.MustPass(p, fn, "C41.config.result", "return pinned configuration", retCfg, F(`($0 == "")`))
	c.MustPass(p, fn, "C41.config.result", "return nil configuration", retNil(0), T(`($0 == "")`))
	c.MustPrecede(p, fn, "C41.config.result", "return pinned configuration", "store of VerifyConnection", retCfg, func(i ssa.Instruction) bool { return i == ssa.Instruction(vcStore) })

	// ---- the closure
	cl := mc.Fn.(*ssa.Function)
	c.Analysed(fnName(cl))
	cname := fnName(cl)
	bind := map[*ssa.FreeVar]ssa.Value{}
	for i, fv := range cl.FreeVars {
		if i < len(mc.Bindings) {
			bind[fv] = mc.Bindings[i]
		}
	}
	freeOf := func(v ssa.Value) *ssa.FreeVar {
		if u, ok := v.(*ssa.UnOp); ok && u.Op == token.MUL {
			v = u.X
		}
		fv, _ := v.(*ssa.FreeVar)
		return fv
	}
	isHex := func(v ssa.Value) *ssa.Call {
		if cc := asCall(v); cc != nil && isCallTo(cc, "encoding/hex.EncodeToString") {
			return cc
		}
		return nil
	}
	// find the comparison
	var accept *Lit
	var hexCall *ssa.Call
	var fpVar *ssa.FreeVar
	eachInstr(cl, func(i ssa.Instruction) {
		ifi, ok := i.(*ssa.If)
		if !ok {
			return
		}
		cond := ifi.Cond
		for {
			if u, ok := cond.(*ssa.UnOp); ok && u.Op == token.NOT {
				cond = u.X
				continue
			}
			break
		}
		var a, b ssa.Value
		switch x := cond.(type) {
		case *ssa.BinOp:
			if x.Op != token.EQL && x.Op != token.NEQ {
				return
			}
			a, b = x.X, x.Y
		case *ssa.Call:
			if !isCallTo(x, "strings.EqualFold") {
				return
			}
			a, b = x.Call.Args[0], x.Call.Args[1]
		default:
			return
		}
		for _, pr := range [][2]ssa.Value{{a, b}, {b, a}} {
			if h, fv := isHex(pr[0]), freeOf(pr[1]); h != nil && fv != nil {
				l := litOf(ifi.Cond, true)
				l.Pos = true
				accept, hexCall, fpVar = &l, h, fv
			}
		}
	})
	if !c.Check("C41.verify.compare", cname+": compares hex(hash) with the captured fingerprint", accept != nil, p.Pos(cl.Pos()), "no comparison of encoding/hex.EncodeToString(...) with a captured variable found") {
		return
	}
	c.mustPassPred(p, cl, "C41.verify.accept", cname+": return nil ⇒ hash equals fingerprint", retNil(0), func(l Lit) bool { return l.Pos && l.Atom == accept.Atom })
	c.mustPassPred(p, cl, "C41.verify.reject", cname+": return error ⇒ hash differs from fingerprint", errorRet(0), func(l Lit) bool { return !l.Pos && l.Atom == accept.Atom })
	// case-insensitive: captured value is strings.ToLower(fingerprint) compared with lower-case hex, or EqualFold on the fingerprint
	bd := ""
	if b := bind[fpVar]; b != nil {
		bd = desc(b)
	}
	caseOK := bd == "strings.ToLower($0)" || (strings.HasPrefix(accept.Atom, "strings.EqualFold(") && (bd == "$0" || bd == "strings.ToLower($0)"))
	c.Check("C41.verify.case", cname+": fingerprint is compared case-insensitively (lower-cased against lower-case hex)", caseOK, p.Pos(cl.Pos()), "captured "+fpVar.Name()+" = "+bd)
	// hash input
	in := hexCall.Call.Args[0]
	hashOK, why := false, ""
	if sum := asCall(in); sum != nil && isCallTo(sum, "(hash.Hash).Sum") {
		h := sum.Call.Value
		newOK := isCallValueTo(h, "crypto/sha256.New")
		var writes []*ssa.Call
		eachInstr(cl, func(i ssa.Instruction) {
			if cc, ok := i.(*ssa.Call); ok && cc.Call.IsInvoke() && cc.Call.Value == h && cc.Call.Method.Name() != "Sum" {
				writes = append(writes, cc)
			}
		})
		argNil := len(sum.Call.Args) == 1 && isNilConst(sum.Call.Args[0])
		wOK := len(writes) == 1 && writes[0].Call.Method.Name() == "Write" && desc(writes[0].Call.Args[0]) == "$0.PeerCertificates[0].Raw"
		before := wOK && reachAvoiding(entry(cl), func(i ssa.Instruction) bool { return i == ssa.Instruction(sum) }, func(i ssa.Instruction) bool { return i == ssa.Instruction(writes[0]) }) == nil
		hashOK = newOK && argNil && wOK && before
		if len(writes) == 1 {
			why = "hash input " + desc(writes[0].Call.Args[0])
		}
	} else if sl, ok := in.(*ssa.Slice); ok {
		// hex.EncodeToString(sum[:]) with sum := sha256.Sum256(raw)
		if a, ok := sl.X.(*ssa.Alloc); ok {
			if sv := singleStore(a); sv != nil {
				if s256 := asCall(sv); s256 != nil && isCallTo(s256, "crypto/sha256.Sum256") {
					why = "hash input " + desc(s256.Call.Args[0])
					hashOK = desc(s256.Call.Args[0]) == "$0.PeerCertificates[0].Raw"
				}
			}
		}
	}
	c.Check("C41.verify.hash_input", cname+": the hash is SHA-256 over exactly PeerCertificates[0].Raw", hashOK, p.Pos(hexCall.Pos()), why)
}

// aliases of a value through local variables (stored to an Alloc, loaded again).
func aliasesOf(v ssa.Value) map[ssa.Value]bool {
	out := map[ssa.Value]bool{v: true}
	work := []ssa.Value{v}
	for len(work) > 0 {
		x := work[0]
		work = work[1:]
		if x.Referrers() == nil {
			continue
		}
		for _, r := range *x.Referrers() {
			switch y := r.(type) {
			case *ssa.Store:
				if a, ok := y.Addr.(*ssa.Alloc); ok && y.Val == x {
					for _, rr := range *a.Referrers() {
						if ld, ok := rr.(*ssa.UnOp); ok && ld.Op == token.MUL && !out[ld] {
							out[ld] = true
							work = append(work, ld)
						}
					}
				}
			case *ssa.Phi:
				if !out[y] {
					out[y] = true
					work = append(work, y)
				}
			}
		}
	}
	return out
}

func (c *Ctx) c41Callers(p *Prog) {
	n := 0
	seen := map[string]bool{}
	for _, fn := range p.ModFuncs() {
		for _, ci := range callsIn(fn, mkCfg) {
			call, ok := ci.(*ssa.Call)
			if !ok {
				c.Check("C41.callers.used", fnName(fn)+": MakeConfig is called for its result", false, p.Pos(ci.Pos()), "go/defer")
				continue
			}
			n++
			c.Analysed(fnName(fn))
			name := fnName(fn)
			seen[name] = true
			arg := call.Call.Args[0]
			d := desc(arg)
			if want, ok := c41Callers[name]; ok {
				c.Check("C41.callers.arg", name+": MakeConfig("+want+")", d == want, p.Pos(call.Pos()), "got "+d)
			} else {
				// a new outgoing-TLS site: the argument must at least be a configured fingerprint field
				_, path := accessPath(arg)
				c.Check("C41.callers.arg", name+": MakeConfig of a *Fingerprint configuration field (site not in the table)", strings.HasSuffix(path, "Fingerprint") && !strings.Contains(path, "[]"), p.Pos(call.Pos()), "got "+d)
			}
			al := aliasesOf(call)
			use := func(i ssa.Instruction) bool {
				switch x := i.(type) {
				case *ssa.Store:
					if al[x.Val] {
						if fa, ok := x.Addr.(*ssa.FieldAddr); ok {
							st := fa.X.Type().Underlying().(*types.Pointer).Elem().Underlying().(*types.Struct)
							return isTLSConfigPtr(st.Field(fa.Field).Type())
						}
					}
				case *ssa.Call, *ssa.Go, *ssa.Defer:
					for _, a := range callCommon(i).Args {
						if al[a] {
							return true
						}
					}
				}
				return false
			}
			c.MustFollow(p, fn, "C41.callers.used", "MakeConfig result is installed (TLS config field / dial callee) on every path to a return", after(call), anyReturn, use, nil)
			// callee parameters receiving the configuration must forward it
			eachInstr(fn, func(i ssa.Instruction) {
				cc := callCommon(i)
				if cc == nil || cc.IsInvoke() {
					return
				}
				callee, ok := cc.Value.(*ssa.Function)
				if !ok || !inModule(callee) || callee.Blocks == nil {
					return
				}
				for k, a := range cc.Args {
					if al[a] && k < len(callee.Params) {
						c.c41ParamForward(p, callee, callee.Params[k])
					}
				}
			})
		}
	}
	c.Floor("C41.callers", n, 10)
	for name := range c41Callers {
		c.Check("C41.callers.table", "tabled outgoing-TLS site "+name+" calls MakeConfig", seen[name], "-", "")
	}
}

// c41ParamForward: a module function that receives the (possibly pinned)
// configuration uses it, or a Clone of it, for the connection.
func (c *Ctx) c41ParamForward(p *Prog, fn *ssa.Function, prm *ssa.Parameter) {
	c.Analysed(fnName(fn))
	used := false
	for _, r := range *prm.Referrers() {
		switch x := r.(type) {
		case *ssa.Call:
			if isCallTo(x, "(*crypto/tls.Config).Clone") || len(x.Call.Args) > 0 {
				used = true
			}
		case *ssa.Store:
			if x.Val == ssa.Value(prm) {
				used = true
			}
		}
	}
	c.Check("C41.forward.param", fnName(fn)+": the received TLS configuration (parameter "+prm.Name()+") is cloned or passed on", used, p.Pos(fn.Pos()), "")
}

// c41Stores: who writes InsecureSkipVerify / VerifyConnection.
func (c *Ctx) c41Stores(p *Prog) {
	n := 0
	for _, fn := range p.ModFuncs() {
		for _, st := range allStores(fn) {
			fa, ok := st.Addr.(*ssa.FieldAddr)
			if !ok {
				continue
			}
			isISV := fieldAddrIs(fa, "crypto/tls.Config", "InsecureSkipVerify")
			isVC := fieldAddrIs(fa, "crypto/tls.Config", "VerifyConnection")
			if !isISV && !isVC {
				continue
			}
			n++
			c.Analysed(fnName(fn))
			base, fresh := fa.X.(*ssa.Alloc)
			what := "InsecureSkipVerify"
			if isVC {
				what = "VerifyConnection"
			}
			key := fnName(fn) + ": store to tls.Config." + what
			if !c.Check("C41.skip_verify.fresh", key+" is on a configuration created in the same function", fresh, p.Pos(st.Pos()), "an existing (possibly pinned) configuration is modified: "+desc(fa.X)) {
				continue
			}
			if isISV {
				if b, isC := constBool(st.Val); isC && !b {
					continue
				}
				vc := structFieldStores(base)["VerifyConnection"]
				ok := len(vc) >= 1
				for _, v := range vc {
					if isNilConst(v) {
						ok = false
					}
				}
				c.Check("C41.skip_verify.paired", key+" comes with a non-nil VerifyConnection on the same configuration", ok, p.Pos(st.Pos()), "certificate verification disabled without a replacement check")
			}
		}
	}
	c.Floor("C41.skip_verify", n, 2)
}

// c41Forward: Clone-or-fresh merges.
func (c *Ctx) c41Forward(p *Prog) {
	n := 0
	for _, fn := range p.ModFuncs() {
		eachInstr(fn, func(i ssa.Instruction) {
			ph, ok := i.(*ssa.Phi)
			if !ok || !isTLSConfigPtr(ph.Type()) {
				return
			}
			var src ssa.Value
			for _, e := range ph.Edges {
				if cc, ok := e.(*ssa.Call); ok && isCallTo(cc, "(*crypto/tls.Config).Clone") {
					src = cc.Call.Args[0]
				}
			}
			if src == nil {
				return
			}
			n++
			c.Analysed(fnName(fn))
			for k, e := range ph.Edges {
				if _, fresh := e.(*ssa.Alloc); !fresh {
					if cc, ok := e.(*ssa.Call); ok && isCallTo(cc, "(*crypto/tls.Config).Clone") && desc(cc.Call.Args[0]) == desc(src) {
						continue
					}
					if desc(e) == desc(src) {
						continue
					}
					c.Check("C41.forward.merge", fnName(fn)+": alternatives of Clone("+desc(src)+") are that configuration or a fresh one", false, p.Pos(posOf(ph, fn)), desc(e))
					continue
				}
				l, okL := phiEdgeLit(ph, k)
				c.Check("C41.forward.merge", fnName(fn)+": a fresh TLS configuration replaces "+desc(src)+" only when it is nil",
					okL && l.Pos && atomMatch("("+desc(src)+" == nil)", l.Atom), p.Pos(posOf(ph, fn)), "edge literal "+l.String())
			}
			// the merged configuration is what is dialled with
			used := false
			for _, r := range *ph.Referrers() {
				switch x := r.(type) {
				case *ssa.Call:
					for _, a := range x.Call.Args {
						if a == ssa.Value(ph) {
							used = true
						}
					}
				case *ssa.Store:
					if x.Val == ssa.Value(ph) {
						used = true
					}
				}
			}
			c.Check("C41.forward.used", fnName(fn)+": the merged configuration is passed to the dialer", used, p.Pos(posOf(ph, fn)), "")
		})
	}
	c.Floor("C41.forward.merge", n, 3)
}
