package main

import (
	"go/ast"
	"go/token"
	"strings"

	"golang.org/x/tools/go/packages"
	"golang.org/x/tools/go/ssa"
)

// C04 - administrative HTTP endpoints enforce their permission.

func init() {
	register(Property{ID: "C04", Level: "proof", Run: runC04,
		Technique: "static analysis: dominance of route registrations by Use(middlewareAuth) on the single gin engine (AST + go/types), must-pass-through path conditions on the auth middlewares and the playback handlers (go/ssa), who-may-construct rule for gin engines",
		Text:      "For api.API, metrics.Metrics and pprof.PPROF: the only gin engine of Initialize is the one handed to httpp.Server.Handler, Use(middlewareAuth) is an unconditional statement that precedes every route registration on the engine or on groups derived from it, no other engine exists in the package; each middlewareAuth builds an auth.Request with the constant action api/metrics/pprof, the client's credentials and IP, and on every path where Authenticate fails it reaches writeErrorNoLog(ctx, 401, ...) (which aborts the chain with AbortWithStatusJSON) before returning. Playback registers exactly onList/onGet, and in both every data-producing call (safeFindPathConf, FindSegments, parseAndConcatenate, seekAndMux, ctx.JSON) is dominated by IsValidPathName(path)==nil and doAuth(ctx, path) true for the same path expression; doAuth uses action playback on that path and returns true only when Authenticate returned nil, false only after a 401 abort. Preflight middlewares answer 204 and write no body. The IP of every auth request is ctx.ClientIP(); it is the connection's (or a configured proxy's) because every gin engine constructed by the module outside the media servers (enumerated, prop_r4_c04.go; the media servers' engines are obligations of C03) whose handlers can reach ctx.ClientIP() receives SetTrustedProxies(recv.<field of type conf.IPNetworks>.ToTrustedProxies()) on every path before it is handed to / started by the HTTP server (gin.New() alone trusts X-Forwarded-For of every peer, also - in particular - when no proxy is configured), and no function of the module writes gin.Engine.TrustedPlatform / RemoteIPHeaders / ForwardedByClientIP. Round 4 (C04.no_bypass): in each middlewareAuth and in doAuth every path from the ENTRY to a return passes the 401 abort or the nil-error edge of the function's own Authenticate call - a remembered earlier decision (cache keyed on address / user / token), a header or an address that skips the call is a path that carries neither. Obligations = route registrations x clauses.",
		Note:      "trusted: gin middleware ordering and Abort semantics (handlers after an aborted middleware do not run); the auth manager (C01/C02)"})
	addMutants(
		Mutant{"C04", "route-before-auth-middleware", "internal/api/api.go",
			"	router.Use(a.middlewareAuth)\n\n	group := router.Group(\"/v3\")\n\n	group.GET(\"/info\", a.onInfo)\n",
			"	group := router.Group(\"/v3\")\n\n	group.GET(\"/info\", a.onInfo)\n	router.Use(a.middlewareAuth)\n", "C04.route_after_auth"},
		Mutant{"C04", "error-without-abort", "internal/api/api.go",
			"func (a *API) writeErrorNoLog(ctx *gin.Context, status int, err error) {\n	ctx.AbortWithStatusJSON(status,", "func (a *API) writeErrorNoLog(ctx *gin.Context, status int, err error) {\n	ctx.JSON(status,", "C04.abort"},
		Mutant{"C04", "metrics-checks-api-action", "internal/metrics/metrics.go",
			"Action:               conf.AuthActionMetrics,", "Action:               conf.AuthActionAPI,", "C04.action"},
		Mutant{"C04", "playback-list-before-auth", "internal/playback/on_list.go",
			"	if !s.doAuth(ctx, pathName) {\n		return\n	}\n\n	pathConf, err := s.safeFindPathConf(pathName)\n	if err != nil {\n		s.writeError(ctx, http.StatusBadRequest, err)\n		return\n	}\n",
			"	pathConf, err := s.safeFindPathConf(pathName)\n	if err != nil {\n		s.writeError(ctx, http.StatusBadRequest, err)\n		return\n	}\n\n	if !s.doAuth(ctx, pathName) {\n		return\n	}\n", "C04.playback.guarded"},
		Mutant{"C04", "pprof-auth-skipped-when-ask", "internal/pprof/pprof.go",
			"		if err.AskCredentials {\n			ctx.Header(\"WWW-Authenticate\", `Basic realm=\"mediamtx\"`)\n			pp.writeErrorNoLog(ctx, http.StatusUnauthorized, fmt.Errorf(\"authentication error\"))\n			return\n		}",
			"		if err.AskCredentials {\n			ctx.Header(\"WWW-Authenticate\", `Basic realm=\"mediamtx\"`)\n			return\n		}", "C04.fail_aborts"},
		Mutant{"C04", "playback-auth-other-path", "internal/playback/on_get.go",
			"	if !s.doAuth(ctx, pathName) {", "	if !s.doAuth(ctx, ctx.Query(\"authpath\")) {", "C04.playback.guarded"},
		Mutant{"C04", "doauth-returns-true-on-error", "internal/playback/server.go",
			"		s.writeErrorNoLog(ctx, http.StatusUnauthorized, fmt.Errorf(\"authentication error\"))\n		return false\n	}\n\n	return true",
			"		s.writeErrorNoLog(ctx, http.StatusUnauthorized, fmt.Errorf(\"authentication error\"))\n		return true\n	}\n\n	return true", "C04.playback.doauth"},
		Mutant{"C04", "conditional-auth-middleware", "internal/metrics/metrics.go",
			"	router.Use(m.middlewareAuth)\n", "	if m.Encryption {\n		router.Use(m.middlewareAuth)\n	}\n", "C04.use_auth"},
		Mutant{"C04", "second-engine-served", "internal/pprof/pprof.go",
			"	pprof.Register(router)\n", "	router = gin.New()\n	pprof.Register(router)\n", "C04"},
		Mutant{"C04", "api-trusted-proxies-only-when-configured", "internal/api/api.go",
			"	router.SetTrustedProxies(a.TrustedProxies.ToTrustedProxies()) //nolint:errcheck\n",
			"	if len(a.TrustedProxies) != 0 {\n		router.SetTrustedProxies(a.TrustedProxies.ToTrustedProxies()) //nolint:errcheck\n	}\n", "C04.client_ip.trusted_proxies"},
		Mutant{"C04", "metrics-trusted-proxies-dropped", "internal/metrics/metrics.go",
			"	router.SetTrustedProxies(m.TrustedProxies.ToTrustedProxies()) //nolint:errcheck\n", "", "C04.client_ip.trusted_proxies"},
		Mutant{"C04", "pprof-trusts-every-proxy", "internal/pprof/pprof.go",
			"router.SetTrustedProxies(pp.TrustedProxies.ToTrustedProxies())", "router.SetTrustedProxies([]string{\"0.0.0.0/0\", \"::/0\"})", "C04.client_ip.trusted_proxies"},
		Mutant{"C04", "playback-client-ip-from-platform-header", "internal/playback/server.go",
			"	router.Use(s.middlewarePreflightRequests)\n", "	router.TrustedPlatform = gin.PlatformCloudflare\n	router.Use(s.middlewarePreflightRequests)\n", "C04.client_ip.engine_fields"},
		// round 4: a path through the middleware that neither aborts nor asked the manager
		Mutant{"C04", "pprof-loopback-skips-authentication", "internal/pprof/pprof.go",
			"	_, err := pp.AuthManager.Authenticate(req)\n", "	if req.IP != nil && req.IP.IsLoopback() {\n		return\n	}\n\n	_, err := pp.AuthManager.Authenticate(req)\n", "C04.no_bypass"},
		Mutant{"C04", "metrics-remembers-admitted-address-and-user", "internal/metrics/metrics.go",
			"func (m *Metrics) middlewareAuth(ctx *gin.Context) {\n	req := &auth.Request{\n		Action:               conf.AuthActionMetrics,\n		Query:                ctx.Request.URL.RawQuery,\n		Credentials:          httpp.Credentials(ctx.Request),\n		IP:                   net.ParseIP(ctx.ClientIP()),\n		EnableAskCredentials: true,\n	}\n\n	_, err := m.AuthManager.Authenticate(req)\n	if err != nil {\n",
			"var metricsAdmittedR4 sync.Map\n\nfunc (m *Metrics) middlewareAuth(ctx *gin.Context) {\n	req := &auth.Request{\n		Action:               conf.AuthActionMetrics,\n		Query:                ctx.Request.URL.RawQuery,\n		Credentials:          httpp.Credentials(ctx.Request),\n		IP:                   net.ParseIP(ctx.ClientIP()),\n		EnableAskCredentials: true,\n	}\n\n	key := req.IP.String() + \" \" + req.Credentials.User\n	if _, seen := metricsAdmittedR4.Load(key); seen {\n		return\n	}\n\n	_, err := m.AuthManager.Authenticate(req)\n	if err == nil {\n		metricsAdmittedR4.Store(key, true)\n	}\n	if err != nil {\n", "C04.no_bypass"},
	)
}

var ginRouteMethods = map[string]bool{"GET": true, "POST": true, "PATCH": true, "DELETE": true, "PUT": true, "HEAD": true, "OPTIONS": true, "Any": true, "Handle": true, "Match": true, "Static": true, "StaticFS": true, "StaticFile": true, "NoRoute": true, "NoMethod": true}

func runC04(c *Ctx) {
	p := c.Main()
	if p == nil {
		return
	}
	defer dumpObls(c)
	c.Explain = "AST rule on Initialize of api/metrics/pprof/playback: one `gin.New()` per function bound to a local never re-assigned; `X.Use(recv.middlewareAuth)` is a top-level statement of the function body and textually precedes (hence dominates, being unconditional) every registration call (GET/POST/PATCH/DELETE/.../Group/pprof.Register) on the engine or its groups; Handler: router. SSA rules on middlewareAuth / writeErrorNoLog / middlewarePreflightRequests / playback doAuth, onList, onGet. SSA walk from the entry of the four authenticating functions (C04.no_bypass): a return is reached only through the 401 abort or over the edge `Authenticate(req)#1 == nil` of the call made for this request. SSA barrier rule on every function of the module (outside internal/servers/) that constructs a gin engine whose handlers can reach ctx.ClientIP() (call-graph walk from the installed handlers through static calls, closures, bound methods and interface calls; an escaping context counts as reaching): the store of the engine into a Handler field and the Initialize call of that server are preceded on every path by SetTrustedProxies(engine, recv.<IPNetworks field>.ToTrustedProxies()), and every SetTrustedProxies call on the engine passes such a list (or nil); module-wide who-may-store on the gin.Engine fields that change what ClientIP() trusts. Not decided: gin internals (that ClientIP() honours forwarding headers only from the trusted proxy list)."
	c.Assume = []string{"gin runs middlewares registered with Use before the handlers of routes registered afterwards and skips the remaining handlers after Abort*", "auth.Manager decides correctly (C01/C02)"}

	type comp struct {
		pkg, recv, action string
		auth              bool
	}
	routes := 0
	for _, cm := range []comp{{"internal/api", "API", "api", true}, {"internal/metrics", "Metrics", "metrics", true}, {"internal/pprof", "PPROF", "pprof", true}, {"internal/playback", "Server", "", false}} {
		fd, pk := p.FuncDecl(cm.pkg, cm.recv, "Initialize")
		if fd == nil {
			c.Undecided("UNRESOLVED ANCHOR " + cm.pkg + "." + cm.recv + ".Initialize")
			continue
		}
		c.Analysed(cm.pkg + "." + cm.recv + ".Initialize")
		routes += c.c04Initialize(p, pk, fd, cm.pkg, cm.recv, cm.auth)
		// no other engine in the package
		n := 0
		for _, f := range pk.Syntax {
			ast.Inspect(f, func(nd ast.Node) bool {
				if call, ok := nd.(*ast.CallExpr); ok {
					fn := objFullName(calleeObj(pk, call))
					if fn == "github.com/gin-gonic/gin.New" || fn == "github.com/gin-gonic/gin.Default" {
						n++
					}
				}
				return true
			})
		}
		c.Check("C04.single_engine", cm.pkg+": exactly one gin engine is constructed in the package", n == 1, p.Pos(fd.Pos()), "")

		// preflight
		if pf := c.fn(p, cm.pkg, cm.recv, "middlewarePreflightRequests"); pf != nil {
			c.c04Preflight(p, pf)
		}
		if !cm.auth {
			continue
		}
		mw := c.fn(p, cm.pkg, cm.recv, "middlewareAuth")
		we := c.fn(p, cm.pkg, cm.recv, "writeErrorNoLog")
		if mw == nil || we == nil {
			continue
		}
		c.c04AuthRequest(p, mw, cm.action, "")
		c.c04FailAborts(p, mw, cm.pkg, cm.recv)
		c.c04NoBypassR4(p, mw, cm.pkg, cm.recv)
		c.c04Abort(p, we)
	}
	c.Floor("C04.route_after_auth", routes, 52)
	// the client IP of the auth request is not client-chosen: every gin engine of
	// the module outside the media servers (those are C03's), prop_r4_c04.go
	c.Floor("C04.client_ip.trusted_proxies", c.ginClientIPR4(p, "C04", func(pkg string) bool { return !isMediaServerPkgR4(pkg) }), 4)
	c.ginEngineFieldsR4(p, "C04")

	// ---- playback
	da := c.fn(p, "internal/playback", "Server", "doAuth")
	if da != nil {
		c.c04AuthRequest(p, da, "playback", "$2")
		c.c04FailAborts(p, da, "internal/playback", "Server")
		c.c04NoBypassR4(p, da, "internal/playback", "Server")
		for _, d := range retDescs(da, 0) {
			c.Check("C04.playback.doauth", fnName(da)+": returns a boolean constant ("+d+")", d == "true" || d == "false", p.Pos(da.Pos()), "")
		}
		// `return true` only on the Authenticate-nil edge
		auths := callsIn(da, "(playback.serverAuthManager).Authenticate")
		if len(auths) == 1 {
			atom := "(" + desc(auths[0].(ssa.Value)) + "#1 == nil)"
			c.MustPass(p, da, "C04.playback.doauth", "return true", retBool(0, true), T(atom))
		} else {
			c.Check("C04.playback.doauth", fnName(da)+": exactly one Authenticate call", false, p.Pos(da.Pos()), "")
		}
	}
	if we := c.fn(p, "internal/playback", "Server", "writeErrorNoLog"); we != nil {
		c.c04Abort(p, we)
	}
	if we := c.fn(p, "internal/playback", "Server", "writeError"); we != nil {
		c.c04Abort(p, we)
	}
	const pathQ = `(*github.com/gin-gonic/gin.Context).Query($1, "path")`
	for _, h := range []string{"onList", "onGet"} {
		fn := c.fn(p, "internal/playback", "Server", h)
		if fn == nil {
			continue
		}
		data := []string{"(*playback.Server).safeFindPathConf", "recordstore.FindSegments", "playback.parseAndConcatenate", "playback.seekAndMux",
			"(*github.com/gin-gonic/gin.Context).JSON", "(*github.com/gin-gonic/gin.Context).IndentedJSON", "(*github.com/gin-gonic/gin.Context).Data"}
		n := 0
		for _, d := range data {
			if len(callsIn(fn, d)) == 0 {
				continue
			}
			n++
			c.MustPass(p, fn, "C04.playback.guarded", "call "+d, callTo(d), T("(conf.IsValidPathName("+pathQ+") == nil)"))
			c.MustPass(p, fn, "C04.playback.guarded", "call "+d, callTo(d), T("(*playback.Server).doAuth($0, $1, "+pathQ+")"))
		}
		c.Floor("C04.playback.guarded:"+h, n, 3)
		// the data calls use the authorised path expression
		for _, cl := range callsIn(fn, "recordstore.FindSegments") {
			a := callCommon(cl).Args
			c.Check("C04.playback.same_path", fnName(fn)+": FindSegments is called for the authorised path", len(a) >= 2 && desc(a[1]) == pathQ, p.Pos(cl.Pos()), "")
		}
		for _, cl := range callsIn(fn, "(*playback.Server).safeFindPathConf") {
			a := callCommon(cl).Args
			c.Check("C04.playback.same_path", fnName(fn)+": safeFindPathConf is called for the authorised path", len(a) >= 2 && desc(a[1]) == pathQ, p.Pos(cl.Pos()), "")
		}
	}
}

// c04Initialize returns the number of route registrations checked.
func (c *Ctx) c04Initialize(p *Prog, pk *packages.Package, fd *ast.FuncDecl, pkg, recv string, needAuth bool) int {
	key := pkg + "." + recv + ".Initialize"
	// engine local
	var engine *ast.Ident
	nNew := 0
	ast.Inspect(fd, func(n ast.Node) bool {
		as, ok := n.(*ast.AssignStmt)
		if !ok || len(as.Lhs) != 1 || len(as.Rhs) != 1 {
			return true
		}
		if call, ok := as.Rhs[0].(*ast.CallExpr); ok && objFullName(calleeObj(pk, call)) == "github.com/gin-gonic/gin.New" {
			if id, ok := as.Lhs[0].(*ast.Ident); ok {
				engine = id
				nNew++
			}
		}
		return true
	})
	if engine == nil || nNew != 1 {
		c.Check("C04.single_engine", key+": exactly one `x := gin.New()`", false, p.Pos(fd.Pos()), "")
		return 0
	}
	engObj := pk.TypesInfo.Defs[engine]
	if engObj == nil {
		engObj = pk.TypesInfo.Uses[engine]
	}
	// the engine local is never re-assigned
	reassigned := false
	ast.Inspect(fd, func(n ast.Node) bool {
		if as, ok := n.(*ast.AssignStmt); ok {
			for _, l := range as.Lhs {
				if id, ok := l.(*ast.Ident); ok && id != engine && pk.TypesInfo.Uses[id] == engObj {
					reassigned = true
				}
			}
		}
		return true
	})
	c.Check("C04.single_engine", key+": the engine local is assigned once", !reassigned, p.Pos(fd.Pos()), "")

	// derived groups: g := engine.Group(...) / g2 := g.Group(...)
	derived := map[any]bool{engObj: true}
	for changed := true; changed; {
		changed = false
		ast.Inspect(fd, func(n ast.Node) bool {
			as, ok := n.(*ast.AssignStmt)
			if !ok || len(as.Lhs) != 1 || len(as.Rhs) != 1 {
				return true
			}
			call, ok := as.Rhs[0].(*ast.CallExpr)
			if !ok {
				return true
			}
			se, ok := call.Fun.(*ast.SelectorExpr)
			if !ok || se.Sel.Name != "Group" {
				return true
			}
			if x, ok := se.X.(*ast.Ident); ok && derived[pk.TypesInfo.Uses[x]] {
				if id, ok := as.Lhs[0].(*ast.Ident); ok {
					o := pk.TypesInfo.Defs[id]
					if o == nil {
						o = pk.TypesInfo.Uses[id]
					}
					if !derived[o] {
						derived[o] = true
						changed = true
					}
				}
			}
			return true
		})
	}

	// Use(recv.middlewareAuth) as a top-level statement
	var usePos token.Pos
	for _, st := range fd.Body.List {
		es, ok := st.(*ast.ExprStmt)
		if !ok {
			continue
		}
		call, ok := es.X.(*ast.CallExpr)
		if !ok {
			continue
		}
		se, ok := call.Fun.(*ast.SelectorExpr)
		if !ok || se.Sel.Name != "Use" {
			continue
		}
		if x, ok := se.X.(*ast.Ident); !ok || pk.TypesInfo.Uses[x] != engObj {
			continue
		}
		for _, a := range call.Args {
			if ms, ok := a.(*ast.SelectorExpr); ok && ms.Sel.Name == "middlewareAuth" {
				if sel, ok := pk.TypesInfo.Selections[ms]; ok && objFullName(sel.Obj()) == "("+shortPkgOf(pkg)+"."+recv+").middlewareAuth" {
					if !usePos.IsValid() {
						usePos = call.Pos()
					}
				}
			}
		}
	}
	if needAuth {
		c.Check("C04.use_auth", key+": engine.Use(middlewareAuth) is an unconditional top-level statement", usePos.IsValid(), p.Pos(fd.Pos()), "")
	}

	// registrations
	n := 0
	handlerOK := false
	ast.Inspect(fd, func(nd ast.Node) bool {
		switch x := nd.(type) {
		case *ast.CallExpr:
			fn := objFullName(calleeObj(pk, x))
			isReg := false
			what := ""
			if se, ok := x.Fun.(*ast.SelectorExpr); ok {
				if id, ok := se.X.(*ast.Ident); ok && derived[pk.TypesInfo.Uses[id]] && (ginRouteMethods[se.Sel.Name] || se.Sel.Name == "Group") {
					isReg = true
					what = id.Name + "." + se.Sel.Name
					if len(x.Args) > 0 {
						what += "(" + exprStr(x.Args[0]) + ")"
					}
				}
			}
			if fn == "github.com/gin-contrib/pprof.Register" || fn == "github.com/gin-contrib/pprof.RouteRegister" {
				isReg = true
				what = "pprof.Register"
				if len(x.Args) == 0 {
					isReg = false
				} else if id, ok := x.Args[0].(*ast.Ident); !ok || !derived[pk.TypesInfo.Uses[id]] {
					c.Check("C04.route_after_auth", key+": pprof.Register on the authenticated engine", false, p.Pos(x.Pos()), "")
					return true
				}
			}
			if !isReg {
				return true
			}
			n++
			if needAuth {
				c.Check("C04.route_after_auth", key+": "+what+" is registered after Use(middlewareAuth)", usePos.IsValid() && usePos < x.Pos(), p.Pos(x.Pos()), "a route registered before the auth middleware is served without authentication")
			} else {
				// playback: handlers authenticate themselves; only the two known handlers
				ok := false
				if len(x.Args) == 2 {
					if ms, ok2 := x.Args[1].(*ast.SelectorExpr); ok2 && (ms.Sel.Name == "onList" || ms.Sel.Name == "onGet") {
						ok = true
					}
				}
				c.Check("C04.playback.routes", key+": "+what+" is one of the self-authenticating handlers onList/onGet", ok, p.Pos(x.Pos()), "")
			}
		case *ast.KeyValueExpr:
			if k, ok := x.Key.(*ast.Ident); ok && k.Name == "Handler" {
				if id, ok := x.Value.(*ast.Ident); ok && pk.TypesInfo.Uses[id] == engObj {
					handlerOK = true
				} else {
					handlerOK = false
					c.Check("C04.handler_is_engine", key+": httpp.Server.Handler is the authenticated engine", false, p.Pos(x.Pos()), exprStr(x.Value))
				}
			}
		}
		return true
	})
	c.Check("C04.handler_is_engine", key+": httpp.Server.Handler is the engine the middleware was installed on", handlerOK, p.Pos(fd.Pos()), "")
	return n
}

const ginEngine = "github.com/gin-gonic/gin.Engine"

func shortPkgOf(pkg string) string { return strings.TrimPrefix(pkg, "internal/") }

func (c *Ctx) c04AuthRequest(p *Prog, fn *ssa.Function, action, pathWant string) {
	got := map[string]string{}
	for _, st := range allFieldStores(fn) {
		got[st.field] = desc(st.val)
	}
	c.Check("C04.action", fnName(fn)+": auth.Request.Action is the constant "+action, got["Action"] == `"`+action+`"`, p.Pos(fn.Pos()), "got "+got["Action"])
	c.Check("C04.identity", fnName(fn)+": auth.Request.Credentials are the request's", got["Credentials"] == "protocols/httpp.Credentials($1.Request)", p.Pos(fn.Pos()), "got "+got["Credentials"])
	c.Check("C04.identity", fnName(fn)+": auth.Request.IP is the client's", got["IP"] == "net.ParseIP((*github.com/gin-gonic/gin.Context).ClientIP($1))", p.Pos(fn.Pos()), "got "+got["IP"])
	if pathWant != "" {
		c.Check("C04.action", fnName(fn)+": auth.Request.Path is the requested path", got["Path"] == pathWant, p.Pos(fn.Pos()), "got "+got["Path"])
	}
	// the request passed to Authenticate is the literal
	n := 0
	eachInstr(fn, func(i ssa.Instruction) {
		if cc := callCommon(i); cc != nil && cc.IsInvoke() && cc.Method.Name() == "Authenticate" {
			n++
			c.Check("C04.identity", fnName(fn)+": Authenticate is called with the request built here", len(cc.Args) == 1 && desc(cc.Args[0]) == "new(auth.Request)", p.Pos(i.Pos()), "")
		}
	})
	if n != 1 {
		c.Check("C04.identity", fnName(fn)+": exactly one Authenticate call", false, p.Pos(fn.Pos()), "")
	}
}

// c04FailAborts: no path that leaves the Authenticate call with a non-nil
// error reaches a return without passing writeErrorNoLog(ctx, 401, ...).
func (c *Ctx) c04FailAborts(p *Prog, fn *ssa.Function, pkg, recv string) {
	var auth ssa.Instruction
	eachInstr(fn, func(i ssa.Instruction) {
		if cc := callCommon(i); cc != nil && cc.IsInvoke() && cc.Method.Name() == "Authenticate" {
			auth = i
		}
	})
	if auth == nil {
		c.Undecided("UNRESOLVED ANCHOR Authenticate call in " + fnName(fn))
		return
	}
	okAtom := "(" + desc(auth.(ssa.Value)) + "#1 == nil)"
	abortName := "(*" + shortPkgOf(pkg) + "." + recv + ").writeErrorNoLog"
	c.MustFollow(p, fn, "C04.fail_aborts", "every return after a failed Authenticate is preceded by writeErrorNoLog(ctx, 401, …)", after(auth), anyReturn,
		func(i ssa.Instruction) bool {
			if !isCallTo(i, abortName) {
				return false
			}
			a := callCommon(i).Args
			return len(a) >= 3 && desc(a[1]) == "$1" && desc(a[2]) == "401"
		},
		func(l Lit) bool { return !(l.Pos && atomMatch(okAtom, l.Atom)) })
	// the success edge exists and writes nothing
	c.MustPass(p, fn, "C04.fail_aborts", "abort with 401", callTo(abortName), F(okAtom))
}

func (c *Ctx) c04Abort(p *Prog, fn *ssa.Function) {
	ok := false
	eachInstr(fn, func(i ssa.Instruction) {
		if isCallTo(i, "(*github.com/gin-gonic/gin.Context).AbortWithStatusJSON") {
			a := callCommon(i).Args
			if len(a) >= 2 && desc(a[0]) == "$1" && desc(a[1]) == "$2" {
				ok = true
			}
		}
	})
	c.Check("C04.abort", fnName(fn)+": answers with ctx.AbortWithStatusJSON(status, …) (stops the handler chain)", ok, p.Pos(fn.Pos()), "")
	c.MustPrecede(p, fn, "C04.abort", "return", "AbortWithStatusJSON", anyReturn, callTo("(*github.com/gin-gonic/gin.Context).AbortWithStatusJSON"))
	// no other body-writing call
	eachInstr(fn, func(i ssa.Instruction) {
		if isCallTo(i, "(*github.com/gin-gonic/gin.Context).JSON", "(*github.com/gin-gonic/gin.Context).IndentedJSON", "(*github.com/gin-gonic/gin.Context).String", "(*github.com/gin-gonic/gin.Context).Data") {
			c.Check("C04.abort", fnName(fn)+": does not write a non-aborting response", false, p.Pos(i.Pos()), "")
		}
	})
}

func (c *Ctx) c04Preflight(p *Prog, fn *ssa.Function) {
	n := 0
	eachInstr(fn, func(i ssa.Instruction) {
		cc := callCommon(i)
		if cc == nil {
			return
		}
		name := calleeName(cc)
		if !strings.HasPrefix(name, "(*github.com/gin-gonic/gin.Context).") {
			return
		}
		m := strings.TrimPrefix(name, "(*github.com/gin-gonic/gin.Context).")
		switch m {
		case "Header":
		case "AbortWithStatus":
			n++
			c.Check("C04.preflight", fnName(fn)+": preflight is answered with AbortWithStatus(204)", desc(cc.Args[1]) == "204", p.Pos(i.Pos()), "")
		default:
			c.Check("C04.preflight", fnName(fn)+": preflight middleware writes no data (ctx."+m+")", false, p.Pos(i.Pos()), "")
		}
	})
	c.Check("C04.preflight", fnName(fn)+": exactly one AbortWithStatus", n == 1, p.Pos(fn.Pos()), "")
	c.MustPass(p, fn, "C04.preflight", "AbortWithStatus", callTo("(*github.com/gin-gonic/gin.Context).AbortWithStatus"), T(`($1.Request.Method == "OPTIONS")`))
}
