package main

// Generic helpers added with the C17/C23/C24/C25/C32/C33 rule sets:
//   - lock-state dataflow over the SSA CFG with caller summaries (E9c)
//   - static caller index of the module (E2)
//   - value stripping / constant helpers, block-level reachability with
//     blocked edges, composite-literal field stores on SSA

import (
	"fmt"
	"go/ast"
	"go/constant"
	"go/token"
	"go/types"
	"sort"
	"strings"

	"golang.org/x/tools/go/ssa"
)

// ---------------------------------------------------------------------------
// static caller index

type callerIndex struct {
	sites    map[*ssa.Function][]ssa.Instruction // Call/Go/Defer instructions with that static callee
	valueUse map[*ssa.Function]bool              // function referenced other than in call position
}

var callerIdxCache = map[*Prog]*callerIndex{}

func (p *Prog) callerIndex() *callerIndex {
	if ci := callerIdxCache[p]; ci != nil {
		return ci
	}
	ci := &callerIndex{sites: map[*ssa.Function][]ssa.Instruction{}, valueUse: map[*ssa.Function]bool{}}
	var ops []*ssa.Value
	for _, fn := range p.ModFuncs() {
		eachInstr(fn, func(i ssa.Instruction) {
			var callee ssa.Value
			if cc := callCommon(i); cc != nil {
				if sc := cc.StaticCallee(); sc != nil {
					ci.sites[sc] = append(ci.sites[sc], i)
				}
				if !cc.IsInvoke() {
					callee = cc.Value
				}
			}
			ops = i.Operands(ops[:0])
			for _, op := range ops {
				if op == nil || *op == nil {
					continue
				}
				switch v := (*op).(type) {
				case *ssa.Function:
					if v != callee {
						ci.valueUse[v] = true
					}
				case *ssa.MakeClosure:
					if ssa.Value(v) != callee {
						if f, ok := v.Fn.(*ssa.Function); ok {
							ci.valueUse[f] = true
						}
					}
				}
			}
			// a MakeClosure that is never called directly is a value use as well
			if mc, ok := i.(*ssa.MakeClosure); ok {
				direct := len(*mc.Referrers()) > 0
				for _, r := range *mc.Referrers() {
					cc := callCommon(r)
					if cc == nil || cc.Value != ssa.Value(mc) {
						direct = false
					}
				}
				if !direct {
					if f, ok := mc.Fn.(*ssa.Function); ok {
						ci.valueUse[f] = true
					}
				}
			}
		})
	}
	callerIdxCache[p] = ci
	return ci
}

// staticCallers lists "caller: kind" strings of the static call sites of fn
// in the module (kind = call/go/defer), sorted.
func (p *Prog) staticCallers(fn *ssa.Function) []string {
	ci := p.callerIndex()
	var out []string
	for _, s := range ci.sites[fn] {
		kind := "call"
		switch s.(type) {
		case *ssa.Go:
			kind = "go"
		case *ssa.Defer:
			kind = "defer"
		}
		out = append(out, fnName(s.Parent())+": "+kind)
	}
	if ci.valueUse[fn] {
		out = append(out, "<used as a value>")
	}
	sort.Strings(out)
	return out
}

// ---------------------------------------------------------------------------
// lock-state dataflow (E9c)

const (
	lsU uint8 = 1 // not held
	lsR uint8 = 2 // read-locked
	lsW uint8 = 4 // write-locked
)

func lsStr(s uint8) string {
	var o []string
	if s&lsU != 0 {
		o = append(o, "unlocked")
	}
	if s&lsR != 0 {
		o = append(o, "rlocked")
	}
	if s&lsW != 0 {
		o = append(o, "locked")
	}
	if len(o) == 0 {
		return "unreachable"
	}
	return strings.Join(o, "|")
}

// mutexSpec names a mutex by the struct type that owns it and the field name
// (resolved on FieldAddr types, never on source text). No alias analysis: two
// instances of the struct are not distinguished (stated in the evidence).
type mutexSpec struct{ Struct, Field string }

type lockAnalysis struct {
	p     *Prog
	m     mutexSpec
	entry map[*ssa.Function]uint8
	busy  map[*ssa.Function]bool
	in    map[*ssa.Function]map[*ssa.BasicBlock]uint8
}

func newLockAnalysis(p *Prog, m mutexSpec) *lockAnalysis {
	return &lockAnalysis{p: p, m: m, entry: map[*ssa.Function]uint8{}, busy: map[*ssa.Function]bool{},
		in: map[*ssa.Function]map[*ssa.BasicBlock]uint8{}}
}

// op classifies a plain call (deferred calls run at exit and are ignored).
func (la *lockAnalysis) op(i ssa.Instruction) uint8 {
	c, ok := i.(*ssa.Call)
	if !ok || c.Call.IsInvoke() || len(c.Call.Args) == 0 {
		return 0
	}
	fa, ok := c.Call.Args[0].(*ssa.FieldAddr)
	if !ok || !fieldAddrIs(fa, la.m.Struct, la.m.Field) {
		return 0
	}
	switch calleeName(&c.Call) {
	case "(*sync.RWMutex).Lock", "(*sync.Mutex).Lock":
		return lsW
	case "(*sync.RWMutex).RLock":
		return lsR
	case "(*sync.RWMutex).Unlock", "(*sync.RWMutex).RUnlock", "(*sync.Mutex).Unlock":
		return lsU
	}
	return 0
}

func (la *lockAnalysis) entryState(fn *ssa.Function, depth int) uint8 {
	if s, ok := la.entry[fn]; ok {
		return s
	}
	if depth > 5 || la.busy[fn] {
		return lsU
	}
	la.busy[fn] = true
	defer delete(la.busy, fn)
	ci := la.p.callerIndex()
	var s uint8
	exported := fn.Parent() == nil && ast.IsExported(fn.Name())
	if exported || ci.valueUse[fn] || len(ci.sites[fn]) == 0 || fn.Synthetic != "" {
		s |= lsU
	}
	for _, site := range ci.sites[fn] {
		switch site.(type) {
		case *ssa.Go, *ssa.Defer:
			s |= lsU
		default:
			s |= la.stateAtD(site, depth+1)
		}
	}
	la.entry[fn] = s
	return s
}

func (la *lockAnalysis) blockIn(fn *ssa.Function, depth int) map[*ssa.BasicBlock]uint8 {
	if m, ok := la.in[fn]; ok {
		return m
	}
	in := map[*ssa.BasicBlock]uint8{}
	if len(fn.Blocks) == 0 {
		return in
	}
	in[fn.Blocks[0]] = la.entryState(fn, depth)
	work := []*ssa.BasicBlock{fn.Blocks[0]}
	for len(work) > 0 {
		b := work[len(work)-1]
		work = work[:len(work)-1]
		s := in[b]
		for _, ins := range b.Instrs {
			if o := la.op(ins); o != 0 {
				s = o
			}
		}
		for _, sc := range b.Succs {
			if in[sc]|s != in[sc] {
				in[sc] |= s
				work = append(work, sc)
			}
		}
	}
	la.in[fn] = in
	return in
}

func (la *lockAnalysis) stateAtD(i ssa.Instruction, depth int) uint8 {
	fn := i.Parent()
	in := la.blockIn(fn, depth)
	s := in[i.Block()]
	for _, ins := range i.Block().Instrs {
		if ins == i {
			return s
		}
		if o := la.op(ins); o != 0 {
			s = o
		}
	}
	return s
}

// stateAt returns the set of possible lock states just before instruction i,
// with the function's entry state summarised from its static callers
// (exported functions, function values, go/defer sites count as unlocked).
func (la *lockAnalysis) stateAt(i ssa.Instruction) uint8 { return la.stateAtD(i, 0) }

// fieldAccess is one use of a guarded field.
type fieldAccess struct {
	At    ssa.Instruction
	Write bool
	What  string
}

// fieldAccesses lists the uses of struct field (Struct.Field) in fn. For map
// fields the mutation is the MapUpdate/delete on the loaded map.
func fieldAccesses(fn *ssa.Function, structName, field string) []fieldAccess {
	var out []fieldAccess
	eachInstr(fn, func(i ssa.Instruction) {
		fa, ok := i.(*ssa.FieldAddr)
		if !ok || !fieldAddrIs(fa, structName, field) {
			return
		}
		for _, r := range *fa.Referrers() {
			switch x := r.(type) {
			case *ssa.Store:
				if x.Addr == ssa.Value(fa) {
					what := "store"
					if _, ok := x.Val.(*ssa.MakeMap); ok {
						what = "store of a fresh map"
					}
					out = append(out, fieldAccess{x, true, what})
				} else {
					out = append(out, fieldAccess{x, false, "address escapes"})
				}
			case *ssa.UnOp:
				if x.Op != token.MUL {
					continue
				}
				uses := 0
				for _, rr := range *x.Referrers() {
					uses++
					switch y := rr.(type) {
					case *ssa.MapUpdate:
						if y.Map == ssa.Value(x) {
							out = append(out, fieldAccess{y, true, "map insert"})
						} else {
							out = append(out, fieldAccess{y, false, "read"})
						}
					case *ssa.Call:
						if b, ok := y.Call.Value.(*ssa.Builtin); ok && b.Name() == "delete" && len(y.Call.Args) > 0 && y.Call.Args[0] == ssa.Value(x) {
							out = append(out, fieldAccess{y, true, "map delete"})
						} else {
							out = append(out, fieldAccess{y, false, "read"})
						}
					case *ssa.Range:
						out = append(out, fieldAccess{y, false, "range"})
						for _, nx := range *y.Referrers() {
							if n, ok := nx.(*ssa.Next); ok {
								out = append(out, fieldAccess{n, false, "range"})
							}
						}
					default:
						out = append(out, fieldAccess{rr, false, "read"})
					}
				}
				if uses == 0 {
					out = append(out, fieldAccess{x, false, "read"})
				}
			default:
				out = append(out, fieldAccess{r, false, "address escapes"})
			}
		}
	})
	return out
}

// guardedBy records one obligation per (function, kind of access) of the field:
// writes need the write lock, reads any lock. exempt maps
// "function|what" to the reason the access needs no lock (construction).
func (c *Ctx) guardedBy(p *Prog, rule string, la *lockAnalysis, structName, field string, exempt map[string]string) int {
	n := 0
	for _, fn := range p.ModFuncs() {
		acc := fieldAccesses(fn, structName, field)
		if len(acc) == 0 {
			continue
		}
		c.Analysed(fnName(fn))
		type agg struct {
			ok     bool
			pos    token.Pos
			detail string
		}
		seen := map[string]*agg{}
		var order []string
		for _, a := range acc {
			kind := "read"
			if a.Write {
				kind = "write"
			}
			key := fnName(fn) + ": " + kind + " (" + a.What + ") of " + structName + "." + field + " under " + la.m.Struct + "." + la.m.Field
			if why, ok := exempt[fnName(fn)+"|"+a.What]; ok {
				if seen[key] == nil {
					seen[key] = &agg{true, posOf(a.At, fn), "exempt: " + why}
					order = append(order, key)
				}
				continue
			}
			st := la.stateAt(a.At)
			ok := st != 0 && st&lsU == 0
			if a.Write && st&lsR != 0 {
				ok = false
			}
			if g := seen[key]; g == nil {
				seen[key] = &agg{ok, posOf(a.At, fn), "lock state: " + lsStr(st)}
				order = append(order, key)
			} else if !ok && g.ok {
				g.ok, g.pos, g.detail = false, posOf(a.At, fn), "lock state: "+lsStr(st)
			}
		}
		for _, k := range order {
			n++
			c.Check(rule, k, seen[k].ok, p.Pos(seen[k].pos), seen[k].detail)
		}
	}
	return n
}

// ---------------------------------------------------------------------------
// value helpers

// stripConv removes representation changes and integer conversions.
func stripConv(v ssa.Value) ssa.Value {
	for {
		switch x := v.(type) {
		case *ssa.ChangeType:
			v = x.X
		case *ssa.Convert:
			v = x.X
		case *ssa.MakeInterface:
			v = x.X
		case *ssa.ChangeInterface:
			v = x.X
		default:
			return v
		}
	}
}

// loadOf returns the address loaded by v (through conversions), or nil.
func loadOf(v ssa.Value) ssa.Value {
	v = stripConv(v)
	if u, ok := v.(*ssa.UnOp); ok && u.Op == token.MUL {
		return u.X
	}
	return nil
}

func constInt64(v ssa.Value) (int64, bool) {
	c, ok := v.(*ssa.Const)
	if !ok || c.Value == nil || c.Value.Kind() != constant.Int {
		return 0, false
	}
	if i, exact := constant.Int64Val(c.Value); exact {
		return i, true
	}
	return 0, false
}

func constUint64(v ssa.Value) (uint64, bool) {
	c, ok := v.(*ssa.Const)
	if !ok || c.Value == nil || c.Value.Kind() != constant.Int {
		return 0, false
	}
	if i, exact := constant.Uint64Val(c.Value); exact {
		return i, true
	}
	if i, exact := constant.Int64Val(c.Value); exact {
		return uint64(i), true
	}
	return 0, false
}

// allocFieldStores returns, for a struct allocated by a composite literal
// (Alloc), the value stored to each field by name.
func allocFieldStores(a *ssa.Alloc) map[string]ssa.Value {
	out := map[string]ssa.Value{}
	for _, r := range *a.Referrers() {
		fa, ok := r.(*ssa.FieldAddr)
		if !ok {
			continue
		}
		st := fa.X.Type().Underlying().(*types.Pointer).Elem().Underlying().(*types.Struct)
		for _, rr := range *fa.Referrers() {
			if sto, ok := rr.(*ssa.Store); ok && sto.Addr == ssa.Value(fa) {
				out[st.Field(fa.Field).Name()] = sto.Val
			}
		}
	}
	return out
}

// structHasField reports whether the struct type has a field of that name and
// returns its index.
func structFieldIndex(t types.Type, name string) int {
	st, ok := t.Underlying().(*types.Struct)
	if !ok {
		return -1
	}
	for i := 0; i < st.NumFields(); i++ {
		if st.Field(i).Name() == name {
			return i
		}
	}
	return -1
}

// ---------------------------------------------------------------------------
// block reachability with blocked edges

type cfgEdge struct {
	From *ssa.BasicBlock
	Succ int
}

// reachableAvoiding reports whether block `to` is reachable from `from`
// without traversing any blocked edge (from == to counts as reachable).
func reachableAvoiding(from, to *ssa.BasicBlock, blocked map[cfgEdge]bool) bool {
	seen := map[*ssa.BasicBlock]bool{from: true}
	work := []*ssa.BasicBlock{from}
	for len(work) > 0 {
		b := work[len(work)-1]
		work = work[:len(work)-1]
		if b == to {
			return true
		}
		for k, s := range b.Succs {
			if blocked[cfgEdge{b, k}] || seen[s] {
				continue
			}
			seen[s] = true
			work = append(work, s)
		}
	}
	return false
}

// dominatesInstr: does instruction a dominate instruction b (same function)?
func dominatesInstr(a, b ssa.Instruction) bool {
	if a.Block() == b.Block() {
		for _, i := range a.Block().Instrs {
			if i == a {
				return true
			}
			if i == b {
				return false
			}
		}
		return false
	}
	return a.Block().Dominates(b.Block())
}

// instrIndex returns the index of i in its block.
func instrIndex(i ssa.Instruction) int {
	for k, x := range i.Block().Instrs {
		if x == i {
			return k
		}
	}
	return -1
}

// moduleCallsTo lists the call instructions (Call/Go/Defer) in the module
// whose callee has the canonical name.
func moduleCallsTo(p *Prog, names ...string) []ssa.Instruction {
	var out []ssa.Instruction
	for _, fn := range p.ModFuncs() {
		out = append(out, callsIn(fn, names...)...)
	}
	return out
}

func isPlainCall(i ssa.Instruction) bool { _, ok := i.(*ssa.Call); return ok }

// resolveAlloc looks through a single-store local (captured variable copies
// such as `csr := sr`).
func resolveAlloc(v ssa.Value) ssa.Value {
	for k := 0; k < 4; k++ {
		switch x := v.(type) {
		case *ssa.Alloc:
			if s := singleStore(x); s != nil {
				v = s
				continue
			}
		case *ssa.UnOp:
			if x.Op == token.MUL {
				if a, ok := x.X.(*ssa.Alloc); ok {
					if s := singleStore(a); s != nil {
						v = s
						continue
					}
				}
			}
		}
		break
	}
	return v
}

// closureBinding returns the value bound to the free variable of that name.
func closureBinding(mc *ssa.MakeClosure, name string) ssa.Value {
	fn := mc.Fn.(*ssa.Function)
	for i, fv := range fn.FreeVars {
		if fv.Name() == name && i < len(mc.Bindings) {
			return mc.Bindings[i]
		}
	}
	return nil
}

func sprintf(f string, a ...any) string { return fmt.Sprintf(f, a...) }
