package main

// C14.comparator, stated over the MEANING of the comparator instead of the shape
// of its control flow.
//
// What the comparator may observe of the two elements it compares is: whether a
// Name equals "all", whether it equals "all_others", and how the two Names are
// ordered. That is a finite set of situations (3 x 3 name classes, with the
// orderings that are consistent with them: 15 cases). For each case the SSA of the
// comparator is EXECUTED on abstract values (an element of the sorted slice, its
// Name, booleans, small integers, string constants): every branch condition then
// has a definite outcome, calls of functions that have a body are executed too
// (a test extracted into a helper, a comparator turned into a named function,
// strings.Compare / cmp.Compare), phis take the value of the edge that was
// followed (`return a || b`), and the value returned is compared with the
// specification
//
//	Name[i] is all/all_others            -> false
//	else Name[j] is all/all_others       -> true
//	else                                 -> Name[i] < Name[j]
//
// For a three-way comparator (slices.SortFunc, func(a, b *Path) int) "less" is
// result < 0. Anything the interpreter cannot evaluate exactly (a map lookup, a
// comparison of a Name with another constant, a store, a loop that does not
// terminate within the step bound) makes the case UNKNOWN, which fails the rule:
// the rule never passes on something it did not fully evaluate.

import (
	"fmt"
	"go/constant"
	"go/token"
	"go/types"
	"strings"

	"golang.org/x/tools/go/ssa"
)

// c14coll: the slice the candidates are collected into. go/ssa keeps a local
// variable in a memory cell (Alloc) only when its address is needed - here: when the
// sort.Slice comparator closure captures it; otherwise (slices.SortFunc with a
// comparator of two elements, a named comparator) the variable is a register and
// the collected slice is the accumulator phi of the collecting loop. Both denote
// the same thing; the rules ask `is(v)`.
type c14coll struct {
	cell *ssa.Alloc
	val  ssa.Value
}

func (k *c14coll) found() bool { return k != nil && (k.cell != nil || k.val != nil) }

func (k *c14coll) is(v ssa.Value) bool {
	if !k.found() {
		return false
	}
	v = stripConv(v)
	if k.cell != nil {
		u, ok := v.(*ssa.UnOp)
		return ok && u.Op == token.MUL && u.X == ssa.Value(k.cell)
	}
	return v == k.val
}

func (k *c14coll) pos() token.Pos {
	if k.cell != nil {
		return k.cell.Pos()
	}
	if k.val != nil {
		return k.val.Pos()
	}
	return token.NoPos
}

// c14AccumulatorPhi: ph = phi(nil | app | ph): starts empty, changes only by the
// collecting append.
func c14AccumulatorPhi(ph *ssa.Phi, app *ssa.Call) bool {
	hasApp := false
	for _, e := range ph.Edges {
		switch {
		case e == ssa.Value(app):
			hasApp = true
		case e == ssa.Value(ph):
		case isNilConst(e):
		default:
			return false
		}
	}
	return hasApp
}

// c14SortCall: the last call of a sort-by-comparator library function in fn
// (generic instances are recognised by their origin).
func c14SortCall(fn *ssa.Function) *ssa.Call {
	var out *ssa.Call
	eachInstr(fn, func(i ssa.Instruction) {
		cl, ok := i.(*ssa.Call)
		if !ok {
			return
		}
		callee := cl.Call.StaticCallee()
		if callee == nil {
			return
		}
		if o := callee.Origin(); o != nil {
			callee = o
		}
		if callee.Pkg == nil || callee.Pkg.Pkg == nil {
			return
		}
		switch callee.Pkg.Pkg.Path() + "." + callee.Name() {
		case "sort.Slice", "sort.SliceStable", "slices.SortFunc", "slices.SortStableFunc":
			out = cl
		}
	})
	return out
}

const (
	c14vUnknown = iota
	c14vBool
	c14vStr
	c14vInt
	c14vIndex     // the index parameter k (0 = i, 1 = j)
	c14vSliceAddr // address of the sorted slice variable
	c14vSlice     // the sorted slice
	c14vElemAddr  // &S[k]
	c14vElem      // S[k]  (*conf.Path)
	c14vNameAddr  // &S[k].Name
	c14vName      // S[k].Name
)

type c14val struct {
	kind int
	b    bool
	s    string
	n    int64
	k    int
	why  string // for unknown
}

func c14unknown(why string) c14val { return c14val{kind: c14vUnknown, why: why} }

type c14interp struct {
	cls   [2]string // "all", "all_others" or "" (any other name)
	order int       // sign of compare(Name[0], Name[1])
	steps int
	slice *ssa.Alloc
}

func (it *c14interp) cmpNames(a, b int) int {
	switch {
	case a == b:
		return 0
	case a == 0:
		return it.order
	default:
		return -it.order
	}
}

func c14cmpResult(op token.Token, c int) (bool, bool) {
	switch op {
	case token.EQL:
		return c == 0, true
	case token.NEQ:
		return c != 0, true
	case token.LSS:
		return c < 0, true
	case token.LEQ:
		return c <= 0, true
	case token.GTR:
		return c > 0, true
	case token.GEQ:
		return c >= 0, true
	}
	return false, false
}

func (it *c14interp) binop(op token.Token, x, y c14val) c14val {
	mk := func(b bool) c14val { return c14val{kind: c14vBool, b: b} }
	switch {
	case x.kind == c14vName && y.kind == c14vName:
		if r, ok := c14cmpResult(op, it.cmpNames(x.k, y.k)); ok {
			return mk(r)
		}
	case x.kind == c14vName && y.kind == c14vStr, x.kind == c14vStr && y.kind == c14vName:
		nm, s := x, y
		if x.kind == c14vStr {
			nm, s = y, x
		}
		if op != token.EQL && op != token.NEQ {
			return c14unknown("a Name is ordered against the constant " + fmt.Sprintf("%q", s.s))
		}
		var eq bool
		switch {
		case s.s == "all" || s.s == "all_others":
			eq = it.cls[nm.k] == s.s
		case it.cls[nm.k] != "":
			eq = false // the name is all / all_others, the constant is something else
		default:
			return c14unknown("a Name is compared with the constant " + fmt.Sprintf("%q", s.s))
		}
		return mk(eq == (op == token.EQL))
	case x.kind == c14vStr && y.kind == c14vStr:
		if r, ok := c14cmpResult(op, strings.Compare(x.s, y.s)); ok {
			return mk(r)
		}
	case x.kind == c14vInt && y.kind == c14vInt:
		c := 0
		if x.n < y.n {
			c = -1
		} else if x.n > y.n {
			c = 1
		}
		if r, ok := c14cmpResult(op, c); ok {
			return mk(r)
		}
		switch op {
		case token.ADD:
			return c14val{kind: c14vInt, n: x.n + y.n}
		case token.SUB:
			return c14val{kind: c14vInt, n: x.n - y.n}
		case token.MUL:
			return c14val{kind: c14vInt, n: x.n * y.n}
		}
	case x.kind == c14vBool && y.kind == c14vBool:
		switch op {
		case token.EQL:
			return mk(x.b == y.b)
		case token.NEQ, token.XOR:
			return mk(x.b != y.b)
		case token.AND:
			return mk(x.b && y.b)
		case token.OR:
			return mk(x.b || y.b)
		}
	case x.kind == c14vIndex && y.kind == c14vIndex:
		// sort never compares an element with itself; i and j are distinct positions
		if op == token.EQL || op == token.NEQ {
			return mk((x.k == y.k) == (op == token.EQL))
		}
	}
	if x.kind == c14vUnknown {
		return x
	}
	if y.kind == c14vUnknown {
		return y
	}
	return c14unknown(fmt.Sprintf("operator %s on values the comparator is not expected to combine", op))
}

func (it *c14interp) constVal(cv *ssa.Const) c14val {
	if cv.Value == nil {
		return c14unknown("nil / zero constant")
	}
	switch cv.Value.Kind() {
	case constant.Bool:
		return c14val{kind: c14vBool, b: constant.BoolVal(cv.Value)}
	case constant.String:
		return c14val{kind: c14vStr, s: constant.StringVal(cv.Value)}
	case constant.Int:
		if n, ok := constant.Int64Val(cv.Value); ok {
			return c14val{kind: c14vInt, n: n}
		}
	}
	return c14unknown("constant " + cv.String())
}

// call executes fn on args (fvs: values of its free variables) and returns its
// first result.
func (it *c14interp) call(fn *ssa.Function, args []c14val, fvs []c14val, depth int) c14val {
	if depth > 6 || len(fn.Blocks) == 0 {
		return c14unknown("call of " + fnName(fn) + " (no body / too deep)")
	}
	env := map[ssa.Value]c14val{}
	for i, pa := range fn.Params {
		if i < len(args) {
			env[pa] = args[i]
		}
	}
	for i, fv := range fn.FreeVars {
		if i < len(fvs) {
			env[fv] = fvs[i]
		}
	}
	get := func(v ssa.Value) c14val {
		if cv, ok := v.(*ssa.Const); ok {
			return it.constVal(cv)
		}
		if x, ok := env[v]; ok {
			return x
		}
		return c14unknown("value " + desc(v))
	}
	var prev *ssa.BasicBlock
	b := fn.Blocks[0]
	for {
		var next *ssa.BasicBlock
		for _, ins := range b.Instrs {
			it.steps++
			if it.steps > 4000 {
				return c14unknown("step bound exceeded (loop?)")
			}
			switch x := ins.(type) {
			case *ssa.DebugRef, *ssa.RunDefers:
			case *ssa.Phi:
				v := c14unknown("phi without predecessor")
				for i, pr := range b.Preds {
					if pr == prev {
						v = get(x.Edges[i])
					}
				}
				env[x] = v
			case *ssa.UnOp:
				a := get(x.X)
				switch {
				case x.Op == token.MUL && a.kind == c14vSliceAddr:
					env[x] = c14val{kind: c14vSlice}
				case x.Op == token.MUL && a.kind == c14vElemAddr:
					env[x] = c14val{kind: c14vElem, k: a.k}
				case x.Op == token.MUL && a.kind == c14vNameAddr:
					env[x] = c14val{kind: c14vName, k: a.k}
				case x.Op == token.NOT && a.kind == c14vBool:
					env[x] = c14val{kind: c14vBool, b: !a.b}
				case x.Op == token.SUB && a.kind == c14vInt:
					env[x] = c14val{kind: c14vInt, n: -a.n}
				case a.kind == c14vUnknown:
					env[x] = a
				default:
					env[x] = c14unknown("load/unary " + desc(x))
				}
			case *ssa.IndexAddr:
				s, i := get(x.X), get(x.Index)
				if s.kind == c14vSlice && i.kind == c14vIndex {
					env[x] = c14val{kind: c14vElemAddr, k: i.k}
				} else {
					env[x] = c14unknown("index of something else than sorted[i|j]: " + desc(x))
				}
			case *ssa.FieldAddr:
				a := get(x.X)
				if a.kind == c14vElem && fieldAddrIs(x, "conf.Path", "Name") {
					env[x] = c14val{kind: c14vNameAddr, k: a.k}
				} else {
					env[x] = c14unknown("field other than conf.Path.Name: " + desc(x))
				}
			case *ssa.BinOp:
				env[x] = it.binop(x.Op, get(x.X), get(x.Y))
			case *ssa.ChangeType:
				env[x] = get(x.X)
			case *ssa.Convert:
				a := get(x.X)
				if a.kind == c14vInt || a.kind == c14vStr || a.kind == c14vName {
					if bt, ok := x.Type().Underlying().(*types.Basic); ok && (bt.Info()&(types.IsInteger|types.IsString)) != 0 {
						if (a.kind == c14vInt) == (bt.Info()&types.IsInteger != 0) {
							env[x] = a
							break
						}
					}
				}
				env[x] = c14unknown("conversion " + desc(x))
			case *ssa.Call:
				callee := x.Call.StaticCallee()
				var cargs []c14val
				for _, a := range x.Call.Args {
					cargs = append(cargs, get(a))
				}
				switch {
				case callee != nil && c14isStringCompare(callee) && len(cargs) == 2:
					// strings.Compare / cmp.Compare: the sign of the comparison
					// (their bodies end in assembly the interpreter cannot run)
					a, b := cargs[0], cargs[1]
					switch {
					case a.kind == c14vName && b.kind == c14vName:
						env[x] = c14val{kind: c14vInt, n: int64(it.cmpNames(a.k, b.k))}
					case a.kind == c14vStr && b.kind == c14vStr:
						env[x] = c14val{kind: c14vInt, n: int64(strings.Compare(a.s, b.s))}
					default:
						env[x] = c14unknown("three-way comparison of something else than the two Names: " + desc(x))
					}
				case callee != nil && len(callee.Blocks) > 0 && callee.Signature.Results().Len() == 1:
					var cfv []c14val
					if mc, ok := x.Call.Value.(*ssa.MakeClosure); ok {
						for _, bd := range mc.Bindings {
							cfv = append(cfv, get(bd))
						}
					}
					env[x] = it.call(callee, cargs, cfv, depth+1)
				default:
					env[x] = c14unknown("call " + desc(x))
				}
			case *ssa.If:
				cv := get(x.Cond)
				if cv.kind != c14vBool {
					if cv.kind == c14vUnknown {
						return cv
					}
					return c14unknown("branch on a non-boolean")
				}
				if cv.b {
					next = b.Succs[0]
				} else {
					next = b.Succs[1]
				}
			case *ssa.Jump:
				next = b.Succs[0]
			case *ssa.Return:
				if len(x.Results) != 1 {
					return c14unknown("return of " + fmt.Sprint(len(x.Results)) + " values")
				}
				return get(x.Results[0])
			case *ssa.Store, *ssa.MapUpdate, *ssa.Send, *ssa.Go, *ssa.Defer, *ssa.Panic:
				return c14unknown(fmt.Sprintf("%T inside the comparator (%s)", x, fnName(fn)))
			default:
				if v, ok := ins.(ssa.Value); ok {
					env[v] = c14unknown(fmt.Sprintf("%T %s", ins, desc(v)))
				}
			}
		}
		if next == nil {
			return c14unknown("block without successor")
		}
		prev, b = b, next
	}
}

// c14ComparatorSemantics evaluates the comparator on the 15 situations. fn is the
// function handed to the sort call; bindings are the captured values when it is a
// closure.
func c14ComparatorSemantics(fn *ssa.Function, bindings []ssa.Value, slice *ssa.Alloc) (nCases int, bad []string) {
	// parameters: (i, j int) index the sorted slice; (a, b *conf.Path) are elements
	sig := fn.Signature
	if sig.Params().Len() != 2 || sig.Results().Len() != 1 {
		return 0, []string{"comparator does not have the form func(x, y) bool|int"}
	}
	var args [2]c14val
	for k := 0; k < 2; k++ {
		t := sig.Params().At(k).Type()
		if bt, ok := t.Underlying().(*types.Basic); ok && bt.Info()&types.IsInteger != 0 {
			args[k] = c14val{kind: c14vIndex, k: k}
		} else if pt, ok := t.Underlying().(*types.Pointer); ok && typeStr(pt.Elem()) == "conf.Path" {
			args[k] = c14val{kind: c14vElem, k: k}
		} else {
			return 0, []string{"comparator parameter of type " + typeStr(t)}
		}
	}
	threeWay := false
	if bt, ok := sig.Results().At(0).Type().Underlying().(*types.Basic); ok && bt.Info()&types.IsInteger != 0 {
		threeWay = true
	}
	var fvs []c14val
	for _, bd := range bindings {
		if bd == ssa.Value(slice) {
			fvs = append(fvs, c14val{kind: c14vSliceAddr})
		} else {
			fvs = append(fvs, c14unknown("captured "+desc(bd)))
		}
	}
	classes := []string{"all", "all_others", ""}
	show := func(s string) string {
		if s == "" {
			return "<other>"
		}
		return s
	}
	for _, ci := range classes {
		for _, cj := range classes {
			var orders []int
			switch {
			case ci != "" && cj != "":
				orders = []int{strings.Compare(ci, cj)}
			case ci == "" && cj == "":
				orders = []int{-1, 0, 1}
			default:
				orders = []int{-1, 1}
			}
			for _, o := range orders {
				nCases++
				it := &c14interp{cls: [2]string{ci, cj}, order: o, slice: slice}
				want := false
				switch {
				case ci != "":
					want = false
				case cj != "":
					want = true
				default:
					want = o < 0
				}
				got := it.call(fn, args[:], fvs, 0)
				where := fmt.Sprintf("Name[i]=%s, Name[j]=%s, compare(Name[i],Name[j])=%d", show(ci), show(cj), o)
				switch {
				case got.kind == c14vUnknown:
					bad = append(bad, where+": cannot evaluate: "+got.why)
				case !threeWay && got.kind == c14vBool:
					if got.b != want {
						bad = append(bad, fmt.Sprintf("%s: comparator returns %v, all/all_others last and ascending by Name requires %v", where, got.b, want))
					}
				case threeWay && got.kind == c14vInt:
					if (got.n < 0) != want {
						bad = append(bad, fmt.Sprintf("%s: comparator returns %d, all/all_others last and ascending by Name requires less=%v", where, got.n, want))
					}
				default:
					bad = append(bad, where+": comparator returns a value of an unexpected kind")
				}
			}
		}
	}
	return nCases, bad
}

// c14isStringCompare: strings.Compare, cmp.Compare[string] (and the runtime
// primitive both end in) - three-way comparison of two strings.
func c14isStringCompare(f *ssa.Function) bool {
	if f.Pkg == nil && f.Origin() != nil {
		f = f.Origin()
	}
	if f.Pkg == nil || f.Pkg.Pkg == nil || f.Signature.Recv() != nil {
		return false
	}
	switch f.Pkg.Pkg.Path() + "." + f.Name() {
	case "strings.Compare", "cmp.Compare", "internal/bytealg.CompareString":
		return true
	}
	return false
}
