package main

// Generic helpers added for the C02/C05/C07/C36/C37/C41 rule sets.

import (
	"go/ast"
	"go/constant"
	"go/token"
	"go/types"
	"strings"

	"golang.org/x/tools/go/ssa"
)

// uniqueCall returns the single call instruction (Call/Go/Defer) of fn whose
// canonical callee name matches one of names; nil when there are 0 or several.
func uniqueCall(fn *ssa.Function, names ...string) ssa.Instruction {
	cs := callsIn(fn, names...)
	if len(cs) != 1 {
		return nil
	}
	return cs[0]
}

// eqAtom builds the canonical equality atom of two descriptions in the
// operand order litOf produces (constants last, otherwise lexical).
func eqAtom(a, b string, bIsConst bool) string {
	if !bIsConst && a > b {
		a, b = b, a
	}
	return "(" + a + " == " + b + ")"
}

// errNilAtom: "(<call>#i == nil)".
func errNilAtom(call ssa.Value, idx int) string {
	return "(" + desc(call) + "#" + itoa(idx) + " == nil)"
}

// deref strips loads / representation-only conversions / interface boxing.
func deref(v ssa.Value) ssa.Value {
	for {
		switch x := v.(type) {
		case *ssa.UnOp:
			if x.Op == token.MUL {
				if a, ok := x.X.(*ssa.Alloc); ok {
					if sv := singleStore(a); sv != nil {
						v = sv
						continue
					}
				}
			}
			return v
		case *ssa.ChangeType:
			v = x.X
		case *ssa.Convert:
			v = x.X
		case *ssa.MakeInterface:
			v = x.X
		case *ssa.ChangeInterface:
			v = x.X
		default:
			return v
		}
	}
}

// asCall returns the call behind a value (through deref).
func asCall(v ssa.Value) *ssa.Call {
	c, _ := deref(v).(*ssa.Call)
	return c
}

// isCallValueTo: v is (through deref) a call of one of the named callees.
func isCallValueTo(v ssa.Value, names ...string) bool {
	c := asCall(v)
	return c != nil && isCallTo(c, names...)
}

// variadicElems returns the values stored into the backing array of a
// variadic / slice-literal argument `new([n]T)[:]`.
func variadicElems(v ssa.Value) []ssa.Value {
	sl, ok := v.(*ssa.Slice)
	if !ok {
		return nil
	}
	a, ok := sl.X.(*ssa.Alloc)
	if !ok {
		return nil
	}
	out := map[int64]ssa.Value{}
	max := int64(-1)
	for _, r := range *a.Referrers() {
		ia, ok := r.(*ssa.IndexAddr)
		if !ok {
			continue
		}
		c, ok := ia.Index.(*ssa.Const)
		if !ok || c.Value == nil {
			continue
		}
		k, _ := constant.Int64Val(c.Value)
		for _, rr := range *ia.Referrers() {
			if st, ok := rr.(*ssa.Store); ok && st.Addr == ia {
				out[k] = st.Val
				if k > max {
					max = k
				}
			}
		}
	}
	var res []ssa.Value
	for i := int64(0); i <= max; i++ {
		res = append(res, out[i])
	}
	return res
}

// constString returns the string value of a constant.
func constString(v ssa.Value) (string, bool) {
	c, ok := v.(*ssa.Const)
	if !ok || c.Value == nil || c.Value.Kind() != constant.String {
		return "", false
	}
	return constant.StringVal(c.Value), true
}

func constInt(v ssa.Value) (int64, bool) {
	c, ok := v.(*ssa.Const)
	if !ok || c.Value == nil || c.Value.Kind() != constant.Int {
		return 0, false
	}
	return constant.Int64Val(c.Value)
}

// phiEdgeLit returns the branch literal under which edge i of a phi is
// selected: the literal of the nearest conditional branch on the (single
// predecessor) chain from the phi's i-th predecessor upwards.
func phiEdgeLit(ph *ssa.Phi, i int) (Lit, bool) {
	b := ph.Block()
	if i >= len(b.Preds) {
		return Lit{}, false
	}
	cur, from := b, b.Preds[i]
	for steps := 0; steps < 8; steps++ {
		if len(from.Instrs) == 0 {
			return Lit{}, false
		}
		if ifi, ok := from.Instrs[len(from.Instrs)-1].(*ssa.If); ok {
			if from.Succs[0] == from.Succs[1] {
				return Lit{}, false
			}
			return litOf(ifi.Cond, from.Succs[0] == cur), true
		}
		if len(from.Preds) != 1 {
			return Lit{}, false
		}
		cur, from = from, from.Preds[0]
	}
	return Lit{}, false
}

// controlLits returns the literals of the conditional branches that decide
// whether block b is executed, following the dominator chain: an If-block D
// strictly dominating b contributes its literal when exactly one of its
// successors dominates b. (Exact for structured if / && chains; conditions
// joined by || are not reported.)
func controlLits(b *ssa.BasicBlock) []Lit {
	var out []Lit
	for d := b.Idom(); d != nil; d = d.Idom() {
		if len(d.Instrs) == 0 {
			continue
		}
		ifi, ok := d.Instrs[len(d.Instrs)-1].(*ssa.If)
		if !ok {
			continue
		}
		t, f := d.Succs[0].Dominates(b), d.Succs[1].Dominates(b)
		// a successor with several predecessors is a join, not a branch arm
		if t && len(d.Succs[0].Preds) != 1 {
			t = false
		}
		if f && len(d.Succs[1].Preds) != 1 {
			f = false
		}
		if t != f {
			out = append(out, litOf(ifi.Cond, t))
		}
	}
	return out
}

// accessPath renders the access path of an address/value relative to a root
// value: fields as ".F", every index / map element / range element as "[]".
// Loads are transparent. Returns the root reached.
func accessPath(v ssa.Value) (ssa.Value, string) {
	switch x := v.(type) {
	case *ssa.FieldAddr:
		r, p := accessPath(x.X)
		st := x.X.Type().Underlying().(*types.Pointer).Elem().Underlying().(*types.Struct)
		return r, p + "." + st.Field(x.Field).Name()
	case *ssa.Field:
		r, p := accessPath(x.X)
		st := x.X.Type().Underlying().(*types.Struct)
		return r, p + "." + st.Field(x.Field).Name()
	case *ssa.UnOp:
		if x.Op == token.MUL {
			if a, ok := x.X.(*ssa.Alloc); ok {
				if sv := singleStore(a); sv != nil {
					return accessPath(sv)
				}
			}
			return accessPath(x.X)
		}
	case *ssa.IndexAddr:
		r, p := accessPath(x.X)
		return r, p + "[]"
	case *ssa.Index:
		r, p := accessPath(x.X)
		return r, p + "[]"
	case *ssa.Lookup:
		r, p := accessPath(x.X)
		return r, p + "[]"
	case *ssa.Extract:
		if nx, ok := x.Tuple.(*ssa.Next); ok {
			if rg, ok := nx.Iter.(*ssa.Range); ok && x.Index == 2 {
				r, p := accessPath(rg.X)
				return r, p + "[]"
			}
		}
		if lk, ok := x.Tuple.(*ssa.Lookup); ok && x.Index == 0 {
			return accessPath(lk)
		}
	case *ssa.ChangeType:
		return accessPath(x.X)
	case *ssa.MakeInterface:
		return accessPath(x.X)
	}
	return v, ""
}

// typeReaches reports whether the type graph of t (through pointers, slices,
// arrays, maps, struct fields) contains a named type accepted by pred.
func typeReaches(t types.Type, pred func(*types.Named) bool) bool {
	seen := map[types.Type]bool{}
	var rec func(t types.Type) bool
	rec = func(t types.Type) bool {
		t = types.Unalias(t)
		if seen[t] {
			return false
		}
		seen[t] = true
		switch x := t.(type) {
		case *types.Named:
			if pred(x) {
				return true
			}
			return rec(x.Underlying())
		case *types.Pointer:
			return rec(x.Elem())
		case *types.Slice:
			return rec(x.Elem())
		case *types.Array:
			return rec(x.Elem())
		case *types.Map:
			return rec(x.Key()) || rec(x.Elem())
		case *types.Tuple:
			for i := 0; i < x.Len(); i++ {
				if rec(x.At(i).Type()) {
					return true
				}
			}
		case *types.Struct:
			for i := 0; i < x.NumFields(); i++ {
				if rec(x.Field(i).Type()) {
					return true
				}
			}
		}
		return false
	}
	return rec(t)
}

// regionPaths enumerates the acyclic instruction sequences from the start of
// block `from` until (excluding) block `stop`. ok=false when the cap is hit
// or a path leaves the function without reaching stop.
func regionPaths(from, stop *ssa.BasicBlock, cap int) (paths [][]ssa.Instruction, ok bool) {
	ok = true
	var cur []ssa.Instruction
	on := map[*ssa.BasicBlock]bool{}
	var rec func(b *ssa.BasicBlock)
	rec = func(b *ssa.BasicBlock) {
		if !ok {
			return
		}
		if b == stop {
			if len(paths) >= cap {
				ok = false
				return
			}
			paths = append(paths, append([]ssa.Instruction(nil), cur...))
			return
		}
		if on[b] || len(b.Succs) == 0 {
			ok = false
			return
		}
		on[b] = true
		n := len(cur)
		cur = append(cur, b.Instrs...)
		for _, s := range b.Succs {
			rec(s)
		}
		cur = cur[:n]
		on[b] = false
	}
	rec(from)
	return
}

// constStringUses lists the positions of string constants (basic literals or
// named constants) in module syntax whose value satisfies pred, with the
// enclosing function name.
func constStringUses(p *Prog, pred func(string) bool) (sites []string, poss []token.Pos) {
	for _, pk := range p.Pkgs {
		for _, f := range pk.Syntax {
			ast.Inspect(f, func(n ast.Node) bool {
				e, ok := n.(ast.Expr)
				if !ok {
					return true
				}
				switch e.(type) {
				case *ast.BasicLit, *ast.Ident, *ast.SelectorExpr:
				default:
					return true
				}
				tv, ok := pk.TypesInfo.Types[e]
				if !ok || tv.Value == nil || tv.Value.Kind() != constant.String {
					return true
				}
				if pred(constant.StringVal(tv.Value)) {
					sites = append(sites, strings.TrimPrefix(pk.PkgPath, modPath+"/")+"|"+funcDeclName(enclosingFunc(f, e.Pos())))
					poss = append(poss, e.Pos())
				}
				return false
			})
		}
	}
	return
}

// structFieldStores collects, for an Alloc (or any pointer-to-struct value),
// the values stored into its fields in the function: field name -> values.
func structFieldStores(base ssa.Value) map[string][]ssa.Value {
	out := map[string][]ssa.Value{}
	refs := base.Referrers()
	if refs == nil {
		return out
	}
	for _, r := range *refs {
		fa, ok := r.(*ssa.FieldAddr)
		if !ok || fa.X != base {
			continue
		}
		st := fa.X.Type().Underlying().(*types.Pointer).Elem().Underlying().(*types.Struct)
		name := st.Field(fa.Field).Name()
		for _, rr := range *fa.Referrers() {
			if s, ok := rr.(*ssa.Store); ok && s.Addr == fa {
				out[name] = append(out[name], s.Val)
			}
		}
	}
	return out
}

// isParam reports whether v is (a load of) parameter idx of its function.
func isParam(v ssa.Value, idx int) bool {
	v = deref(v)
	if u, ok := v.(*ssa.UnOp); ok && u.Op == token.MUL {
		v = u.X
	}
	p, ok := v.(*ssa.Parameter)
	return ok && paramIndex(p) == idx
}

// mustPassPred is MustPass with an arbitrary literal predicate (for atoms
// that are built from resolved SSA values rather than written as text).
func (c *Ctx) mustPassPred(p *Prog, fn *ssa.Function, rule, key string, t target, accept func(Lit) bool) bool {
	if fn == nil {
		return false
	}
	n := countTargets(fn, t)
	if n == 0 {
		c.Undecided("UNRESOLVED ANCHOR effect of " + key + " not found in " + fnName(fn) + " (rule " + rule + ")")
		return false
	}
	w := (&Walker{
		Visit: func(i ssa.Instruction) int {
			if t(i) {
				return wHit
			}
			return wContinue
		},
		Edge: func(l Lit) bool { return !accept(l) },
	}).Run(entry(fn))
	if w != nil {
		return c.Check(rule, key, false, p.Pos(posOf(w.Hit, fn)), "effect reachable without the required condition: "+w.String(p))
	}
	return c.Check(rule, key, true, p.Pos(fn.Pos()), itoa(n)+" effect site(s), all paths carry the condition")
}
