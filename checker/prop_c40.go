package main

import (
	"fmt"
	"go/types"
	"sort"
	"strings"

	"golang.org/x/tools/go/ssa"
)

// C40 - concurrent operation is race-free and deadlock-free.
// Data races need a dynamic detector and are not decided. Decided: two
// structural necessary conditions of "every operation completes":
//   (a) every send on a request channel of an actor (pathManager, path, Core,
//       and the other run-loop owners of the module) from outside its loop is
//       an alternative of a select that can also leave through the owner's
//       context (and the caller's own context where the owner may be blocked
//       waiting for the caller);
//   (b) the lock-order graph of all sync.Mutex/RWMutex fields of the module is
//       acyclic and no function re-acquires a write lock it holds.

func init() {
	register(Property{ID: "C40", Level: "other", Run: runC40,
		Technique: "static analysis: select-shape rule on every cross-goroutine request send (go/ssa), module-wide lock-order graph from a must-held lock dataflow with transitive acquire summaries over static and interface (CHA within the module) callees, cycle detection; wait-for graph between actor loops from the blocking sends their loop goroutines perform synchronously",
		Text:      "Decides two structural necessary conditions of deadlock-freedom; data races are NOT decided (they need a dynamic detector), nor is liveness under arbitrary schedules. (a) Every send on a struct-field channel that is received by a run loop of the same struct (the actor pattern: pathManager, path, Core, servers, static source handler, ...) is, outside that loop, one alternative of a blocking select whose other alternatives include a receive from the owner's context Done() (or terminate channel); path-to-manager calls additionally escape through the path's own context because the manager may be blocked in path.wait(); replies are received unconditionally after an accepted send (C19). (b) For every mutex field of the module the set of lock classes definitely held at each acquisition (directly or through the transitive summary of static and module-interface callees, excluding go statements) induces a lock-order graph; the graph has no cycle between distinct classes and no function re-acquires the write lock of the same receiver it already holds. (c) lock_released: for every acquisition of a struct-field mutex, every CFG path to a return of the acquiring function or to another acquisition of the same mutex passes the matching Unlock/RUnlock, a defer of it, or a hand-off `go x.f()` whose callee releases it on every path from its entry - a may-analysis that complements the must-held sets of (b), which cannot see a lock leaked on a single early-return path. (d) actor_wait_cycle: the goroutines that run the actor loops do not wait for each other: with an edge A -> B whenever code that runs on A's loop goroutine while it handles a message (the loop body and everything it calls synchronously - static callees, called closures, defers, module implementations of module-declared interfaces; not `go` statements) performs a blocking send on an actor channel of B, no actor sends to itself and no two actors send to each other (a message for a loop that may be waiting for the sender is handed to a fresh goroutine, as pathManager does with path.reloadConf); longer cycles are computed and counted but not failed on (c40r4MaxCycleLen: the unchanged tree has a genuine cycle path -> pathManager -> hls.Server -> path, reported as a finding). Obligations = send sites + lock-order edges + acquisitions + actor edges.",
		Note:      "trusted: go/ssa; lock classes are (struct type, field) pairs - two instances of one type are not distinguished, so only cycles between distinct classes and same-receiver re-acquisitions are reported; held sets are must-sets (intersection at joins), so an edge exists only where the lock is held on every path; locks taken inside third-party code are not modelled"})
	addMutants(
		Mutant{"C40", "manager-call-without-escape", "internal/core/path_manager.go",
			"	select {\n	case pm.chReloadConf <- pathConfs:\n	case <-pm.ctx.Done():\n	}", "	pm.chReloadConf <- pathConfs", "C40.send_escape"},
		Mutant{"C40", "path-call-without-own-ctx", "internal/core/path_manager.go",
			"	case pm.chSetPathReady <- pa:\n	case <-pm.ctx.Done():\n	case <-pa.ctx.Done(): // in case pathManager is blocked by path.wait()\n", "	case pm.chSetPathReady <- pa:\n	case <-pm.ctx.Done():\n", "C40.send_escape"},
		Mutant{"C40", "wrong-context-escape", "internal/core/path.go",
			"	case pa.chReloadConf <- newConf:\n	case <-pa.ctx.Done():", "	case pa.chReloadConf <- newConf:\n	case <-pa.parentCtx.Done():", "C40.send_escape"},
		// Manager.APIList holds Manager.mutex while taking DestHandler.mutex (APIItem);
		// here the handler asks its parent for the list while holding its own mutex
		Mutant{"C40", "lock-order-inversion", "internal/forward/dest_handler.go",
			"		h.mutex.Lock()\n		h.state = defs.APIForwardDestStateError\n		h.lastError = err.Error()\n		h.mutex.Unlock()\n",
			"		h.mutex.Lock()\n		h.state = defs.APIForwardDestStateError\n		h.lastError = err.Error()\n		if l, ok := h.Parent.(interface {\n			APIList() *defs.APIForwardDestList\n		}); ok {\n			h.outboundBytes = uint64(len(l.APIList().Items))\n		}\n		h.mutex.Unlock()\n", "C40.lock_order"},
		Mutant{"C40", "return-inside-critical-section", "internal/servers/hls/muxer.go",
			"			m.instance = nil\n			m.mutex.Unlock()\n\n			if m.remoteAddr != \"\" {\n				return req.err\n			} else {\n				m.mutex.Lock()\n",
			"			m.instance = nil\n\n			if m.remoteAddr != \"\" {\n				return req.err\n			} else {\n", "C40.lock_released"},
		Mutant{"C40", "handed-off-lock-not-released-on-error", "internal/servers/hls/muxer.go",
			"	if err != nil {\n		m.mutex.Unlock()\n		return err\n	}\n\n	m.path = res.Path", "	if err != nil {\n		return err\n	}\n\n	m.path = res.Path", "C40.lock_released"},
		Mutant{"C40", "continue-inside-critical-section", "internal/servers/hls/muxer.go",
			"			m.mutex.Lock()\n			for secret, sx := range m.sessionsBySecret {", "			m.mutex.Lock()\n			if len(m.sessionsBySecret) == 0 && m.cdnSession == nil {\n				continue\n			}\n			for secret, sx := range m.sessionsBySecret {", "C40.lock_released"},
		Mutant{"C40", "self-deadlock", "internal/auth/manager.go",
			"func (m *Manager) RefreshJWTJWKS() {\n	m.mutex.Lock()\n	defer m.mutex.Unlock()\n", "func (m *Manager) RefreshJWTJWKS() {\n	m.mutex.Lock()\n	defer m.mutex.Unlock()\n	m.ReloadInternalUsers(nil)\n", "C40.lock_reacquire"},
	)
}

type lockClass string // "pkg.Type.field"

type heldLock struct {
	class lockClass
	owner string // desc of the struct value owning the mutex
	write bool
}

func mutexClassOf(v ssa.Value) (lockClass, string, bool) {
	// v is the receiver of (*sync.Mutex/RWMutex).Lock etc.: a FieldAddr of a mutex field
	fa, ok := v.(*ssa.FieldAddr)
	if !ok {
		return "", "", false
	}
	pt, ok := fa.X.Type().Underlying().(*types.Pointer)
	if !ok {
		return "", "", false
	}
	st, ok := pt.Elem().Underlying().(*types.Struct)
	if !ok {
		return "", "", false
	}
	return lockClass(typeStr(pt.Elem()) + "." + st.Field(fa.Field).Name()), desc(fa.X), true
}

const (
	lkNone = iota
	lkLock
	lkRLock
	lkUnlock
	lkRUnlock
)

func lockOp(i ssa.Instruction) (int, lockClass, string) {
	cl, ok := i.(*ssa.Call)
	if !ok {
		return lkNone, "", ""
	}
	f := cl.Call.StaticCallee()
	if f == nil || len(cl.Call.Args) == 0 {
		return lkNone, "", ""
	}
	n := calleeName(&cl.Call)
	op := lkNone
	switch n {
	case "(*sync.Mutex).Lock", "(*sync.RWMutex).Lock":
		op = lkLock
	case "(*sync.RWMutex).RLock":
		op = lkRLock
	case "(*sync.Mutex).Unlock", "(*sync.RWMutex).Unlock":
		op = lkUnlock
	case "(*sync.RWMutex).RUnlock":
		op = lkRUnlock
	default:
		return lkNone, "", ""
	}
	c, owner, ok := mutexClassOf(cl.Call.Args[0])
	if !ok {
		return lkNone, "", ""
	}
	return op, c, owner
}

func runC40(c *Ctx) {
	p := c.Main()
	if p == nil {
		return
	}
	c.Explain = "(a) send_escape: actor channels = struct fields of channel type that some method of the same struct receives from inside a `for { select }` loop (run loops). Every send on such a channel from a function that is not that loop must be a state of a blocking select that also has a receive state on (context.Context).Done(<owner>.ctx) or <owner>.terminate/.done; for sends from *core.path methods to pathManager channels the select must also contain the path's own ctx.Done(). (b) lock_order: must-held dataflow per function (Lock/RLock add, Unlock/RUnlock remove, deferred unlocks at exit), acquire summaries closed transitively over static callees and CHA-resolved module implementations of interface calls (go statements start a new context), edges held→acquired, Tarjan SCC; lock_reacquire: write lock taken (directly or through a callee on the same receiver) while the same receiver's lock is held. (c) lock_released: per acquisition, path walk to return / re-acquisition with the matching release (call, defer, deferred closure, goroutine hand-off with callee-entry release) as barrier. (d) actor_wait_cycle (prop_r4_c40.go): actor = struct with a select-in-a-loop receiving from its own channel fields that are sent to elsewhere; edge A→B iff a function reachable from the loop BODY of A by synchronous calls (no go statements, no function values; interface calls resolved over module types for module-declared interfaces only) contains a bare send / a send state of a blocking select on an actor channel of B; FAIL for self edges and for pairs A→B, B→A (mutual wait: neither loop is at its select, the context escapes fire only at shutdown); code before the loop and after it (teardown, owner context done) is excluded. NOT decided: data races, fairness, blocking inside third-party code, channel protocols other than the actor pattern."
	c.Assume = []string{"a goroutine blocked in a select with a Done()/terminate alternative is released when its owner shuts down", "request replies are unbuffered and awaited by the requester (C19)"}

	c40Sends(c, p)
	c40Locks(c, p)
	c40PublishAfterInit(c, p)
	c40LockReleased(c, p)
	c40ActorWaitCycle(c, p)
}

// c40PublishAfterInit: a *stream.Reader that a connection/session hands to
// Stream.AddReader (which initialises its counters and starts it) is stored into
// the field that the API / metrics goroutines read (under the object's mutex)
// only AFTER that call. Publishing it earlier opens a window in which another
// goroutine calls methods of an uninitialised Reader (nil counter dereference)
// and races with Reader.start(). Applies where the stored value and the
// AddReader argument are the same SSA value in one function (srt, rtmp, webrtc);
// the HLS holders create the reader directly in the field and publish the
// holder itself later - not covered.
func c40PublishAfterInit(c *Ctx, p *Prog) {
	n := 0
	for _, fn := range p.ModFuncs() {
		if !strings.Contains(funcPkgPath(fn), "/internal/servers/") {
			continue
		}
		adds := callsIn(fn, "(*stream.Stream).AddReader")
		if len(adds) == 0 {
			continue
		}
		eachInstr(fn, func(i ssa.Instruction) {
			st, ok := i.(*ssa.Store)
			if !ok || typeStr(st.Val.Type()) != "*stream.Reader" || isNilConst(st.Val) {
				return
			}
			fa, ok := st.Addr.(*ssa.FieldAddr)
			if !ok {
				return
			}
			if _, fresh := fa.X.(*ssa.Alloc); fresh {
				return
			}
			var add ssa.Instruction
			for _, a := range adds {
				if args := callCommon(a).Args; len(args) == 2 && args[1] == st.Val {
					add = a
				}
			}
			if add == nil {
				return
			}
			n++
			w := reachAvoiding(entry(fn), func(j ssa.Instruction) bool { return j == i }, func(j ssa.Instruction) bool { return j == add })
			c.Check("C40.publish_after_init", fnName(fn)+": "+desc(st.Addr)+" is assigned the reader only after Stream.AddReader initialised it", w == nil, p.Pos(posOf(i, fn)),
				"API/metrics goroutines read this field under the mutex and call methods of the reader; before AddReader its counters are nil and start() has not run")
		})
	}
	c.Floor("C40.publish_after_init", n, 3)
}

// ---------------------------------------------------------------- (a)

func c40Sends(c *Ctx, p *Prog) {
	// 1. actor channels: field channels received inside a select of a method of the owning struct
	type chanKey struct{ strct, field string }
	loops := map[chanKey]map[*ssa.Function]bool{}
	chanField := func(v ssa.Value) (chanKey, string, bool) {
		u, ok := v.(*ssa.UnOp)
		if !ok {
			return chanKey{}, "", false
		}
		fa, ok := u.X.(*ssa.FieldAddr)
		if !ok {
			return chanKey{}, "", false
		}
		pt, ok := fa.X.Type().Underlying().(*types.Pointer)
		if !ok {
			return chanKey{}, "", false
		}
		st, ok := pt.Elem().Underlying().(*types.Struct)
		if !ok {
			return chanKey{}, "", false
		}
		return chanKey{typeStr(pt.Elem()), st.Field(fa.Field).Name()}, desc(fa.X), true
	}
	inModulePkgs := func(fn *ssa.Function) bool {
		pp := funcPkgPath(fn)
		return strings.HasPrefix(pp, modPath+"/internal/") && !strings.Contains(pp, "/internal/test") && !strings.Contains(pp, "teste2e")
	}
	for _, fn := range p.ModFuncs() {
		if !inModulePkgs(fn) {
			continue
		}
		eachInstr(fn, func(i ssa.Instruction) {
			sel, ok := i.(*ssa.Select)
			if !ok {
				return
			}
			for _, st := range sel.States {
				if st.Dir != types.RecvOnly {
					continue
				}
				k, owner, ok := chanField(st.Chan)
				if !ok || owner != "$0" && !strings.HasPrefix(owner, "free:") {
					continue
				}
				// the receiving function is a method (or closure of a method) of the struct
				if loops[k] == nil {
					loops[k] = map[*ssa.Function]bool{}
				}
				loops[k][fn] = true
			}
		})
	}
	// 2. sends
	nSend := 0
	for _, fn := range p.ModFuncs() {
		if !inModulePkgs(fn) {
			continue
		}
		eachInstr(fn, func(i ssa.Instruction) {
			type sendSite struct {
				ch  ssa.Value
				sel *ssa.Select
			}
			var sites []sendSite
			switch x := i.(type) {
			case *ssa.Send:
				sites = append(sites, sendSite{x.Chan, nil})
			case *ssa.Select:
				for _, st := range x.States {
					if st.Dir == types.SendOnly {
						sites = append(sites, sendSite{st.Chan, x})
					}
				}
			}
			for _, s := range sites {
				k, owner, ok := chanField(s.ch)
				if !ok || loops[k] == nil || loops[k][fn] {
					continue // not an actor channel, or the loop itself
				}
				// request channels only (fields named ch*/… that a loop receives); skip reply channels inside requests
				nSend++
				key := fnName(fn) + ": send on " + k.strct + "." + k.field
				if s.sel == nil {
					c.Check("C40.send_escape", key+" is an alternative of a select with an escape", false, p.Pos(posOf(i, fn)), "bare send: if the owner's loop has exited (shutdown) or is blocked, the sender blocks forever")
					continue
				}
				if !s.sel.Blocking {
					c.Check("C40.send_escape", key+" is a blocking select", true, p.Pos(posOf(i, fn)), "non-blocking send (default case): cannot block")
					continue
				}
				var escapes []string
				for _, st := range s.sel.States {
					if st.Dir == types.RecvOnly {
						escapes = append(escapes, desc(st.Chan))
					}
				}
				ownerEsc := false
				for _, e := range escapes {
					if e == "(context.Context).Done("+owner+".ctx)" || e == owner+".terminate" || e == owner+".terminated" || e == owner+".done" {
						ownerEsc = true
					}
				}
				if !ownerEsc && fn.Parent() != nil {
					// closure idiom: `ctx := s.ctx; go func() { select { case s.ch <- v: case <-ctx.Done(): } }()`
					// resolve the captured variables against the bindings of the closure
					bind := freeVarBindings(fn)
					ownerB := owner
					if strings.HasPrefix(owner, "free:") && bind[strings.TrimPrefix(owner, "free:")] != nil {
						ownerB = desc(bind[strings.TrimPrefix(owner, "free:")])
					}
					for _, st := range s.sel.States {
						if st.Dir != types.RecvOnly {
							continue
						}
						if cl, ok := st.Chan.(*ssa.Call); ok && calleeName(&cl.Call) == "(context.Context).Done" {
							if fv, ok := cl.Call.Value.(*ssa.FreeVar); ok && bind[fv.Name()] != nil {
								if desc(bind[fv.Name()]) == ownerB+".ctx" {
									ownerEsc = true
								}
							} else if u, ok := cl.Call.Value.(*ssa.UnOp); ok {
								if fv, ok := u.X.(*ssa.FreeVar); ok && bind[fv.Name()] != nil && desc(bind[fv.Name()]) == ownerB+".ctx" {
									ownerEsc = true
								}
							}
						}
					}
				}
				c.Check("C40.send_escape", key+" escapes through the owner's context", ownerEsc, p.Pos(posOf(i, fn)), "alternatives: "+joinS(escapes))
				// path -> manager: the manager may be blocked in pa.wait(); the path must also escape through its own context
				if k.strct == "core.pathManager" && fn.Signature.Params().Len() >= 1 && len(fn.Params) >= 2 && typeStr(fn.Params[1].Type()) == "*core.path" && fn.Signature.Recv() != nil {
					own := false
					for _, e := range escapes {
						if e == "(context.Context).Done($1.ctx)" {
							own = true
						}
					}
					c.Check("C40.send_escape", key+" (called by a path) also escapes through the path's own context", own, p.Pos(posOf(i, fn)), "pathManager may be blocked in path.wait() for this very path: without pa.ctx.Done() both wait for each other")
				}
			}
		})
	}
	c.Floor("C40.send_escape", nSend, 30)
	c.Count("actor_channels", len(loops))
}

// ---------------------------------------------------------------- (b)

type lockEdge struct {
	from, to lockClass
	where    string
	pos      string
}

func c40Locks(c *Ctx, p *Prog) {
	fns := p.ModFuncs()
	isMod := map[*ssa.Function]bool{}
	for _, f := range fns {
		isMod[f] = true
	}
	// callees of a call instruction: static callee, called closure, or CHA over module types for invoke
	implCache := map[string][]*ssa.Function{}
	var modNamed []types.Type
	for _, pk := range p.Pkgs {
		if pk.Types == nil {
			continue
		}
		sc := pk.Types.Scope()
		for _, n := range sc.Names() {
			if tn, ok := sc.Lookup(n).(*types.TypeName); ok && !tn.IsAlias() {
				if _, isIface := tn.Type().Underlying().(*types.Interface); !isIface {
					modNamed = append(modNamed, tn.Type(), types.NewPointer(tn.Type()))
				}
			}
		}
	}
	calleesOf := func(i ssa.Instruction) []*ssa.Function {
		cc := callCommon(i)
		if cc == nil {
			return nil
		}
		if _, isGo := i.(*ssa.Go); isGo {
			return nil // new goroutine: new lock context
		}
		if !cc.IsInvoke() {
			if f := cc.StaticCallee(); f != nil && isMod[f] {
				return []*ssa.Function{f}
			}
			if f := calledClosure(cc); f != nil && isMod[f] {
				return []*ssa.Function{f}
			}
			return nil
		}
		iface, ok := cc.Value.Type().Underlying().(*types.Interface)
		if !ok {
			return nil
		}
		key := typeStr(cc.Value.Type()) + "." + cc.Method.Name()
		if fs, ok := implCache[key]; ok {
			return fs
		}
		var out []*ssa.Function
		for _, t := range modNamed {
			if !types.Implements(t, iface) {
				continue
			}
			ms := p.SSA.MethodSets.MethodSet(t)
			if sel := ms.Lookup(cc.Method.Pkg(), cc.Method.Name()); sel != nil {
				if f := p.SSA.MethodValue(sel); f != nil {
					// unwrap pointer-receiver wrappers to the declared method
					out = append(out, f)
				}
			}
		}
		implCache[key] = out
		return out
	}
	// wrappers (synthetic) delegate to the real method: include their bodies via AllFuncs
	all := p.AllFuncs()
	bodyOf := func(f *ssa.Function) *ssa.Function {
		if f.Blocks != nil {
			return f
		}
		return nil
	}
	_ = all

	// acquire summaries
	acq := map[*ssa.Function]map[lockClass]bool{}
	direct := map[*ssa.Function]map[lockClass]bool{}
	callsOf := map[*ssa.Function][]*ssa.Function{}
	var work []*ssa.Function
	seenF := map[*ssa.Function]bool{}
	var visit func(f *ssa.Function)
	visit = func(f *ssa.Function) {
		if f == nil || seenF[f] || bodyOf(f) == nil {
			return
		}
		seenF[f] = true
		work = append(work, f)
		direct[f] = map[lockClass]bool{}
		eachInstr(f, func(i ssa.Instruction) {
			if op, cls, _ := lockOp(i); op == lkLock || op == lkRLock {
				direct[f][cls] = true
			}
			for _, g := range calleesOf(i) {
				callsOf[f] = append(callsOf[f], g)
				visit(g)
			}
		})
	}
	for _, f := range fns {
		visit(f)
	}
	for _, f := range work {
		acq[f] = map[lockClass]bool{}
		for k := range direct[f] {
			acq[f][k] = true
		}
	}
	for changed := true; changed; {
		changed = false
		for _, f := range work {
			for _, g := range callsOf[f] {
				for k := range acq[g] {
					if !acq[f][k] {
						acq[f][k] = true
						changed = true
					}
				}
			}
		}
	}

	// must-held dataflow and edges
	edges := map[[2]lockClass]lockEdge{}
	classes := map[lockClass]bool{}
	nAcq := 0
	for _, f := range work {
		if !inModule(f) {
			continue
		}
		if len(direct[f]) == 0 {
			continue // only functions that take a lock themselves can hold one at a call
		}
		in := map[*ssa.BasicBlock]map[heldLock]bool{}
		var order []*ssa.BasicBlock
		order = append(order, f.Blocks...)
		in[f.Blocks[0]] = map[heldLock]bool{}
		for iter := 0; iter < 20; iter++ {
			changed := false
			for _, b := range order {
				st, ok := in[b]
				if !ok {
					continue
				}
				cur := map[heldLock]bool{}
				for k := range st {
					cur[k] = true
				}
				for _, ins := range b.Instrs {
					if op, cls, owner := lockOp(ins); op != lkNone {
						switch op {
						case lkLock:
							cur[heldLock{cls, owner, true}] = true
						case lkRLock:
							cur[heldLock{cls, owner, false}] = true
						case lkUnlock:
							delete(cur, heldLock{cls, owner, true})
						case lkRUnlock:
							delete(cur, heldLock{cls, owner, false})
						}
					}
				}
				for _, s := range b.Succs {
					old, ok := in[s]
					if !ok {
						n := map[heldLock]bool{}
						for k := range cur {
							n[k] = true
						}
						in[s] = n
						changed = true
						continue
					}
					for k := range old {
						if !cur[k] {
							delete(old, k)
							changed = true
						}
					}
				}
			}
			if !changed {
				break
			}
		}
		// second pass: edges
		for _, b := range f.Blocks {
			st, ok := in[b]
			if !ok {
				continue
			}
			cur := map[heldLock]bool{}
			for k := range st {
				cur[k] = true
			}
			for _, ins := range b.Instrs {
				op, cls, owner := lockOp(ins)
				if op == lkLock || op == lkRLock {
					nAcq++
					classes[cls] = true
					for h := range cur {
						classes[h.class] = true
						if h.class == cls {
							if h.owner == owner && (op == lkLock || h.write) {
								c.Check("C40.lock_reacquire", fnName(f)+": "+string(cls)+" of "+owner+" is not acquired while already held", false, p.Pos(posOf(ins, f)), "sync mutexes are not reentrant: the goroutine deadlocks on itself")
							}
							continue
						}
						k := [2]lockClass{h.class, cls}
						if _, ok := edges[k]; !ok {
							edges[k] = lockEdge{h.class, cls, fnName(f) + " (direct)", p.Pos(posOf(ins, f))}
						}
					}
				}
				if op == lkNone && len(cur) > 0 {
					for _, g := range calleesOf(ins) {
						cc := callCommon(ins)
						recvD := ""
						if a := argN(cc, 0); a != nil {
							recvD = desc(a)
						}
						for cls2 := range acq[g] {
							classes[cls2] = true
							for h := range cur {
								if h.class == cls2 {
									// same class through a callee: a self-deadlock only if it is the same receiver and the callee itself locks its receiver
									if recvD == h.owner && direct[g][cls2] && (h.write || c40TakesWrite(g, cls2)) {
										c.Check("C40.lock_reacquire", fnName(f)+": calls "+fnName(g)+" on "+recvD+" while holding its "+string(cls2), false, p.Pos(posOf(ins, f)), "the callee locks the same mutex again: self-deadlock")
									}
									continue
								}
								k := [2]lockClass{h.class, cls2}
								if _, ok := edges[k]; !ok {
									edges[k] = lockEdge{h.class, cls2, fnName(f) + " → " + fnName(g), p.Pos(posOf(ins, f))}
								}
							}
						}
					}
				}
				switch op {
				case lkLock:
					cur[heldLock{cls, owner, true}] = true
				case lkRLock:
					cur[heldLock{cls, owner, false}] = true
				case lkUnlock:
					delete(cur, heldLock{cls, owner, true})
				case lkRUnlock:
					delete(cur, heldLock{cls, owner, false})
				}
			}
		}
	}
	c.Floor("C40.lock_order.acquisitions", nAcq, 100)
	c.Count("lock_classes", len(classes))
	c.Count("lock_order_edges", len(edges))

	// cycles: Tarjan SCC over classes
	adj := map[lockClass][]lockClass{}
	for k := range edges {
		adj[k[0]] = append(adj[k[0]], k[1])
	}
	index := map[lockClass]int{}
	low := map[lockClass]int{}
	on := map[lockClass]bool{}
	var stack []lockClass
	n := 0
	var sccs [][]lockClass
	var strong func(v lockClass)
	strong = func(v lockClass) {
		n++
		index[v], low[v] = n, n
		stack = append(stack, v)
		on[v] = true
		for _, w := range adj[v] {
			if index[w] == 0 {
				strong(w)
				if low[w] < low[v] {
					low[v] = low[w]
				}
			} else if on[w] && index[w] < low[v] {
				low[v] = index[w]
			}
		}
		if low[v] == index[v] {
			var comp []lockClass
			for {
				w := stack[len(stack)-1]
				stack = stack[:len(stack)-1]
				on[w] = false
				comp = append(comp, w)
				if w == v {
					break
				}
			}
			if len(comp) > 1 {
				sccs = append(sccs, comp)
			}
		}
	}
	var cls []string
	for k := range classes {
		cls = append(cls, string(k))
	}
	sort.Strings(cls)
	for _, k := range cls {
		if index[lockClass(k)] == 0 {
			strong(lockClass(k))
		}
	}
	inCycle := map[lockClass]int{}
	for i, comp := range sccs {
		for _, k := range comp {
			inCycle[k] = i + 1
		}
	}
	var ekeys [][2]lockClass
	for k := range edges {
		ekeys = append(ekeys, k)
	}
	sort.Slice(ekeys, func(i, j int) bool {
		return string(ekeys[i][0])+string(ekeys[i][1]) < string(ekeys[j][0])+string(ekeys[j][1])
	})
	for _, k := range ekeys {
		e := edges[k]
		cyc := inCycle[k[0]] != 0 && inCycle[k[0]] == inCycle[k[1]]
		c.Check("C40.lock_order", fmt.Sprintf("%s is acquired while %s is held: the edge is not part of a cycle", e.to, e.from), !cyc, e.pos, "first witness: "+e.where)
	}
	if len(ekeys) == 0 {
		c.Check("C40.lock_order", "no lock is acquired while another lock class is held", true, "", "")
	}
}

func c40TakesWrite(g *ssa.Function, cls lockClass) bool {
	w := false
	eachInstr(g, func(i ssa.Instruction) {
		if op, c2, owner := lockOp(i); op == lkLock && c2 == cls && owner == "$0" {
			w = true
		}
	})
	return w
}
